"""Runner:  python -m hvmc.run <ID> --tier quick|thorough [--replay file]

Loads hvmc.checks.<id>, enumerates its root cases, explores each root in one of
up to 16 forked worker processes, merges the counters, matches violations
against known_findings.json, writes evidence/<ID>.json (schema-validated) and
replay files, prints VIOLATION / KNOWN-FINDING lines, sets the exit status.
"""
import argparse
import hashlib
import importlib
import json
import os
import sys
import time
import traceback

HERE = os.path.dirname(os.path.abspath(__file__))
VERIF = os.path.dirname(HERE)
REPO = os.environ.get("HVMC_REPO", "/repo")


def _prepare_environment():
    """Pin the nondeterminism the harness owns; re-exec if PYTHONHASHSEED unset."""
    changed = False
    if os.environ.get("PYTHONHASHSEED") != "0":
        os.environ["PYTHONHASHSEED"] = "0"
        changed = True
    want = {"MPLBACKEND": "Agg", "HVSRPY_VERIF": "1",
            "NUMBA_NUM_THREADS": "1", "OMP_NUM_THREADS": "1",
            "OPENBLAS_NUM_THREADS": "1", "MKL_NUM_THREADS": "1"}
    for k, v in want.items():
        if os.environ.get(k) != v:
            os.environ[k] = v
            changed = True
    try:
        with open(os.path.join(REPO, "hvsrpy", "smoothing.py"), "rb") as f:
            sha = hashlib.sha256(f.read()).hexdigest()[:16]
    except OSError:
        sha = "nosrc"
    cache = os.path.join(VERIF, ".cache", "numba", sha)
    if os.environ.get("NUMBA_CACHE_DIR") != cache:
        os.makedirs(cache, exist_ok=True)
        os.environ["NUMBA_CACHE_DIR"] = cache
        changed = True
    tmp = os.path.join(VERIF, ".cache", "tmp")
    os.makedirs(tmp, exist_ok=True)
    if os.environ.get("TMPDIR") != tmp:
        os.environ["TMPDIR"] = tmp
        changed = True
    if changed and os.environ.get("HVMC_REEXEC") != "1":
        os.environ["HVMC_REEXEC"] = "1"
        os.execv(sys.executable, [sys.executable, "-m", "hvmc.run"] + sys.argv[1:])


def _worker(args):
    modname, tier, seed, roots = args
    from hvmc.engine.core import Ctx
    mod = importlib.import_module(modname)
    ctx = Ctx(mod.PROPERTY, tier, seed)
    for root in roots:
        try:
            mod.run_root(root, ctx, tier)
        except Exception:       # a harness crash is never silently a pass
            ctx.violation(mod.PROPERTY + ":harness-error", root,
                          observed=traceback.format_exc()[-3000:],
                          explanation="the harness (not hvsrpy) raised while exploring this root")
        ctx.count("roots")
    return ctx.payload()


def _warm(mod, tier):
    if hasattr(mod, "warm"):
        import inspect
        if len(inspect.signature(mod.warm).parameters):
            mod.warm(tier)
        else:
            mod.warm()


def load_findings():
    path = os.path.join(VERIF, "known_findings.json")
    if not os.path.exists(path):
        return dict(known=[], fixed=[])
    with open(path) as f:
        return json.load(f)


def main(argv=None):
    _prepare_environment()
    ap = argparse.ArgumentParser()
    ap.add_argument("prop")
    ap.add_argument("--tier", default=os.environ.get("VERIF_TIER", "quick"),
                    choices=["quick", "thorough"])
    ap.add_argument("--replay", default=None)
    ap.add_argument("--jobs", type=int, default=int(os.environ.get("HVMC_JOBS", "16")))
    ap.add_argument("--no-evidence", action="store_true")
    a = ap.parse_args(argv)
    seed = int(os.environ.get("VERIF_SEED", "0") or 0)
    prop = a.prop.upper()
    modname = "hvmc.checks." + prop.lower()

    if REPO != "/repo":
        sys.path.insert(0, REPO)
    t0 = time.time()
    import warnings
    warnings.simplefilter("ignore")     # checks that need warnings record them explicitly
    from hvmc.engine.core import Ctx, digest
    import hvsrpy
    src = os.path.dirname(os.path.abspath(hvsrpy.__file__))
    if not src.startswith(os.path.abspath(REPO)):
        print(f"hvsrpy imported from {src}, expected under {REPO}", file=sys.stderr)
        return 2
    mod = importlib.import_module(modname)

    if a.replay:
        return replay(mod, a.replay, a.tier, seed)

    roots = list(mod.roots(a.tier, seed))
    n_roots = len(roots)
    # VERIF_SEED rotates the exploration order only; the set is unchanged.
    if n_roots:
        r = seed % n_roots
        roots = roots[r:] + roots[:r]
    _warm(mod, a.tier)
    jobs = max(1, min(a.jobs, n_roots, getattr(mod, "MAX_JOBS", 16)))
    ctx = Ctx(prop, a.tier, seed)
    if jobs == 1:
        ctx.merge(_worker((modname, a.tier, seed, roots)))
    else:
        import multiprocessing as mp
        mpctx = mp.get_context("fork")
        # many small chunks, round-robin, so that expensive roots spread out.
        nchunks = min(n_roots, jobs * 8)
        chunks = [roots[i::nchunks] for i in range(nchunks)]
        with mpctx.Pool(jobs) as pool:
            for p in pool.imap_unordered(_worker, [(modname, a.tier, seed, c) for c in chunks]):
                ctx.merge(p)
    if hasattr(mod, "finalize"):
        mod.finalize(ctx, a.tier)
    wall = time.time() - t0

    # ---- verdict --------------------------------------------------------
    findings = load_findings()
    known = {k["key"]: k for k in findings.get("known", []) if k.get("property") == prop}
    unlisted = [v for v in ctx.violations if v["key"] not in known]
    listed_keys = sorted({k for k in ctx.violation_counts if k in known})
    for k in listed_keys:
        print(f"KNOWN-FINDING: property={prop} {known[k]['what']} "
              f"[key={k}; {ctx.violation_counts[k]} occurrence(s) in this run]")
    n_unlisted = sum(c for k, c in ctx.violation_counts.items() if k not in known)
    rdir = os.path.join(VERIF, "replays", prop)
    if os.environ.get("HVMC_KEEP_REPLAYS") != "1":
        import shutil
        shutil.rmtree(rdir, ignore_errors=True)     # replays of earlier runs would only confuse
    for v in unlisted:
        os.makedirs(rdir, exist_ok=True)
        body = dict(property=prop, check=modname, tier=a.tier, **v)
        path = os.path.join(rdir, digest(body) + ".json")
        with open(path, "w") as f:
            json.dump(body, f, indent=1)
        print(f"VIOLATION property={prop} replay={path}")
        print(f"  key={v['key']}  {v['explanation']}")

    if not a.no_evidence:
        write_evidence(mod, ctx, prop, a.tier, seed, wall, n_roots, n_unlisted,
                       {k: ctx.violation_counts[k] for k in listed_keys})
    c = ctx.counters
    print(f"{prop} tier={a.tier} seed={seed} roots={n_roots} states={c.get('states', 0)} "
          f"transitions={c.get('transitions', 0)} validated={c.get('validated', 0)} "
          f"distinct_outcomes={len(ctx.outcomes)} violations={n_unlisted} "
          f"known={sum(ctx.violation_counts[k] for k in listed_keys)} wall={wall:.1f}s")
    return 1 if n_unlisted else 0


def write_evidence(mod, ctx, prop, tier, seed, wall, n_roots, n_unlisted, known_counts):
    import jsonschema
    from hvmc.engine.core import jsonable
    desc = mod.describe(tier)
    c = dict(ctx.counters)
    coverage = dict(
        states=int(c.get("states", 0)),
        transitions=int(c.get("transitions", 0)),
        traces_validated_against_impl=int(c.get("validated", 0)),
        samples=ctx.samples if ctx.samples else [{"note": "no sample recorded"}],
        evaluations=int(c.get("transitions", 0)),
        distinct_nontrivial=len(ctx.nontrivial),
        distinct_outcomes=len(ctx.outcomes),
        rule=desc["rule"],
        exhaustive=bool(desc.get("exhaustive", True)) and not c.get("caps_hit", 0),
        bounds=desc.get("bounds", {}),
        roots=n_roots,
        counters=jsonable(c),
        notes=jsonable(ctx.notes),
        known_findings_seen=known_counts,
    )
    ev = dict(property_id=prop, tier=tier, seed=seed, level="model_checking",
              coverage=coverage, assumptions=desc.get("assumptions", []),
              wall_s=round(wall, 2), violations=int(n_unlisted))
    with open("/root/.vp/EVIDENCE.schema.json") as f:
        schema = json.load(f)
    jsonschema.validate(ev, schema)
    os.makedirs(os.path.join(VERIF, "evidence"), exist_ok=True)
    with open(os.path.join(VERIF, "evidence", prop + ".json"), "w") as f:
        json.dump(ev, f, indent=1, sort_keys=True)
        f.write("\n")


def replay(mod, path, tier, seed):
    """Re-execute one recorded counterexample on the current tree."""
    from hvmc.engine.core import Ctx
    with open(path) as f:
        rec = json.load(f)
    ctx = Ctx(mod.PROPERTY, rec.get("tier", tier), seed)
    _warm(mod, rec.get("tier", tier))
    if hasattr(mod, "replay"):
        mod.replay(rec, ctx)
    else:
        mod.run_root(rec["root"], ctx, rec.get("tier", tier))
    same = [v for v in ctx.violations if v["key"] == rec["key"]]
    print(f"replay of {path}: key={rec['key']}")
    print("  recorded explanation:", rec.get("explanation"))
    if same:
        v = same[0]
        print("  STILL FAILS on the current tree")
        print("  detail  :", json.dumps(v["detail"])[:1500])
        print("  expected:", json.dumps(v["expected"])[:1500])
        print("  observed:", json.dumps(v["observed"])[:1500])
        print(f"VIOLATION property={mod.PROPERTY} replay={path}")
        return 1
    print("  does not fail on the current tree "
          f"({ctx.violation_counts and dict(ctx.violation_counts) or 'no violation at all'})")
    return 0


if __name__ == "__main__":
    sys.exit(main())
