"""E2 - bounded-exhaustive enumeration of configuration spaces.

A *space* is an ordered dict  dimension -> list of values  whose first value
is the default.  ``deviations(space, k)`` yields every case that differs from
the all-default case in at most k dimensions (k=None: the full product),
simplest first (fewest deviations first, and within a dimension in the order
the values are listed).  Either way the yielded set is a completely enumerated
finite space; its size is returned by ``size(space, k)`` so that the evidence
can state that the run covered all of it.
"""
import itertools
import math


def deviations(space, k=None):
    dims = list(space.keys())
    if k is None or k >= len(dims):
        # full product, ordered by number of deviations so that the first
        # counterexample is the simplest.
        idx_lists = [range(len(space[d])) for d in dims]
        cases = sorted(itertools.product(*idx_lists),
                       key=lambda t: (sum(1 for i in t if i), t))
        for t in cases:
            yield {d: space[d][i] for d, i in zip(dims, t)}
        return
    for ndev in range(0, k + 1):
        for which in itertools.combinations(range(len(dims)), ndev):
            alts = [range(1, len(space[dims[w]])) for w in which]
            for choice in itertools.product(*alts):
                case = {d: space[d][0] for d in dims}
                for w, c in zip(which, choice):
                    case[dims[w]] = space[dims[w]][c]
                yield case


def size(space, k=None):
    dims = list(space.keys())
    if k is None or k >= len(dims):
        return math.prod(len(space[d]) for d in dims)
    total = 0
    for ndev in range(0, k + 1):
        for which in itertools.combinations(range(len(dims)), ndev):
            total += math.prod(len(space[dims[w]]) - 1 for w in which)
    return total
