"""E1 - explicit-state breadth-first search over histories of real objects.

A *system* is any object with the methods

    initial(root)            -> fresh real object(s) for the root case
    menu(obj)                -> finite ordered list of operations (jsonable)
    apply(obj, op)           -> calls the real API; returns the outcome
                                (value, or ('raised', ExcName))
    canon(obj)               -> hashable canonical state
    observe(obj)             -> hashable observation vector (every observable
                                the property talks about); may be None
    invariant(obj, hist, ctx, root) -> None (reports through ctx.violation)

Optional: model_initial(root), model_step(mstate, op, outcome) -> mstate,
model_canon(mstate) which must equal canon(obj) after every transition;
clone(obj) to copy a live object instead of replaying its history.

States are identified by canon(); the frontier stores histories and a state
is rebuilt by replaying its history on a fresh object (or cloned if the
system says cloning is exact).  When a history arrives at a canonical state
seen before, its observation vector is compared with the one stored for the
first arrival: two histories merged by canon() must be indistinguishable.
"""
import collections


def build(system, root, hist, touch=False):
    obj = system.initial(root)
    if touch:
        system.observe(obj)
    for op in hist:
        system.apply(obj, op)
        if touch:
            system.observe(obj)
    return obj


def bfs(system, root, depth, ctx, key_prefix, check_determinism=False, touch=False):
    """Explore every history of at most ``depth`` operations from ``root``.

    ``touch=True`` makes every history read the observables after every operation
    (op, look, op, look ...), the way a user inspects statistics between steps;
    without it a rebuilt object is only looked at in its final state, and state that
    is computed lazily at query time (caches) would never be exercised mid-history.
    """
    obj0 = system.initial(root)
    if touch:
        system.observe(obj0)
    c0 = system.canon(obj0)
    seen = {c0: (system.observe(obj0), ())}
    ctx.count("states")
    system.invariant(obj0, (), ctx, root)
    ctx.count("states_judged")
    has_model = hasattr(system, "model_initial")
    mstates = {(): system.model_initial(root)} if has_model else None
    if has_model and system.model_canon(mstates[()]) != c0:
        ctx.violation(key_prefix + ":model-initial", root, detail=dict(hist=[]),
                      expected=system.model_canon(mstates[()]), observed=c0,
                      explanation="reference model disagrees in the initial state")
    use_clone = hasattr(system, "clone")
    frontier = collections.deque([((), obj0 if use_clone else None)])
    max_depth = 0
    while frontier:
        hist, parent = frontier.popleft()
        if len(hist) >= depth:
            continue
        if parent is None:
            parent = build(system, root, hist, touch)
        for op in system.menu(parent):
            obj = system.clone(parent) if use_clone else build(system, root, hist, touch)
            outcome = system.apply(obj, op)
            nh = hist + (op,)
            ctx.count("transitions")
            max_depth = max(max_depth, len(nh))
            c = system.canon(obj)
            if has_model:
                ms = system.model_step(mstates[hist], op, outcome)
                mc = system.model_canon(ms)
                ctx.count("model_steps_compared")
                if mc != c:
                    ctx.violation(key_prefix + ":model-step", root,
                                  detail=dict(hist=list(nh)), expected=mc, observed=c,
                                  explanation="reference model and implementation "
                                              "disagree after this history")
            if check_determinism:
                obj2 = build(system, root, nh, touch)
                ctx.count("determinism_replays")
                if system.canon(obj2) != c or system.observe(obj2) != system.observe(obj):
                    ctx.violation(key_prefix + ":nondeterministic", root,
                                  detail=dict(hist=list(nh)),
                                  explanation="replaying the same history gave a "
                                              "different state")
            if c in seen:
                ctx.count("duplicate_arrivals_checked")
                ob = system.observe(obj)
                if ob != seen[c][0]:
                    ctx.violation(key_prefix + ":history-dependent-observation", root,
                                  detail=dict(hist=list(nh), first_hist=list(seen[c][1])),
                                  expected=seen[c][0], observed=ob,
                                  explanation="two histories reach the same canonical "
                                              "state but are observably different")
                continue
            seen[c] = (system.observe(obj), nh)
            ctx.count("states")
            system.invariant(obj, nh, ctx, root)
            ctx.count("states_judged")
            if has_model:
                mstates[nh] = ms
            frontier.append((nh, obj if use_clone else None))
    ctx.notes["max_depth_completed"] = max(ctx.notes.get("max_depth_completed", 0),
                                           max_depth)
    return seen
