"""Reference computations in processes that carry no history.

A differential oracle ("the same call on pristine objects") that runs in the
same interpreter as the judged call shares every piece of process-global state
with it: a module-level memo with an incomplete key makes both wrong in the
same way.  `PristineServer` removes that blind spot.  It is forked from the
harness parent in `warm()`, i.e. before any root has been explored, and never
executes library code itself; for every request it forks a fresh child, runs
`handler(request)` there and returns the pickled answer.  Every answer is
therefore computed in a process whose hvsrpy module state is exactly the state
right after import.

The workers of the runner are forked after `warm()` and reach the server through
a Unix-domain socket whose path they inherit.
"""
import os
import pickle
import signal
import socket
import struct
import tempfile
import traceback


def _send(conn, obj):
    data = pickle.dumps(obj, protocol=pickle.HIGHEST_PROTOCOL)
    conn.sendall(struct.pack("<Q", len(data)) + data)


def _recv(conn):
    hdr = b""
    while len(hdr) < 8:
        b = conn.recv(8 - len(hdr))
        if not b:
            raise EOFError
        hdr += b
    (n,) = struct.unpack("<Q", hdr)
    buf = bytearray()
    while len(buf) < n:
        b = conn.recv(min(1 << 20, n - len(buf)))
        if not b:
            raise EOFError
        buf += b
    return pickle.loads(bytes(buf))


class PristineServer:
    def __init__(self, handler, preload=None):
        self.handler = handler
        self.preload = preload
        self.path = None
        self.pid = None

    def start(self):
        d = tempfile.mkdtemp(prefix="pristine-")
        self.path = os.path.join(d, "sock")
        srv = socket.socket(socket.AF_UNIX, socket.SOCK_STREAM)
        srv.bind(self.path)
        srv.listen(64)
        parent = os.getpid()
        pid = os.fork()
        if pid:
            srv.close()
            self.pid = pid
            return self
        # ---- server process: never runs the handler itself ----------------
        try:
            signal.signal(signal.SIGCHLD, signal.SIG_IGN)       # children are reaped automatically
            if self.preload is not None:
                self.preload()
            srv.settimeout(1.0)
            while True:
                if os.getppid() != parent:                     # the harness is gone
                    break
                try:
                    conn, _ = srv.accept()
                except socket.timeout:
                    continue
                cpid = os.fork()
                if cpid == 0:
                    try:
                        srv.close()
                        req = _recv(conn)
                        if req == "__stop__":
                            _send(conn, "bye")
                            os._exit(7)
                        try:
                            ans = ("ok", self.handler(req))
                        except BaseException:       # noqa: BLE001
                            ans = ("error", traceback.format_exc()[-3000:])
                        _send(conn, ans)
                    finally:
                        os._exit(0)
                conn.close()
        finally:
            try:
                os.unlink(self.path)
                os.rmdir(os.path.dirname(self.path))
            except OSError:
                pass
            os._exit(0)

    def request(self, req):
        conn = socket.socket(socket.AF_UNIX, socket.SOCK_STREAM)
        conn.connect(self.path)
        try:
            _send(conn, req)
            status, ans = _recv(conn)
        finally:
            conn.close()
        if status != "ok":
            raise RuntimeError("pristine reference failed:\n" + ans)
        return ans

    def stop(self):
        if self.pid:
            try:
                os.kill(self.pid, signal.SIGTERM)
                os.waitpid(self.pid, 0)
            except (OSError, ChildProcessError):
                pass
            try:
                os.unlink(self.path)
                os.rmdir(os.path.dirname(self.path))
            except OSError:
                pass
            self.pid = None


def preload_numba_kernels():
    """Load the compiled smoothing kernels (pure functions) so that children do not pay for it."""
    import numpy as np
    from hvsrpy.smoothing import SMOOTHING_OPERATORS
    f = np.fft.rfftfreq(16, 0.01)
    for name, op in SMOOTHING_OPERATORS.items():
        bw = 5 if name == "savitzky_and_golay" else 1.0
        for rows in (1, 2):
            op(f, np.ones((rows, len(f))), np.array([5.0, 10.0]), bw)
