"""Shared bookkeeping for every check: counters, violations, samples, outcomes.

A ``Ctx`` is created per worker process and merged by the runner.  All numbers
that end up in an evidence file are counters incremented here by the engines
and the checks; nothing is a constant.
"""
import collections
import hashlib
import json
import math

import numpy as np

MAX_VIOLATIONS_KEPT_PER_KEY = 3
MAX_SAMPLES = 6


def jsonable(x):
    """Best-effort conversion of a value to something json.dumps accepts."""
    if isinstance(x, dict):
        return {str(k): jsonable(v) for k, v in x.items()}
    if isinstance(x, (list, tuple, set, frozenset)):
        return [jsonable(v) for v in x]
    if isinstance(x, np.ndarray):
        return jsonable(x.tolist())
    if isinstance(x, (np.bool_,)):
        return bool(x)
    if isinstance(x, (np.integer,)):
        return int(x)
    if isinstance(x, (np.floating, float)):
        x = float(x)
        if math.isnan(x):
            return "nan"
        if math.isinf(x):
            return "inf" if x > 0 else "-inf"
        return x
    if isinstance(x, complex):
        return [x.real, x.imag]
    if isinstance(x, (str, int, bool)) or x is None:
        return x
    if isinstance(x, bytes):
        return x.hex()
    return repr(x)


def digest(x):
    """Stable short digest of a jsonable value (after conversion)."""
    s = json.dumps(jsonable(x), sort_keys=True, separators=(",", ":"))
    return hashlib.sha256(s.encode()).hexdigest()[:16]


def arr_digest(*arrays):
    h = hashlib.sha256()
    for a in arrays:
        a = np.ascontiguousarray(np.asarray(a))
        h.update(str(a.dtype).encode())
        h.update(str(a.shape).encode())
        h.update(a.tobytes())
    return h.hexdigest()[:16]


class Ctx:
    def __init__(self, prop, tier, seed):
        self.prop = prop
        self.tier = tier
        self.seed = seed
        self.counters = collections.Counter()
        self.violations = []            # kept (bounded per key)
        self.violation_counts = collections.Counter()   # key -> total
        self.samples = []
        self.outcomes = set()
        self.nontrivial = set()
        self.notes = {}

    # ---- counters -----------------------------------------------------
    def count(self, name, n=1):
        self.counters[name] += n

    def outcome(self, x):
        """Record an observed outcome (for distinct-outcome / vacuity stats)."""
        self.outcomes.add(x if isinstance(x, str) else digest(x))

    def nontrivial_case(self, x):
        """Record a distinct non-trivial case (by the check's stated rule)."""
        self.nontrivial.add(x if isinstance(x, str) else digest(x))

    def sample(self, x):
        if len(self.samples) < MAX_SAMPLES:
            self.samples.append(jsonable(x))

    # ---- violations ---------------------------------------------------
    def violation(self, key, root, detail=None, expected=None, observed=None,
                  explanation=""):
        """Report that the property failed on (root, detail).

        ``key`` names the failing call site and input class; it is what
        known_findings.json entries are matched against.
        """
        self.violation_counts[key] += 1
        kept = sum(1 for v in self.violations if v["key"] == key)
        if kept < MAX_VIOLATIONS_KEPT_PER_KEY:
            self.violations.append(dict(key=key,
                                        root=jsonable(root),
                                        detail=jsonable(detail),
                                        expected=jsonable(expected),
                                        observed=jsonable(observed),
                                        explanation=explanation))

    # ---- merge --------------------------------------------------------
    def payload(self):
        return dict(counters=dict(self.counters),
                    violations=self.violations,
                    violation_counts=dict(self.violation_counts),
                    samples=self.samples,
                    outcomes=self.outcomes,
                    nontrivial=self.nontrivial,
                    notes=self.notes)

    def merge(self, p):
        self.counters.update(p["counters"])
        for v in p["violations"]:
            kept = sum(1 for w in self.violations if w["key"] == v["key"])
            if kept < MAX_VIOLATIONS_KEPT_PER_KEY:
                self.violations.append(v)
        self.violation_counts.update(p["violation_counts"])
        for s in p["samples"]:
            if len(self.samples) < MAX_SAMPLES:
                self.samples.append(s)
        self.outcomes |= p["outcomes"]
        self.nontrivial |= p["nontrivial"]
        for k, v in p["notes"].items():
            if isinstance(v, (int, float)) and isinstance(self.notes.get(k), (int, float)):
                self.notes[k] = max(self.notes[k], v)
            else:
                self.notes.setdefault(k, v)


# ---- numeric comparison helpers -------------------------------------------

def close(a, b, rtol=1e-9, atol=0.0, equal_nan=True):
    a = np.asarray(a, dtype=float)
    b = np.asarray(b, dtype=float)
    if a.shape != b.shape:
        return False
    return bool(np.allclose(a, b, rtol=rtol, atol=atol, equal_nan=equal_nan))


def bitwise_equal(a, b):
    a = np.asarray(a)
    b = np.asarray(b)
    if a.shape != b.shape or a.dtype != b.dtype:
        return False
    return a.tobytes() == b.tobytes()


def same_float(a, b):
    """Bitwise-equal floats, NaN == NaN."""
    a = float(a)
    b = float(b)
    if math.isnan(a) and math.isnan(b):
        return True
    return a == b
