"""E3 - a virtual multiprocessing.Pool whose schedule the explorer owns.

`VirtualPool` replaces `multiprocessing.Pool` where hvsrpy.cli uses it
(`with Pool(k) as p: p.starmap(f, iterable, chunksize=c)`).  It

* splits the task list with CPython's own `Pool._get_tasks` and runs every
  chunk with CPython's own `starmapstar`, so chunking is not re-implemented;
* pickles every chunk exactly once with `ForkingPickler.dumps` (objects
  repeated inside a chunk stay shared, different chunks get fresh copies -
  exactly as in the real pool, where each task is sent separately);
* owns `k` real forked worker processes (os.fork), each running a
  `recv chunk -> run -> ack` loop, so module-level state is per worker;
* asks `VirtualPool.assignment` which worker takes which chunk.  A worker
  executes its chunks in increasing chunk index (the pool's input queue is
  FIFO); chunks are executed one at a time so that files created in the
  working directory can be attributed to a (chunk, worker) pair.

Schedule space: the functions chunk -> worker, up to renaming of workers,
i.e. restricted-growth strings with at most k distinct values.
"""
import itertools
import os
import pickle
import struct
import sys
import traceback
from multiprocessing.pool import Pool as _RealPool, starmapstar
from multiprocessing.reduction import ForkingPickler


class ProbeDone(Exception):
    """Raised inside starmap in probe mode after the chunks were recorded."""


def restricted_growth_strings(n, k):
    """All assignments of n chunks to at most k interchangeable workers."""
    def rec(prefix, used):
        if len(prefix) == n:
            yield tuple(prefix)
            return
        for w in range(min(used + 1, k)):
            yield from rec(prefix + [w], max(used, w + 1))
    if n == 0:
        yield ()
        return
    yield from rec([], 0)


def _send(fd, payload):
    os.write(fd, struct.pack("<Q", len(payload)))
    view = memoryview(payload)
    while view:
        n = os.write(fd, view[:1 << 20])
        view = view[n:]


def _recv(fd):
    hdr = b""
    while len(hdr) < 8:
        b = os.read(fd, 8 - len(hdr))
        if not b:
            return None
        hdr += b
    (n,) = struct.unpack("<Q", hdr)
    chunks = []
    while n:
        b = os.read(fd, min(n, 1 << 20))
        if not b:
            return None
        chunks.append(b)
        n -= len(b)
    return b"".join(chunks)


def _worker_loop(rfd, wfd):
    devnull = os.open(os.devnull, os.O_WRONLY)
    os.dup2(devnull, 1)
    sys.stdout = os.fdopen(1, "w", closefd=False)
    while True:
        payload = _recv(rfd)
        if payload is None or payload == b"":
            break
        try:
            func, args = pickle.loads(payload)
            func(*args)
            sys.stdout.flush()
            _send(wfd, b"ok")
        except BaseException:       # noqa: BLE001 - reported to the parent
            _send(wfd, b"ER" + traceback.format_exc()[-4000:].encode())
    os._exit(0)


class VirtualPool:
    # ---- set by the explorer before the CLI is invoked --------------------
    mode = "run"            # "probe" | "run"
    assignment = None       # tuple: chunk index -> worker index
    on_chunk_done = None    # callback(chunk_index, worker_index)
    # ---- filled in for the explorer ---------------------------------------
    last = None             # dict(processes, chunks=[[args...]...], chunksize)

    def __init__(self, processes=None, *a, **kw):
        if processes is None:
            processes = os.cpu_count() or 1
        if processes < 1:
            raise ValueError("Number of processes must be at least 1")
        self.processes = processes
        self.workers = []
        if VirtualPool.mode == "run":
            for _ in range(processes):
                p2c_r, p2c_w = os.pipe()
                c2p_r, c2p_w = os.pipe()
                pid = os.fork()
                if pid == 0:
                    os.close(p2c_w)
                    os.close(c2p_r)
                    for (_, w, r) in self.workers:
                        os.close(w)
                        os.close(r)
                    try:
                        _worker_loop(p2c_r, c2p_w)
                    finally:
                        os._exit(1)
                os.close(p2c_r)
                os.close(c2p_w)
                self.workers.append((pid, p2c_w, c2p_r))

    def __enter__(self):
        return self

    def __exit__(self, *exc):
        self.terminate()
        return False

    def terminate(self):
        for pid, w, r in self.workers:
            try:
                os.close(w)
            except OSError:
                pass
        for pid, w, r in self.workers:
            try:
                os.waitpid(pid, 0)
            except ChildProcessError:
                pass
            try:
                os.close(r)
            except OSError:
                pass
        self.workers = []

    close = terminate

    def join(self):
        pass

    def starmap(self, func, iterable, chunksize=None):
        iterable = list(iterable)
        if chunksize is None:       # CPython's default
            chunksize, extra = divmod(len(iterable), self.processes * 4)
            if extra:
                chunksize += 1
        if len(iterable) == 0:
            chunksize = 0
        batches = list(_RealPool._get_tasks(func, iterable, chunksize)) if chunksize else []
        VirtualPool.last = dict(processes=self.processes, chunksize=chunksize,
                                chunks=[list(b[1]) for b in batches])
        if VirtualPool.mode == "probe":
            raise ProbeDone()
        payloads = [bytes(ForkingPickler.dumps((starmapstar, (b,)))) for b in batches]
        assignment = VirtualPool.assignment
        if assignment is None:
            assignment = tuple(i % self.processes for i in range(len(batches)))
        if len(assignment) != len(batches) or (assignment and max(assignment) >= self.processes):
            raise RuntimeError(f"assignment {assignment} does not fit {len(batches)} chunks on "
                               f"{self.processes} workers")
        for ci, (payload, w) in enumerate(zip(payloads, assignment)):
            pid, wfd, rfd = self.workers[w]
            _send(wfd, payload)
            ack = _recv(rfd)
            if ack is None:
                raise RuntimeError(f"worker {w} died while running chunk {ci}")
            if ack != b"ok":
                raise RuntimeError("worker raised:\n" + ack[2:].decode(errors="replace"))
            if VirtualPool.on_chunk_done is not None:
                VirtualPool.on_chunk_done(ci, w)
        return [None] * len(iterable)
