"""C06 - frequency-domain window rejection follows Cox et al. (2020) and terminates.

E1: BFS over histories of manual rejections, range updates and
frequency_domain_window_rejection calls on real HvsrTraditional / HvsrAzimuthal
objects.  Every rejection *transition* is judged: the reference loop
(ref/fdwr.py) is stepped alongside and compared with the returned count, the
final masks and - iteration by iteration - the DEBUG trace the implementation
logs; plus monotonicity, permutation and rescaling invariance.
"""
import copy
import itertools
import logging
import math
import re

import numpy as np

import hvsrpy
from hvsrpy.hvsr_curve import HvsrCurve
from hvsrpy.hvsr_traditional import HvsrTraditional
from hvsrpy.hvsr_azimuthal import HvsrAzimuthal

from hvmc import alphabets as A
from hvmc.engine import explorer
from hvmc.engine.core import close
from hvmc.ref import fdwr as RF
from hvmc.ref import peaks as RP

PROPERTY = "C06"


# ---------------------------------------------------------------------------
# capture of the implementation's per-iteration DEBUG trace

class _Capture(logging.Handler):
    def __init__(self):
        super().__init__(level=logging.DEBUG)
        self.msgs = []

    def emit(self, record):
        self.msgs.append(record.getMessage())


_NUM = r"([-+0-9.eE]+|nan|inf)"


def parse_trace(msgs):
    """-> list of iterations: dict(iteration, vw_before, vp_before, mean_fn_before, ...)"""
    its = []
    cur = None
    for m in msgs:
        m = m.strip()
        if m.startswith("c_iteration:"):
            cur = dict(iteration=int(m.split(":")[1]))
            its.append(cur)
        elif cur is None:
            continue
        elif m.startswith("valid_window_boolean_mask:"):
            cur["vw_before"] = ["True" in t for t in re.findall(r"True|False", m)]
        elif m.startswith("valid_peak_boolean_mask:"):
            cur["vp_before"] = ["True" in t for t in re.findall(r"True|False", m)]
        else:
            k, _, v = m.partition(":")
            k = k.strip()
            if k in ("mean_fn_before", "std_fn_before", "mc_peak_frq_before", "mean_fn_after",
                     "std_fn_after", "mc_peak_frq_after", "d_diff", "s_diff"):
                try:
                    cur[k] = float(v)
                except ValueError:
                    cur[k] = float("nan")
    return its


# ---------------------------------------------------------------------------

def _mc_peak_fn(freq, rng, kw):
    """Peak of a (reference) mean curve in the range, with a knife-edge flag
    when the two highest candidate maxima are nearly tied."""
    def fn(mc):
        c = HvsrCurve(freq, mc)
        c.update_peaks_bounded(search_range_in_hz=rng, find_peaks_kwargs=kw)
        pf = float(c.peak_frequency)
        if math.isnan(pf):
            return None, False
        # knife-edge: another sample (a second peak, or the neighbour on a
        # nearly flat top) is within rounding of the reported maximum.
        v = float(c.peak_amplitude)
        knife = sum(1 for a in mc if abs(a - v) <= 1e-9 * abs(v)) >= 2
        return pf, knife
    return fn


def _peaks(freq, curves, rng, kw):
    out = []
    for y in curves:
        c = HvsrCurve(freq, y)
        c.update_peaks_bounded(search_range_in_hz=rng, find_peaks_kwargs=kw)
        out.append(float(c.peak_frequency))
    return out


def _masks(t):
    return (np.asarray(t.valid_window_boolean_mask, dtype=bool).tolist(),
            np.asarray(t.valid_peak_boolean_mask, dtype=bool).tolist())


def _range_arg(obj, op):
    """The range as the caller passes it: a fresh tuple, or - ``shared`` - ONE list that the caller keeps, edits
    in place and passes again (the list lives on the object so that cloning a state keeps the caller's list and
    the object's view of it together).  A list never compares equal to the stored tuple, so the peak search on
    entry is always carried out for it: the simulation of that entry search must be given the same argument."""
    if not op.get("shared"):
        return tuple(op["rng"])
    if not hasattr(obj, "_hvmc_callers_list"):
        obj._hvmc_callers_list = [None, None]
    obj._hvmc_callers_list[0], obj._hvmc_callers_list[1] = op["rng"]
    return obj._hvmc_callers_list


def _run_impl(obj, op):
    """Call the real function, capturing result/exception and DEBUG trace."""
    lg = logging.getLogger("hvsrpy.window_rejection")
    cap = _Capture()
    old = lg.level
    lg.addHandler(cap)
    lg.setLevel(logging.DEBUG)
    old_prop = lg.propagate
    lg.propagate = False
    try:
        rng_arg = _range_arg(obj, op)
        with np.errstate(all="ignore"):
            ret = hvsrpy.frequency_domain_window_rejection(
                obj, n=op["n"], max_iterations=op["maxit"], distribution_fn=op["dfn"],
                distribution_mc=op["dmc"], search_range_in_hz=rng_arg,
                find_peaks_kwargs=op.get("kw"))
        exc = None
    except Exception as e:      # noqa: BLE001
        ret, exc = None, e
    finally:
        lg.removeHandler(cap)
        lg.setLevel(old)
        lg.propagate = old_prop
    return ret, exc, cap.msgs


class System:
    def __init__(self, root, ctx):
        self.root = root
        self.ctx = ctx
        F = root["F"]
        self.freq = A.GRIDS[root["grid"]](F)
        if root["kind"] == "trad":
            self.csets = [A.curve_set(root["shapes"], F)]
        else:
            self.csets = [A.curve_set(s, F) for s in root["shapes_by_az"]]
        self.W = len(self.csets[0])
        f = self.freq
        ranges = [(None, None), (f[1], f[F - 2]), (None, f[F - 3]), (f[2], None)][:root["n_ranges"]]
        ops = []
        for n, maxit, dfn, dmc, r in itertools.product(root["ns"], root["maxits"],
                                                       ("lognormal", "normal"), ("lognormal", "normal"),
                                                       ranges):
            ops.append(dict(op="F", n=n, maxit=maxit, dfn=dfn, dmc=dmc, rng=list(r)))
            if dfn == dmc and maxit == max(root["maxits"]):
                # same range and the same non-None kwargs as stored: the entry peak search takes the
                # early return of update_peaks_bounded and rejections made BEFORE the call persist
                ops.append(dict(op="F", n=n, maxit=maxit, dfn=dfn, dmc=dmc, rng=list(r), kw={}))
        for r in [(None, None), (f[1], f[F - 2]), (None, f[F - 3]), (f[2], None)]:
            ops.append(dict(op="F", n=root["ns"][0], maxit=max(root["maxits"]), dfn="lognormal", dmc="lognormal",
                            rng=list(r), kw={}, shared=True))
        # the registered alias spelling of the lognormal distribution, for either argument
        for n, (dfn, dmc) in itertools.product(root["ns"], (("log-normal", "log-normal"), ("log-normal", "normal"),
                                                           ("normal", "log-normal"))):
            ops.append(dict(op="F", n=n, maxit=max(root["maxits"]), dfn=dfn, dmc=dmc, rng=list(ranges[0])))
        for a in range(len(self.csets)):
            for i in range(self.W):
                ops.append(dict(op="M", az=a, i=i))
        for r in ranges[:3]:
            ops.append(dict(op="U", rng=list(r)))
        # a range update whose peak options scipy refuses (it raises): what follows must not see it
        for r in [(f[1], f[F - 2]), (None, f[F - 3]), (f[2], None)]:
            ops.append(dict(op="Ubad", rng=list(r)))
        self.ops = ops
        self.hist = ()

    # ---- E1 interface -----------------------------------------------------
    def initial(self, root):
        return self._make(self.csets)

    def _make(self, csets):
        if self.root["kind"] == "trad":
            return HvsrTraditional(self.freq, csets[0])
        hs = [HvsrTraditional(self.freq, c) for c in csets]
        return HvsrAzimuthal(hs, [0.0, 90.0, 45.0][:len(hs)])

    def clone(self, o):
        return copy.deepcopy(o)

    def menu(self, o):
        return self.ops

    def _trads(self, o):
        return [o] if isinstance(o, HvsrTraditional) else list(o.hvsrs)

    def apply(self, o, op):
        if op["op"] == "M":
            t = self._trads(o)[op["az"]]
            t.valid_window_boolean_mask[op["i"]] = False
            t.valid_peak_boolean_mask[op["i"]] = False
            return None
        if op["op"] == "U":
            o.update_peaks_bounded(search_range_in_hz=tuple(op["rng"]))
            return None
        if op["op"] == "Ubad":
            try:
                o.update_peaks_bounded(search_range_in_hz=tuple(op["rng"]), find_peaks_kwargs={"distance": 0})
            except ValueError:
                return ("raised", "ValueError")
            return None
        return self._judge_F(o, op)

    def canon(self, o):
        ts = self._trads(o)
        # (whether the caller still holds a list it passed as the range is part of the state: states that differ
        #  in it must not be merged, an object that kept the caller's list has other futures)
        return (hasattr(o, "_hvmc_callers_list"),) + tuple((tuple(_masks(t)[0]), tuple(_masks(t)[1]),
                      tuple(None if v is None else float(v) for v in t._search_range_in_hz),
                      tuple("nan" if math.isnan(v) else float(v) for v in t._main_peak_frq))
                     for t in ts)

    def observe(self, o):
        return None

    def invariant(self, o, hist, ctx, root):
        return

    # ---- judging one rejection call -------------------------------------------
    def _judge_F(self, o, op):
        ctx, root = self.ctx, self.root
        ctx.count("fdwr_calls")
        rng = tuple(op["rng"])
        before = copy.deepcopy(o)
        # accept state right after the peak search performed on entry
        entry = copy.deepcopy(o)
        entry.update_peaks_bounded(search_range_in_hz=_range_arg(entry, op), find_peaks_kwargs=op.get("kw"))
        entry_masks = [_masks(t) for t in self._trads(entry)]
        detail = dict(op=op, masks_before=[_masks(t) for t in self._trads(before)])
        ret, exc, msgs = _run_impl(o, op)
        after_masks = [_masks(t) for t in self._trads(o)]

        # reference, per azimuth
        refs = []
        outdom = False
        knife = False
        for ai, cs in enumerate(self.csets):
            pk = _peaks(self.freq, cs, rng, op.get("kw"))
            vw, vp = entry_masks[ai]
            try:
                r = RF.run(pk, vw, vp, cs, _mc_peak_fn(self.freq, rng, op.get("kw")),
                           op["n"], op["maxit"], op["dfn"], op["dmc"])
                knife = knife or r["knife"]
                refs.append(r)
            except RF.OutOfDomain as e:
                outdom = True
                knife = knife or e.knife
                refs.append(None)
                break       # the implementation stops at the first azimuth that fails, too
        cls = "traditional" if root["kind"] == "trad" else "azimuthal"
        # the peaks the decisions are made on are those of the range of THIS call
        if exc is None:
            for ai, (t, cs) in enumerate(zip(self._trads(o), self.csets)):
                want = ["nan" if math.isnan(v) else v for v in _peaks(self.freq, cs, rng, op.get("kw"))]
                got = ["nan" if math.isnan(v) else float(v) for v in t._main_peak_frq]
                if want != got:
                    ctx.violation(f"C06:{cls}:peaks-not-of-this-range", root,
                                  detail=dict(detail, azimuth=ai), expected=want, observed=got,
                                  explanation="after the call the per-window peaks are not those of the search "
                                              "range given to it: the peak search on entry was not carried out")

        # -- claims that hold regardless of domain / knife-edge -------------
        # (when the call raised, later azimuths never had their entry peak search:
        #  the comparison is then meaningless and the exception is judged below)
        for ai, ((vw_e, vp_e), (vw_a, vp_a)) in enumerate(zip(entry_masks, after_masks)):
            if exc is not None:
                break
            for i in range(self.W):
                if (vw_a[i] and not vw_e[i]) or (vp_a[i] and not vp_e[i]):
                    ctx.violation(f"C06:{cls}:re-accepts-window", root,
                                  detail=dict(detail, azimuth=ai, window=i, entry=[vw_e, vp_e],
                                              after=[vw_a, vp_a]),
                                  explanation="a window rejected right after the entry peak search is "
                                              "accepted when the algorithm returns")
        if exc is None and (not isinstance(ret, (int, np.integer)) or ret > op["maxit"] or ret < 1):
            ctx.violation(f"C06:{cls}:iteration-count-out-of-range", root, detail=detail,
                          expected=f"1..{op['maxit']}", observed=repr(ret),
                          explanation="returned iteration count is not within 1..max_iterations")
        if outdom:
            ctx.count("outside_algorithm_domain")
            return ("outdom", None if exc is None else type(exc).__name__)
        if knife:
            ctx.count("knife_edge")
            return ("knife", None if exc is None else type(exc).__name__)
        ctx.count("validated")
        for r in refs:
            for rec in r["trace"]:
                if "d_diff" in rec:
                    dd, sd = rec["d_diff"] < 0.01, rec["s_diff"] < 0.01
                    ctx.count("stop_test_both" if dd and sd else "stop_test_only_d" if dd else
                              "stop_test_only_s" if sd else "stop_test_neither")
        want_it = max(r["iterations"] for r in refs)
        stops = [r["stop"] for r in refs]
        self.ctx.outcome((want_it, tuple(stops), tuple(tuple(r["vw"]) for r in refs)))
        if exc is not None:
            key = "stops-at-iteration-limit" if "limit" in stops else "in-domain"
            ctx.violation(f"C06:{cls}:raises:{key}", root, detail=detail,
                          expected=dict(iterations=want_it, masks=[[r["vw"], r["vp"]] for r in refs]),
                          observed=f"{type(exc).__name__}: {exc}",
                          explanation="frequency_domain_window_rejection raised although the published "
                                      "algorithm is well defined on this input" +
                                      (" (it stops at max_iterations)" if "limit" in stops else ""))
            return ("raised", type(exc).__name__)
        if ret != want_it:
            ctx.violation(f"C06:{cls}:iteration-count", root, detail=detail, expected=want_it,
                          observed=int(ret), explanation="returned iteration count differs from the "
                                                         "published algorithm")
        for ai, r in enumerate(refs):
            if [r["vw"], r["vp"]] != [after_masks[ai][0], after_masks[ai][1]]:
                ctx.violation(f"C06:{cls}:final-masks", root, detail=dict(detail, azimuth=ai),
                              expected=[r["vw"], r["vp"]], observed=list(after_masks[ai]),
                              explanation="accept/reject decisions differ from the published algorithm")
        # -- per-iteration trace conformance ---------------------------------
        its = parse_trace(msgs)
        ref_its = [rec for r in refs for rec in r["trace"]]
        if len(its) != len(ref_its):
            ctx.violation(f"C06:{cls}:trace-length", root, detail=detail, expected=len(ref_its),
                          observed=len(its), explanation="number of logged iterations differs from the "
                                                         "reference trace")
        else:
            for a, b in zip(its, ref_its):
                ctx.count("trace_iterations_compared")
                bad = None
                if a.get("iteration") != b["iteration"]:
                    bad = "iteration"
                elif a.get("vw_before") != b["vw_before"] or a.get("vp_before") != b["vp_before"]:
                    bad = "masks_before"
                else:
                    for k in ("mean_fn_before", "std_fn_before", "mc_peak_frq_before",
                              "mean_fn_after", "std_fn_after", "mc_peak_frq_after"):
                        if k in b and not close(a.get(k, float("nan")), b[k], rtol=1e-9, atol=1e-12):
                            bad = k
                            break
                if bad:
                    ctx.violation(f"C06:{cls}:trace:{bad}", root, detail=dict(detail, iteration=b["iteration"]),
                                  expected={k: v for k, v in b.items()}, observed=a,
                                  explanation=f"logged per-iteration value '{bad}' differs from the "
                                              f"reference trace")
                    break
        # -- permutation and rescaling invariance (from this same entry state) -
        if root.get("metamorphic", True):
            self._metamorphic(before, op, after_masks, ret, cls, detail)
        return ("ok", int(ret))

    def _metamorphic(self, before, op, after_masks, ret, cls, detail):
        ctx, root = self.ctx, self.root
        W = self.W
        perm = list(range(1, W)) + [0]          # rotation
        perm2 = list(reversed(range(W)))
        for name, p in (("rotate", perm), ("reverse", perm2)):
            o2 = self._permuted(before, p, 1.0)
            r2, e2, _ = _run_impl(o2, op)
            ctx.count("metamorphic_runs")
            m2 = [_masks(t) for t in self._trads(o2)]
            want = [([vw[j] for j in p], [vp[j] for j in p]) for (vw, vp) in after_masks]
            if e2 is not None or r2 != ret or [list(map(list, m)) for m in m2] != [list(map(list, w)) for w in want]:
                ctx.violation(f"C06:{cls}:window-order-dependence", root, detail=dict(detail, permutation=p),
                              expected=dict(iterations=ret, masks=want),
                              observed=dict(iterations=r2, masks=m2, exc=None if e2 is None else repr(e2)),
                              explanation="permuting the windows does not permute the decisions")
        for c in (0.125, 8.0):
            o3 = self._permuted(before, list(range(W)), c)
            r3, e3, _ = _run_impl(o3, op)
            ctx.count("metamorphic_runs")
            m3 = [_masks(t) for t in self._trads(o3)]
            if e3 is not None or r3 != ret or [list(map(list, m)) for m in m3] != [list(map(list, w)) for w in after_masks]:
                ctx.violation(f"C06:{cls}:amplitude-scale-dependence", root, detail=dict(detail, factor=c),
                              expected=dict(iterations=ret, masks=after_masks),
                              observed=dict(iterations=r3, masks=m3, exc=None if e3 is None else repr(e3)),
                              explanation="rescaling all amplitudes changes the decisions")

    def _permuted(self, before, p, c):
        """Object in the same accept state as ``before`` with windows permuted by p
        and amplitudes scaled by c (same stored range, so entry behaviour matches)."""
        tb = self._trads(before)
        csets = [[[v * c for v in cs[j]] for j in p] for cs in self.csets]
        o = self._make(csets)
        rng = tb[0]._search_range_in_hz
        kw = tb[0]._find_peaks_kwargs
        o.update_peaks_bounded(search_range_in_hz=rng, find_peaks_kwargs=kw or None)
        for t, t0 in zip(self._trads(o), tb):
            vw, vp = _masks(t0)
            t.valid_window_boolean_mask = np.array([vw[j] for j in p])
            t.valid_peak_boolean_mask = np.array([vp[j] for j in p])
        return o


# ---------------------------------------------------------------------------

QUICK_SETS = [
    ["p1", "p2", "p2", "p3", "p5"], ["p2", "p3", "p3", "p3", "p4", "p1"], ["p1", "p3", "p5", "p3"],
    ["p2", "p2", "p2", "p5"], ["p3", "p3", "q3", "p4", "p5", "p1"], ["twopk", "p2", "p3", "twopk_r", "p2"],
    ["p2", "p3", "up", "p4", "p2"], ["plateau", "p2", "p3", "p4", "tie"], ["p1", "p5", "p1", "p5"],
    ["p3", "p3", "p3", "p3"], ["p2", "p4", "p2", "p4", "p3", "p3", "p1"], ["p4", "p4", "p5", "p1", "p4"],
]


LOPSIDED = [
    ["p1", "p1", "p2", "p2", "p2", "p3", "p3", "p4", "p5", "p11"],
    ["p1", "p2", "p2", "p3", "p3", "p3", "p4", "p4", "p6", "p10", "p11"],
    ["p2", "p2", "p2", "p3", "p4", "p5", "p7", "p11", "p11"],
    ["p1", "p1", "p1", "p2", "p3", "p5", "p8", "p11"],
    ["p3", "p3", "p4", "p4", "p4", "p5", "p5", "p6", "p9", "p11", "p1"],
]


def roots(tier, seed):
    out = []
    if tier == "quick":
        for s in QUICK_SETS:
            out.append(dict(kind="trad", grid="lin", F=7, shapes=s, depth=2, ns=[0.5, 1, 2],
                            maxits=[1, 2, 50], n_ranges=2))
        for s in QUICK_SETS[:4]:
            out.append(dict(kind="trad", grid="geo", F=7, shapes=s, depth=2, ns=[0.8, 1.5],
                            maxits=[1, 3, 50], n_ranges=3))
        out.append(dict(kind="trad", grid="fine", F=7, shapes=QUICK_SETS[0], depth=2, ns=[0.5, 1, 2],
                        maxits=[1, 2, 50], n_ranges=1))
        out.append(dict(kind="trad", grid="lin", F=9, shapes=["p1", "p3", "p3", "p4", "p4", "p6"], depth=2,
                        ns=[0.5, 1, 2], maxits=[1, 2, 50], n_ranges=1))
        for s in LOPSIDED[:3]:
            out.append(dict(kind="trad", grid="lin", F=13, shapes=s, depth=1, ns=[0.5, 0.8, 1, 1.5],
                            maxits=[1, 3, 50], n_ranges=1, metamorphic=False))
        for a, b in ((QUICK_SETS[0], QUICK_SETS[3]), (QUICK_SETS[2], QUICK_SETS[8]),
                     (QUICK_SETS[9], QUICK_SETS[9])):
            m = min(len(a), len(b))
            out.append(dict(kind="azi", grid="lin", F=7, shapes_by_az=[a[:m], b[:m]], depth=2,
                            ns=[0.5, 1, 2], maxits=[1, 2, 50], n_ranges=2))
        return out
    shapes5 = ["p1", "p2", "p3", "p4", "p5"]
    for combo in itertools.combinations_with_replacement(shapes5, 5):
        out.append(dict(kind="trad", grid="lin", F=7, shapes=list(combo), depth=2,
                        ns=[0.5, 1, 1.5, 2, 3], maxits=[1, 2, 3, 50], n_ranges=2))
    for combo in itertools.combinations_with_replacement(["p1", "p3", "p4", "twopk", "up"], 4):
        out.append(dict(kind="trad", grid="geo", F=7, shapes=list(combo), depth=2,
                        ns=[0.5, 1, 1.5, 2, 3], maxits=[1, 2, 3, 50], n_ranges=4))
    for s in QUICK_SETS:
        out.append(dict(kind="trad", grid="lin", F=7, shapes=s, depth=2,
                        ns=[0.5, 1, 1.5, 2, 3], maxits=[1, 2, 3, 50], n_ranges=4))
        out.append(dict(kind="trad", grid="fine", F=7, shapes=s, depth=2,
                        ns=[0.5, 1, 1.5, 2, 3], maxits=[1, 2, 3, 50], n_ranges=2))
    for combo in itertools.combinations_with_replacement(["p1", "p3", "p4", "p6", "p7"], 6):
        out.append(dict(kind="trad", grid="lin", F=9, shapes=list(combo), depth=1,
                        ns=[0.5, 1, 1.5, 2, 3], maxits=[1, 2, 3, 50], n_ranges=2))
    for s in LOPSIDED:
        for g in ("lin", "geo"):
            out.append(dict(kind="trad", grid=g, F=13, shapes=s, depth=2, ns=[0.5, 0.8, 1, 1.5, 2],
                            maxits=[1, 2, 3, 50], n_ranges=2))
    for a, b in itertools.combinations(QUICK_SETS[:8], 2):
        m = min(len(a), len(b))
        out.append(dict(kind="azi", grid="lin", F=7, shapes_by_az=[a[:m], b[:m]], depth=2,
                        ns=[0.5, 1, 2], maxits=[1, 2, 50], n_ranges=2, metamorphic=True))
    return out


def run_root(root, ctx, tier):
    sysm = System(root, ctx)
    explorer.bfs(sysm, root, root["depth"], ctx, key_prefix="C06")
    ctx.nontrivial_case((root["kind"], root["grid"], root.get("shapes") or root.get("shapes_by_az")))
    if len(ctx.samples) < 3:
        ctx.sample(dict(root=root, ops=len(sysm.ops), example_op=sysm.ops[0]))


def describe(tier):
    return dict(
        rule="roots: curve sets (named shapes, 4-7 windows, F=7, linear and geometric grids) as HvsrTraditional "
             "and 2-azimuth HvsrAzimuthal; BFS depth 2 over {rejection calls for every (n, max_iterations, "
             "distribution_fn, distribution_mc, range) of the root's menu, manual rejection of each window, "
             "range updates, the alias spelling 'log-normal' for either distribution, and rejections driven through ONE "
             "caller-owned range list edited in place between calls (whether the caller holds such a list is part of "
             "the state)}; after every call the per-window peaks must be those of the range of that call; every rejection transition is compared with the reference loop (count, masks, "
             "per-iteration DEBUG trace) unless the reference leaves the algorithm's domain or meets a knife-edge "
             "threshold; non-trivial/distinct = (kind, grid, shapes)",
        bounds=dict(depth=2, n="3 (quick) / 5 (thorough) values", max_iterations="{1,2,50} / {1,2,3,50}"),
        exhaustive=True,
        assumptions=["per-window and mean-curve peaks are taken from HvsrCurve (judged by C08)",
                     "the early return when |mean fn - mean-curve peak| or a standard deviation is exactly zero "
                     "follows the original implementation (the relative change is undefined there)"])


_describe_base = describe


def describe(tier):     # noqa: F811 - the base description plus what later rounds added to the space
    d = _describe_base(tier)
    d["rule"] = d["rule"] + " " + 'The menu also holds range updates whose peak options scipy refuses (they raise).'
    return d
