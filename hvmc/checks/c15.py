"""C15 - settings round-trip through files and are independent of one another.

E1: breadth-first search over histories of {New, Set, Mut, Save, Load, Read,
Proc} applied to up to three live, real settings objects.  A reference model
(`ref/settings_model.py`: a settings object is a plain dict of JSON-normalised
values) is stepped alongside.  Judged

* on every transition: every live object other than the one operated on is
  unchanged (typed, element-by-element snapshot); on `Save(i)` the file is read
  back both directly (`K().load`) and through the type-dispatching reader and
  the reloaded objects have the original's class, content, and give the
  bit-identical result when a fixed tiny recording list is (pre)processed; on
  `Load`/`Read` the same against the object as it was when the file was saved;
* in every state: a freshly constructed object of each of the eight classes
  equals the pristine defaults recorded at import (before anything was mutated),
  and every live object's content equals the model's.

Class defaults are process-global state, so every root is explored in its own
forked child; inside a child the default argument objects are put back before
each transition and a state in which they were corrupted is reported and not
expanded further.
"""
import contextlib
import copy
import json
import os
import pickle
import shutil
import tempfile
import traceback

import numpy as np

import hvsrpy
from hvsrpy import settings as S
from hvsrpy.object_io import write_settings_object_to_file, read_settings_object_from_file
from hvsrpy.timeseries import TimeSeries
from hvsrpy.seismic_recording_3c import SeismicRecording3C

from hvmc.engine import explorer
from hvmc.engine.core import Ctx, arr_digest, digest
from hvmc.ref import settings_model as REF

PROPERTY = "C15"
MAX_JOBS = 16
VERSION = hvsrpy.__version__
CLASSES = list(REF.CLASSES)
CLS = {k: getattr(S, k) for k in CLASSES}
PRE_CLASSES = ("HvsrPreProcessingSettings", "PsdPreProcessingSettings")
MAXOBJ = 3
KEY_DEFAULTS = "C15:constructor:mutable-default-argument:shared-between-objects"

# ---------------------------------------------------------------------------
# snapshots


def typed(v):
    """Hashable element-by-element snapshot that also remembers the container types."""
    if isinstance(v, dict):
        return ("dict", tuple((str(k), typed(x)) for k, x in v.items()))
    if isinstance(v, list):
        return ("list", tuple(typed(x) for x in v))
    if isinstance(v, tuple):
        return ("tuple", tuple(typed(x) for x in v))
    if isinstance(v, np.ndarray):
        if v.dtype.kind in "biuf":
            return ("ndarray", v.dtype.str, v.shape, v.tobytes())
        return ("ndarray", v.dtype.str, v.shape, tuple(typed(x) for x in v.ravel().tolist()))
    if isinstance(v, np.generic):
        return ("npscalar", type(v).__name__, v.item())
    if v is None or isinstance(v, (bool, int, float, str)):
        return ("scalar", type(v).__name__, v)
    return ("object", type(v).__name__)


def untyped(t):
    """Readable (JSON-able) form of a typed snapshot, for counterexample reports."""
    kind = t[0]
    if kind == "dict":
        return {k: untyped(x) for k, x in t[1]}
    if kind in ("list", "tuple"):
        return {"type": kind, "elements": [untyped(x) for x in t[1]]}
    if kind == "ndarray":
        if isinstance(t[3], bytes):
            return {"type": "ndarray " + t[1],
                    "elements": np.frombuffer(t[3], dtype=np.dtype(t[1])).reshape(t[2]).tolist()}
        return {"type": "ndarray " + t[1], "elements": [untyped(x) for x in t[3]]}
    if kind == "object":
        return "<" + t[1] + ">"
    return t[2]


def public_data(o):
    """Every data attribute readable as ``o.<name>``: the instance attributes plus public class-level data
    (not methods, not properties) - whatever a user can read and edit through the object."""
    d = dict(vars(o))
    for klass in type(o).__mro__:
        for name, v in vars(klass).items():
            if name.startswith("_") or name in d:
                continue
            if callable(v) or isinstance(v, (property, staticmethod, classmethod)):
                continue
            d[name] = getattr(o, name)
    return d


def snap(o):
    """(class name, typed snapshot of every data attribute readable through the object)."""
    return (type(o).__name__, typed(public_data(o)))


def snap_diff(a, b):
    """Instance attributes in which two snapshots differ."""
    da, db = dict(a[1][1]), dict(b[1][1])
    return [k for k in list(da) + [k for k in db if k not in da] if da.get(k) != db.get(k)]


def _sequence_lengths(d):
    """Lengths of the sequence-valued attributes (also one level inside dict-valued ones), ``attrs`` aside."""
    out = []
    for k, v in d.items():
        if k == "attrs":
            continue
        if isinstance(v, dict):
            out += _sequence_lengths(v)
        elif isinstance(v, (list, tuple)) or (isinstance(v, np.ndarray) and v.ndim == 1):
            out.append(len(v))
    return out


def _array_sizes(d):
    out = []
    for k, v in d.items():
        if isinstance(v, dict):
            out += _array_sizes(v)
        elif isinstance(v, np.ndarray):
            out.append(v.size)
    return out


def content(o):
    """Normalised content: every instance attribute except the bookkeeping list."""
    return {k: REF.normalise(v) for k, v in vars(o).items() if k != "attrs"}


# ---------------------------------------------------------------------------
# the default-argument objects (harness plumbing only: used to put them back
# between transitions; the oracle looks at freshly constructed objects)

REG = []            # the mutable objects reachable from constructor defaults
_REG_IDS = {}
_REG_SAVED = []


def _visit(o):
    if isinstance(o, (list, dict, np.ndarray)) and id(o) not in _REG_IDS:
        _REG_IDS[id(o)] = len(REG)
        REG.append(o)
        if isinstance(o, dict):
            for x in o.values():
                _visit(x)
        elif isinstance(o, list):
            for x in o:
                _visit(x)


def _spec(x):
    return ("ref", _REG_IDS[id(x)]) if id(x) in _REG_IDS else ("val", copy.deepcopy(x))


def _register_defaults():
    for c in vars(S).values():
        if isinstance(c, type) and issubclass(c, S.Settings):
            init = c.__dict__.get("__init__")
            if init is None:
                continue
            for d in (init.__defaults__ or ()):
                _visit(d)
            for d in (init.__kwdefaults__ or {}).values():
                _visit(d)
    for o in REG:
        if isinstance(o, np.ndarray):
            _REG_SAVED.append(o.copy())
        elif isinstance(o, list):
            _REG_SAVED.append([_spec(x) for x in o])
        else:
            _REG_SAVED.append({k: _spec(x) for k, x in o.items()})


def _resolve(s):
    return REG[s[1]] if s[0] == "ref" else copy.deepcopy(s[1])


CLASS_LEVEL = []    # (class, name, object, saved copy): public mutable data declared in a class body


def _register_class_level():
    for c in vars(S).values():
        if isinstance(c, type) and issubclass(c, S.Settings):
            for name, v in vars(c).items():
                if not name.startswith("_") and isinstance(v, (list, dict, np.ndarray)):
                    CLASS_LEVEL.append((c, name, v, copy.deepcopy(v)))


def restore_defaults():
    for c, name, o, saved in CLASS_LEVEL:
        if vars(c).get(name) is not o:
            setattr(c, name, o)
        if isinstance(o, np.ndarray):
            if o.shape != saved.shape:
                raise RuntimeError("a class-level array changed shape; cannot be put back in place")
            o[...] = saved
        elif isinstance(o, list):
            o[:] = copy.deepcopy(saved)
        else:
            o.clear()
            o.update(copy.deepcopy(saved))
    for o, saved in zip(REG, _REG_SAVED):
        if isinstance(o, np.ndarray):
            if o.shape != saved.shape:
                raise RuntimeError("a default array changed shape; cannot be put back in place")
            o[...] = saved
        elif isinstance(o, list):
            o[:] = [_resolve(s) for s in saved]
        else:
            o.clear()
            o.update({k: _resolve(s) for k, s in saved.items()})


def fresh_snaps():
    return {k: snap(CLS[k]()) for k in CLASSES}


_register_defaults()
_register_class_level()
PRISTINE = fresh_snaps()                              # recorded before anything can mutate
PRISTINE_CONTENT = {k: content(CLS[k]()) for k in CLASSES}

# ---------------------------------------------------------------------------
# value menus (factories: a fresh value object for every application)

CF_LIST = [0.5, 1.0, 2.0, 5.0, 20.0]
VALUES = {
    "wtw:list": lambda: ["tukey", 0.2],
    "wtw:tuple": lambda: ("tukey", 0.5),
    "sm:ko-list": lambda: dict(operator="konno_and_ohmachi", bandwidth=30,
                               center_frequencies_in_hz=list(CF_LIST)),
    "sm:parzen-array": lambda: dict(operator="parzen", bandwidth=0.5,
                                    center_frequencies_in_hz=np.array([1.0, 2.0, 4.0, 8.0])),
    "sm:logrect-tuple": lambda: dict(operator="log_rectangular", bandwidth=0.1,
                                     center_frequencies_in_hz=(0.7, 3.0, 11.0)),
    # boundary sizes of the sequence inside the dictionary: one centre frequency
    "sm:ko-array-1": lambda: dict(operator="konno_and_ohmachi", bandwidth=40,
                                  center_frequencies_in_hz=np.array([2.0])),
    "sm:parzen-list-1": lambda: dict(operator="parzen", bandwidth=0.5, center_frequencies_in_hz=[3.0]),
    "none": lambda: None,
    "fft:n-none": lambda: {"n": None},
    "fft:n-65536": lambda: {"n": 65536},
    "az:array": lambda: np.arange(0, 180, 45),
    "az:list": lambda: [0.0, 90.0],
    "az:tuple": lambda: (10, 100.5),
    # boundary sizes: exactly one azimuth (array / list / tuple), no azimuth at all
    "az:array-1": lambda: np.array([30.0]),
    "az:list-1": lambda: [30.0],
    "az:tuple-1": lambda: (30,),
    "az:array-0": lambda: np.array([]),
    "fc:list-hp": lambda: [1.0, None],
    "fc:tuple-lp": lambda: (None, 3.0),
    "fc:array-bp": lambda: np.array([0.5, 3.0]),
    "true": lambda: True,
}
for _name in ("frequency_domain_resampling", "keeping_smallest_time_step", "keeping_majority_time_step",
              "arithmetic_mean", "squared_average", "quadratic_mean", "root_mean_square",
              "effective_amplitude_spectrum", "geometric_mean", "total_horizontal_energy",
              "vector_summation", "maximum_horizontal_value", "single_azimuth", "directional_energy",
              "constant", "none-string"):
    VALUES["s:" + _name] = (lambda n: (lambda: "none" if n == "none-string" else n))(_name)
for _x in (0.0, 75, -45.5, 100, 40.0, 30.0):
    VALUES["x:" + repr(_x)] = (lambda n: (lambda: n))(_x)

COMBINE = ["arithmetic_mean", "squared_average", "quadratic_mean", "root_mean_square",
           "effective_amplitude_spectrum", "geometric_mean", "total_horizontal_energy",
           "vector_summation", "maximum_horizontal_value"]
HDTS = ["s:frequency_domain_resampling", "s:keeping_smallest_time_step", "s:keeping_majority_time_step"]
AZ_VALUES = ["az:array", "az:list", "az:tuple", "az:array-1", "az:list-1", "az:tuple-1", "az:array-0"]
PROC_COMMON = [("window_type_and_width", ["wtw:list", "wtw:tuple"]),
               ("smoothing", ["sm:ko-list", "sm:parzen-array", "sm:logrect-tuple", "sm:ko-array-1",
                              "sm:parzen-list-1"]),
               ("fft_settings", ["fft:n-none", "fft:n-65536", "none"]),
               ("handle_dissimilar_time_steps_by", HDTS)]
PRE_COMMON = [("orient_to_degrees_from_north", ["none", "x:40.0"]),
              ("filter_corner_frequencies_in_hz", ["fc:list-hp", "fc:tuple-lp", "fc:array-bp"]),
              ("window_length_in_seconds", ["none", "x:30.0"]),
              ("detrend", ["s:constant", "s:none-string", "none"]),
              ("ignore_dissimilar_time_step_warning", ["true"])]
SETS = {
    "HvsrPreProcessingSettings": PRE_COMMON,
    "PsdPreProcessingSettings": PRE_COMMON + [("window_type_and_width", ["wtw:list", "wtw:tuple"]),
                                              ("fft_settings", ["fft:n-none", "fft:n-65536"]),
                                              ("differentiate", ["true"])],
    "PsdProcessingSettings": [(a, v + ["none"] if a == "smoothing" else v) for a, v in PROC_COMMON],
    "HvsrTraditionalProcessingSettings":
        PROC_COMMON + [("method_to_combine_horizontals", ["s:" + m for m in COMBINE])],
    "HvsrTraditionalSingleAzimuthProcessingSettings":
        PROC_COMMON + [("method_to_combine_horizontals", ["s:directional_energy", "s:single_azimuth"]),
                       ("azimuth_in_degrees", ["x:0.0", "x:75", "x:-45.5"])],
    "HvsrTraditionalRotDppProcessingSettings":
        PROC_COMMON + [("ppth_percentile_for_rotdpp_computation", ["x:0.0", "x:100"]),
                       ("azimuths_in_degrees", AZ_VALUES)],
    "HvsrAzimuthalProcessingSettings":
        PROC_COMMON + [("azimuths_in_degrees", AZ_VALUES)],
    "HvsrDiffuseFieldProcessingSettings": PROC_COMMON,
}

# in-place mutations: id -> (path, value, container types it applies to)
MUTS = {
    "wtw[1]=0.5": (["window_type_and_width", 1], 0.5),
    "fc[0]=1.5": (["filter_corner_frequencies_in_hz", 0], 1.5),
    "cf[0]=9.9": (["smoothing", "center_frequencies_in_hz", 0], 9.9),
    "bw=70": (["smoothing", "bandwidth"], 70),
    "az[0]=77": (["azimuths_in_degrees", 0], 77),
    "fft[n]=65536": (["fft_settings", "n"], 65536),
}


def mut_applicable(o, mid):
    path, _ = MUTS[mid]
    tgt = o
    try:
        tgt = getattr(o, path[0])
        for p in path[1:-1]:
            tgt = tgt[p]
    except (AttributeError, KeyError, TypeError, IndexError):
        return False
    if isinstance(path[-1], int):
        return isinstance(tgt, (list, np.ndarray)) and len(tgt) > path[-1]
    return isinstance(tgt, dict)


def do_mut(o, mid):
    path, value = MUTS[mid]
    tgt = getattr(o, path[0])
    for p in path[1:-1]:
        tgt = tgt[p]
    tgt[path[-1]] = value


# ---------------------------------------------------------------------------
# the fixed tiny recording lists (fresh objects on every call)


def _rec(n, dt, j):
    t = np.arange(n, dtype=float)
    ns = np.sin(0.3 * t + j) + 0.1 * t / n
    ew = np.cos(0.7 * t + 2 * j) * (1 + 0.01 * t)
    vt = np.sin(1.1 * t + 0.5 * j) + 0.3 + 0.05 * np.cos(0.11 * t)
    return SeismicRecording3C(TimeSeries(ns, dt), TimeSeries(ew, dt), TimeSeries(vt, dt),
                              degrees_from_north=10.0)


def proc_records(name):
    # two different time steps so that handle_dissimilar_time_steps_by is observable; the azimuthal
    # class (36 default azimuths x 200 centre frequencies x 16385 bins) gets a single recording
    if name == "HvsrAzimuthalProcessingSettings":
        return [_rec(64, 0.005, 0)]
    return [_rec(64, 0.005, 0), _rec(48, 0.01, 1)]


def pre_records():
    return [_rec(1300, 0.1, 0), _rec(700, 0.1, 1)]


def result_digest(r):
    if isinstance(r, dict):
        return ("dict",) + tuple((k, result_digest(r[k])) for k in sorted(r))
    if isinstance(r, (list, tuple)):
        return ("seq",) + tuple(result_digest(x) for x in r)
    if isinstance(r, SeismicRecording3C):
        return ("rec", arr_digest(r.ns.amplitude, r.ew.amplitude, r.vt.amplitude),
                float(r.ns.dt_in_seconds), float(r.degrees_from_north))
    if hasattr(r, "hvsrs"):
        return ("az", REF.normalise(r.azimuths), tuple(result_digest(h) for h in r.hvsrs))
    if hasattr(r, "frequency") and hasattr(r, "amplitude"):
        return (type(r).__name__, arr_digest(r.frequency, r.amplitude))
    return ("other", repr(type(r)))


def proc(o):
    """(Pre)process the fixed recordings with settings object ``o`` (which may be written to)."""
    try:
        # hvsrpy prints the offending curve before refusing a result with NaN in it
        with np.errstate(all="ignore"), open(os.devnull, "w") as null, contextlib.redirect_stdout(null):
            if type(o).__name__ in PRE_CLASSES:
                r = hvsrpy.preprocess(pre_records(), o)
            else:
                r = hvsrpy.process(proc_records(type(o).__name__), o)
    except Exception as e:      # noqa: BLE001 - the outcome is compared, not assumed
        return ("raised", type(e).__name__)
    return digest(result_digest(r))


# ---------------------------------------------------------------------------
# the system


class Holder:
    def __init__(self):
        self.objs = []
        self.model = []
        self.files = {}         # slot -> dict(bytes, cls, model, content, orig)
        self.hist = []
        self.fresh = None
        self.poisoned = False


def alias_signature(h):
    """Which mutable attribute values are one and the same object (or a default object)."""
    groups = {}
    for i, o in enumerate(h.objs):
        for a, v in vars(o).items():
            if a == "attrs":
                continue
            items = [((i, a), v)]
            if isinstance(v, dict):
                items += [((i, a, k), x) for k, x in v.items()]
            for path, x in items:
                if isinstance(x, (list, dict, np.ndarray)):
                    groups.setdefault(id(x), []).append(path)
    out = []
    for k, paths in groups.items():
        if len(paths) > 1 or k in _REG_IDS:
            out.append((tuple(sorted(map(str, paths))), k in _REG_IDS))
    return tuple(sorted(out))


class System:
    def __init__(self, root, ctx, tier, tmp):
        self.root = root
        self.ctx = ctx
        self.tier = tier
        self.path = os.path.join(tmp, "settings.json")
        self.judged = set()
        self.depth = root["depth"]
        self.last_level_kinds = root.get("last_level_kinds")

    # ---- construction -----------------------------------------------------
    def initial(self, root):
        restore_defaults()
        h = Holder()
        h.objs.append(CLS[root["cls"]]())
        h.model.append(REF.new(root["cls"], VERSION))
        h.model[0][1] = copy.deepcopy(PRISTINE_CONTENT[root["cls"]])
        h.fresh = fresh_snaps()
        return h

    def clone(self, h):
        restore_defaults()
        memo = {id(o): o for o in REG}      # default objects stay the very same objects
        return copy.deepcopy(h, memo)

    # ---- menu -------------------------------------------------------------
    def menu(self, h):
        if h.poisoned:
            self.ctx.count("states_not_expanded_after_default_corruption")
            return []
        if not h.hist and self.root.get("first") is not None:
            return [self.root["first"]]
        ops = full_menu(h)
        if self.last_level_kinds and len(h.hist) == self.depth - 1:
            ops = [op for op in ops if op["op"] in self.last_level_kinds]
        return ops

    # ---- transitions ------------------------------------------------------
    def _write(self, slot_bytes):
        with open(self.path, "wb") as f:
            f.write(slot_bytes)

    def apply(self, h, op):
        ctx = self.ctx
        before = [snap(o) for o in h.objs]
        before_ids = list(map(id, h.objs))
        h.hist.append(op)
        hkey = json.dumps(h.hist, sort_keys=True)
        judge = hkey not in self.judged
        self.judged.add(hkey)
        kind = op["op"]
        target = op.get("i")
        outcome = None
        try:
            if kind == "New":
                h.objs.append(CLS[op["cls"]]())
                m = REF.new(op["cls"], VERSION)
                m[1] = copy.deepcopy(PRISTINE_CONTENT[op["cls"]])
                h.model.append(m)
                target = len(h.objs) - 1
            elif kind == "Set":
                setattr(h.objs[target], op["attr"], VALUES[op["v"]]())
                REF.set_attr(h.model[target], op["attr"], VALUES[op["v"]]())
            elif kind == "Mut":
                do_mut(h.objs[target], op["m"])
                REF.mutate(h.model[target], *MUTS[op["m"]])
            elif kind == "Save":
                outcome = self._save(h, target, judge)
            elif kind == "Load":
                outcome = self._load(h, target, op["f"], judge)
            elif kind == "Read":
                outcome = self._read(h, op["f"], judge)
                target = len(h.objs) - 1
            elif kind == "Proc":
                outcome = proc(h.objs[target])
                ctx.count("proc_calls")
                # Proc is an operation on object i: whatever it wrote into i (the resolved FFT
                # length, documented) is adopted by the model; C15 claims nothing about it.
                new_content = content(h.objs[target])
                changed = REF.diff(h.model[target][1], new_content)
                if judge:
                    ctx.outcome(("proc", type(h.objs[target]).__name__, outcome, changed))
                h.model[target][1] = new_content
        except Exception as e:      # noqa: BLE001
            outcome = ("raised", type(e).__name__)
            if judge:
                ctx.violation(f"C15:{kind}:{self._cls(h, target)}:raises", self.root,
                              detail=dict(script=script(self.root, h.hist), hist=list(h.hist)), observed=traceback.format_exc()[-1500:],
                              explanation=f"{kind} raised on a serialisable settings object")
        # ---- every other live object is unchanged ---------------------------
        h.fresh = fresh_snaps()
        h.poisoned = h.fresh != PRISTINE
        if judge:
            for j, b in enumerate(before):
                if j == target or id(h.objs[j]) != before_ids[j]:
                    continue
                now = snap(h.objs[j])
                ctx.count("other_object_comparisons")
                if now != b:
                    shared = self._aliases_default(h.objs[j])
                    key = KEY_DEFAULTS if shared else f"C15:{kind}:other-object-changed"
                    ctx.violation(key, self.root,
                                  detail=dict(script=script(self.root, h.hist), hist=list(h.hist), changed_object=j,
                                              attributes_aliasing_a_default_object=shared),
                                  expected={k: untyped(dict(b[1][1])[k]) for k in snap_diff(b, now) if k in dict(b[1][1])},
                                  observed={k: untyped(dict(now[1][1])[k]) for k in snap_diff(b, now)
                                            if k in dict(now[1][1])},
                                  explanation=f"{kind} on object {target} changed live object {j}"
                                              + (" (both hold the constructor's default object)" if shared else ""))
        return outcome

    @staticmethod
    def _cls(h, i):
        try:
            return type(h.objs[i]).__name__
        except (IndexError, TypeError):
            return "-"

    @staticmethod
    def _aliases_default(o):
        out = []
        for a, v in vars(o).items():
            if id(v) in _REG_IDS:
                out.append(a)
            if isinstance(v, dict):
                out += [f"{a}[{k!r}]" for k, x in v.items() if id(x) in _REG_IDS]
        return out

    # ---- Save / Load / Read ---------------------------------------------------
    def _compare_reloaded(self, route, orig_cls, orig_content, orig_proc, new, hist, with_proc=True):
        """Judge one reloaded object against the original; returns True when identical."""
        ctx = self.ctx
        ctx.count("reloaded_objects_compared")
        tag = orig_content.get("method_to_combine_horizontals", "-")
        if type(new).__name__ != orig_cls:
            ctx.violation(f"C15:{route}:{orig_cls}[{tag}]:class-differs", self.root,
                          detail=dict(script=script(self.root, hist), hist=list(hist)), expected=orig_cls, observed=type(new).__name__,
                          explanation=f"{route}: the reloaded object is a {type(new).__name__}, the saved "
                                      f"one a {orig_cls}")
            return False
        got = content(new)
        bad = REF.diff(orig_content, got)
        if bad:
            ctx.violation(f"C15:{route}:{orig_cls}:{bad[0]}:content-differs", self.root,
                          detail=dict(script=script(self.root, hist), hist=list(hist), attributes=bad),
                          expected={k: orig_content.get(k, "<absent>") for k in bad},
                          observed={k: got.get(k, "<absent>") for k in bad},
                          explanation=f"{route}: attribute(s) {bad} of the reloaded object differ in content")
            return False
        if with_proc:
            p = proc(new)
            ctx.count("proc_calls")
            ctx.count("proc_results_compared")
            if p != orig_proc:
                kindp = "proc-outcome-differs" if (isinstance(p, tuple) or isinstance(orig_proc, tuple)) \
                    else "proc-result-differs"
                ctx.violation(f"C15:{route}:{orig_cls}:{kindp}", self.root,
                              detail=dict(script=script(self.root, hist), hist=list(hist)), expected=orig_proc, observed=p,
                              explanation=f"{route}: (pre)processing the fixed recordings with the reloaded "
                                          f"settings does not give the result obtained with the original")
                return False
        return True

    def _save(self, h, i, judge):
        o = h.objs[i]
        write_settings_object_to_file(o, self.path)
        with open(self.path, "rb") as f:
            data = f.read()
        name = type(o).__name__
        orig = copy.deepcopy(o)
        h.files[str(i)] = dict(bytes=data, cls=name, model=REF.through_file(h.model[i]),
                               content=content(o), orig=orig)
        if not judge:
            return None
        ctx = self.ctx
        ctx.count("roundtrips")
        oc = content(o)
        for n in _sequence_lengths(vars(o)):
            if n <= 1:
                ctx.count(f"roundtrips_with_a_sequence_of_length_{n}")
        for t in _array_sizes(vars(o)):
            if t <= 1:
                ctx.count(f"roundtrips_with_an_array_of_size_{t}")
        direct_ok, direct_snap = False, None
        op_ = proc(copy.deepcopy(o))
        ctx.count("proc_calls")
        ctx.outcome(("proc", name, op_))
        ctx.nontrivial_case((name, oc))
        # directly: a new object of the same class loads the file
        try:
            direct = CLS[name]()
            direct.load(self.path)
        except Exception:       # noqa: BLE001
            ctx.violation(f"C15:save-load:{name}:raises", self.root, detail=dict(script=script(self.root, h.hist), hist=list(h.hist)),
                          observed=traceback.format_exc()[-1500:],
                          explanation="loading a saved settings file raised")
        else:
            direct_snap = snap(direct)
            direct_ok = self._compare_reloaded("save-load", name, oc, op_, direct, h.hist)
        # through the type-dispatching reader
        try:
            disp = read_settings_object_from_file(self.path)
        except Exception:       # noqa: BLE001
            ctx.violation(f"C15:read_settings_object_from_file:{name}:raises", self.root,
                          detail=dict(script=script(self.root, h.hist), hist=list(h.hist)), observed=traceback.format_exc()[-1500:],
                          explanation="the dispatching reader raised on a saved settings file")
        else:
            # identical class, values and container types as the directly loaded object, whose
            # processing result was just compared: the same call is not executed a second time
            same = direct_ok and snap(disp) == direct_snap
            if same:
                ctx.count("proc_skipped_identical_to_direct_load")
            self._compare_reloaded("read_settings_object_from_file", name, oc, op_, disp, h.hist,
                                   with_proc=not same)
        return None

    def _load(self, h, j, slot, judge):
        f = h.files[slot]
        self._write(f["bytes"])
        h.objs[j].load(self.path)
        REF.load_into(h.model[j], f["model"])
        if judge:
            self.ctx.count("roundtrips")
            po = proc(copy.deepcopy(f["orig"]))
            self.ctx.count("proc_calls")
            self._compare_reloaded("load-into-existing", f["cls"], f["content"], po,
                                   copy.deepcopy(h.objs[j]), h.hist)
        return None

    def _read(self, h, slot, judge):
        f = h.files[slot]
        self._write(f["bytes"])
        o = read_settings_object_from_file(self.path)
        h.objs.append(o)
        h.model.append([f["cls"], copy.deepcopy(f["model"][1])])
        if judge:
            self.ctx.count("roundtrips")
            self._compare_reloaded("read_settings_object_from_file", f["cls"], f["content"], None,
                                   o, h.hist, with_proc=False)     # Proc was compared when it was saved
        return None

    # ---- state ------------------------------------------------------------
    def canon(self, h):
        files = tuple((s, f["cls"], digest(f["bytes"])) for s, f in sorted(h.files.items()))
        return (tuple(snap(o) for o in h.objs), alias_signature(h), files,
                tuple(h.fresh[k] for k in CLASSES))

    def observe(self, h):
        return digest([content(o) for o in h.objs])

    def invariant(self, h, hist, ctx, root):
        ctx.count("validated")
        # (1) freshly constructed defaults == pristine defaults
        ctx.count("fresh_default_comparisons", len(CLASSES))
        if h.poisoned:
            changed = {}
            for k in CLASSES:
                if h.fresh[k] != PRISTINE[k]:
                    changed[k] = snap_diff(PRISTINE[k], h.fresh[k])
                    for x in changed[k]:
                        ctx.count(f"default_corrupted:{k}.{x}")
            ctx.violation(KEY_DEFAULTS, root,
                          detail=dict(script=script(self.root, h.hist), hist=list(h.hist), classes_and_attributes_whose_defaults_changed=changed),
                          expected="freshly constructed objects equal the defaults recorded at start",
                          observed={k: {x: untyped(dict(h.fresh[k][1][1]).get(x, ('scalar', 'str', '<absent>'))) for x in v}
                                    for k, v in list(changed.items())[:2]},
                          explanation="after this history a freshly constructed settings object no longer "
                                      "has the default values: the in-place change went into the "
                                      "constructor's default argument object")
            return          # consequences of the corrupted defaults are not judged again
        # (2) reference model == implementation, object by object
        for i, o in enumerate(h.objs):
            m = h.model[i]
            ctx.outcome((type(o).__name__, content(o)))
            last = h.hist[-1]["op"] if h.hist else "initial"
            if type(o).__name__ != m[0]:
                if last == "Read":
                    continue        # reported as class-differs by the transition judgement
                ctx.violation(f"C15:{last}:{m[0]}:class-differs-from-model", root,
                              detail=dict(script=script(self.root, h.hist), hist=list(h.hist), obj=i), expected=m[0], observed=type(o).__name__,
                              explanation="class of a live object differs from the reference model")
                continue
            bad = REF.diff(m[1], content(o))
            if bad:
                got = content(o)
                ctx.violation(f"C15:{last}:{m[0]}:{bad[0]}:content-differs-from-model", root,
                              detail=dict(script=script(self.root, h.hist), hist=list(h.hist), obj=i, attributes=bad),
                              expected={k: m[1].get(k, "<absent>") for k in bad},
                              observed={k: got.get(k, "<absent>") for k in bad},
                              explanation="content of a live object differs from the dict model stepped "
                                          "alongside (assignment / mutation / load not reflected as stated)")


def script(root, hist):
    """The history written out as the Python statements it stands for."""
    names = [root["cls"]]
    lines = ["from hvsrpy.settings import *", "from hvsrpy.object_io import read_settings_object_from_file",
             f"o0 = {root['cls']}()"]
    for op in hist:
        k = op["op"]
        if k == "New":
            lines.append(f"o{len(names)} = {op['cls']}()")
            names.append(op["cls"])
        elif k == "Set":
            lines.append(f"o{op['i']}.{op['attr']} = {VALUES[op['v']]()!r}")
        elif k == "Mut":
            path, value = MUTS[op["m"]]
            lines.append(f"o{op['i']}.{path[0]}" + "".join(f"[{q!r}]" for q in path[1:]) + f" = {value!r}")
        elif k == "Save":
            lines.append(f"o{op['i']}.save('f{op['i']}.json')   # then K().load('f{op['i']}.json') and "
                         f"read_settings_object_from_file('f{op['i']}.json') are compared with o{op['i']}")
        elif k == "Load":
            lines.append(f"o{op['i']}.load('f{op['f']}.json')")
        elif k == "Read":
            lines.append(f"o{len(names)} = read_settings_object_from_file('f{op['f']}.json')")
            names.append("?")
        elif k == "Proc":
            lines.append(f"hvsrpy.process(<2 tiny recordings>, o{op['i']})   # preprocess for preprocessing settings")
    return lines


def full_menu(h):
    ops = []
    n = len(h.objs)
    for i, o in enumerate(h.objs):
        for mid in MUTS:
            if mut_applicable(o, mid):
                ops.append(dict(op="Mut", i=i, m=mid))
    for i in range(n):
        ops.append(dict(op="Save", i=i))
    for j, o in enumerate(h.objs):
        for slot, f in sorted(h.files.items()):
            if f["cls"] == type(o).__name__:
                ops.append(dict(op="Load", i=j, f=slot))
    if n < MAXOBJ:
        for slot in sorted(h.files):
            ops.append(dict(op="Read", f=slot))
    for i in range(n):
        ops.append(dict(op="Proc", i=i))
    if n < MAXOBJ:
        for k in CLASSES:
            ops.append(dict(op="New", cls=k))
    for i, o in enumerate(h.objs):
        for attr, vids in SETS.get(type(o).__name__, []):
            for v in vids:
                ops.append(dict(op="Set", i=i, attr=attr, v=v))
    return ops


# ---------------------------------------------------------------------------
# module protocol

THOROUGH_LAST = ["Mut", "Save", "Load", "Read", "New"]


def roots(tier, seed):
    out = []
    for k in CLASSES:
        h = Holder()
        h.objs.append(CLS[k]())
        depth = 2 if tier == "quick" else 3
        for op in full_menu(h):
            r = dict(cls=k, first=op, depth=depth)
            if tier != "quick":
                r["last_level_kinds"] = THOROUGH_LAST
            out.append(r)
    for k in CLASSES:
        out.append(dict(kind="load-over", cls=k))
        out.append(dict(kind="construct-from", cls=k))
        for config in EDIT_CONFIGS:
            out.append(dict(kind="inplace-edit", cls=k, config=config))
    return out


def warm():
    """Load the compiled smoothing kernels once in the parent (throw-away settings objects)."""
    for k in ("HvsrTraditionalProcessingSettings", "HvsrDiffuseFieldProcessingSettings"):
        for v in (None, "sm:parzen-array", "sm:logrect-tuple"):
            o = CLS[k]()
            if v:
                o.smoothing = VALUES[v]()
            proc(o)
    if fresh_snaps() != PRISTINE:
        raise RuntimeError("warm-up changed the class defaults")


def _explore(root, ctx, tier, tmp):
    sysm = System(root, ctx, tier, tmp)
    # documented defaults (written out in the reference model) == recorded pristine defaults
    doc = REF.defaults(root["cls"], VERSION)
    if not _close_content(doc, PRISTINE_CONTENT[root["cls"]]):
        ctx.violation(f"C15:constructor:{root['cls']}:defaults-differ-from-documented", root,
                      expected=doc, observed=PRISTINE_CONTENT[root["cls"]],
                      explanation="default-constructed object differs from the documented defaults")
    explorer.bfs(sysm, root, root["depth"], ctx, key_prefix="C15",
                 check_determinism=(tier == "quick" and (root.get("first") or {}).get("op") != "Proc"))
    if len(ctx.samples) < 2:
        ctx.sample(dict(root=root, initial=PRISTINE_CONTENT[root["cls"]].get("window_type_and_width")))


def _close_content(a, b):
    if isinstance(a, dict) and isinstance(b, dict):
        return set(a) == set(b) and all(_close_content(a[k], b[k]) for k in a)
    if isinstance(a, list) and isinstance(b, list):
        return len(a) == len(b) and all(_close_content(x, y) for x, y in zip(a, b))
    if isinstance(a, float) and isinstance(b, float):
        return abs(a - b) <= 1e-12 * max(abs(a), abs(b))
    return a == b and type(a) is type(b) or (a == b and isinstance(a, (int, float)) and not isinstance(a, bool))


def _load_over(root, ctx):
    """Load a saved settings file into an object that already holds other content: afterwards the
    object must hold exactly the file's content (nothing of what it held before may survive)."""
    import json as _json
    k = root["cls"]
    tmp = tempfile.mkdtemp(prefix="hvmc-c15-")
    try:
        for before_attr, before_val, file_attr, file_val in LOAD_OVER_CASES:
            src = CLS[k]()
            if not hasattr(src, file_attr) or not hasattr(src, before_attr):
                continue
            setattr(src, file_attr, copy.deepcopy(file_val))
            want = REF.normalise(src.attr_dict)
            fname = os.path.join(tmp, "s.json")
            src.save(fname)
            for route in ("load", "load-twice"):
                dst = CLS[k]()
                setattr(dst, before_attr, copy.deepcopy(before_val))
                dst.load(fname)
                if route == "load-twice":
                    dst.load(fname)
                got = REF.normalise(dst.attr_dict)
                ctx.count("states")
                ctx.count("transitions")
                ctx.count("validated")
                ctx.count("load_over_cases")
                if got != want:
                    diff = sorted(a for a in set(got) | set(want) if got.get(a) != want.get(a))
                    ctx.violation(f"C15:load-over-existing-content:{k}:{diff[0] if diff else '?'}:content-differs", root,
                                  detail=dict(cls=k, held_before={before_attr: before_val}, file={file_attr: file_val},
                                              route=route, differing=diff),
                                  expected={a: want.get(a) for a in diff}, observed={a: got.get(a) for a in diff},
                                  explanation="after load() the object does not hold exactly the file's content "
                                              "(something it held before survived the load)")
    finally:
        shutil.rmtree(tmp, ignore_errors=True)


# ---------------------------------------------------------------------------
# objects constructed FROM values that something else still holds
#
# "Settings objects do not share state": an object built from a value the caller keeps, from an attribute
# of another settings object, or from the same value as a sibling, is independent of all of them - an
# in-place change on either side is not seen on the other.

CONSTRUCT_VALUES = {
    "window_type_and_width": [lambda: ["tukey", 0.2]],
    "smoothing": [lambda: dict(operator="konno_and_ohmachi", bandwidth=30, center_frequencies_in_hz=list(CF_LIST)),
                  lambda: dict(operator="parzen", bandwidth=0.5, center_frequencies_in_hz=np.array([1.0, 2.0, 4.0, 8.0])),
                  lambda: dict(operator="konno_and_ohmachi", bandwidth=40, center_frequencies_in_hz=np.array([2.0]))],
    "fft_settings": [lambda: {"n": 4096}],
    "filter_corner_frequencies_in_hz": [lambda: [1.0, 20.0], lambda: np.array([0.5, 3.0])],
    "azimuths_in_degrees": [lambda: np.arange(0, 180, 45), lambda: np.array([22.5, 67.5, 112.5, 157.5]),
                            lambda: np.linspace(0.0, 150.0, 6), lambda: [0.0, 90.0],
                            lambda: np.array([30.0]), lambda: [30.0]],
}


def _inplace_edits(value):
    """Every in-place edit of MUTS that applies to this value: list of (description, function(value))."""
    out = []
    if isinstance(value, (list, np.ndarray)):
        for idx in sorted({0, len(value) - 1}):
            new = 0.5 if isinstance(value[idx], str) or value[idx] is None else (
                77 if isinstance(value, np.ndarray) and value.dtype.kind in "iu" else 77.25)
            if isinstance(value[idx], str):
                continue
            out.append((f"[{idx}] = {new}", (lambda v, i=idx, n=new: v.__setitem__(i, n))))
    elif isinstance(value, dict):
        for key, inner in value.items():
            if isinstance(inner, (list, np.ndarray)):
                out.append((f"[{key!r}][0] = 9.75", (lambda v, k=key: v[k].__setitem__(0, 9.75))))
            elif isinstance(inner, (int, float)) and not isinstance(inner, bool):
                out.append((f"[{key!r}] = {inner * 2}", (lambda v, k=key, n=inner * 2: v.__setitem__(k, n))))
    return out


def _construct_from(root, ctx):
    k = root["cls"]
    restore_defaults()
    probe = CLS[k]()
    for attr, factories in CONSTRUCT_VALUES.items():
        if not hasattr(probe, attr):
            continue
        for fi, make in enumerate(factories):
            for desc, edit in _inplace_edits(make()):
                for route in ("caller-keeps-value", "from-other-object:edit-new", "from-other-object:edit-old",
                              "siblings-from-one-value"):
                    ctx.count("states")
                    ctx.count("transitions", 2)
                    detail = dict(cls=k, attribute=attr, value=repr(make())[:200], in_place_edit=desc, route=route)
                    try:
                        if route == "caller-keeps-value":
                            v = make()
                            a = CLS[k](**{attr: v})
                            watched, want = a, content(a)
                            edit(v)
                        elif route.startswith("from-other-object"):
                            a = CLS[k](**{attr: make()})
                            b = CLS[k](**{attr: getattr(a, attr)})
                            if route.endswith("edit-new"):
                                watched, want = a, content(a)
                                edit(getattr(b, attr))
                            else:
                                watched, want = b, content(b)
                                edit(getattr(a, attr))
                        else:
                            v = make()
                            a = CLS[k](**{attr: v})
                            b = CLS[k](**{attr: v})
                            watched, want = a, content(a)
                            edit(getattr(b, attr))
                    except Exception:       # noqa: BLE001
                        ctx.violation(f"C15:construct-from:{k}:{attr}:raises", root, detail=detail,
                                      observed=traceback.format_exc()[-1200:],
                                      explanation="constructing a settings object from a valid value raised")
                        continue
                    got = content(watched)
                    ctx.count("validated")
                    ctx.count("construct_from_cases")
                    ctx.outcome(("construct-from", k, attr, fi, desc, route))
                    if got != want:
                        ctx.violation(f"C15:construct-from:{k}:{attr}:{route}:shares-state", root, detail=detail,
                                      expected=want.get(attr), observed=got.get(attr),
                                      explanation="an in-place change made through one holder of a value changed a "
                                                  "settings object that was constructed from that value")
    fresh = fresh_snaps()
    if fresh != PRISTINE:
        ctx.violation(KEY_DEFAULTS, root, detail=dict(cls=k, family="construct-from"),
                      explanation="after the construct-from cases a freshly constructed object no longer has the "
                                  "default values")
        restore_defaults()


# ---------------------------------------------------------------------------
# in-place edits of EVERY mutable container readable through a settings object
#
# "changing an attribute of one object, in place ..., never changes another object nor the defaults of
# objects created later": the containers are found generically (every list / dict / array among the data
# attributes readable as ``obj.<name>``, and every list / dict / array inside such a dict), the edits are
# every in-place operation of the container type within a small menu (not only element assignment), and
# the bystanders are one object of each of the eight classes made before the edit and one made after it.
# Nothing is claimed about the edited object itself.

EDIT_CONFIGS = ("default", "constructed-with-values", "loaded-from-one-file", "read-from-one-file")
OBSERVABLES = ("data attributes", "attr_dict", "saved file")


def _like(x, integer=False):
    """A value of the kind of ``x`` that differs from every value in the menus."""
    if isinstance(x, str):
        return "hvmc_extra"
    if isinstance(x, bool):
        return not x
    return 77 if integer else 77.25


def _generic_edits(c):
    """In-place operations on container ``c``: list of (description, function(container))."""
    out = []
    if isinstance(c, list):
        x = _like(c[-1]) if c else 77.25
        out.append((f".append({x!r})", lambda v: v.append(x)))
        out.append((f".insert(0, {x!r})", lambda v: v.insert(0, x)))
        out.append((f".extend([{x!r}, {x!r}])", lambda v: v.extend([x, x])))
        if c:
            x0 = _like(c[0])
            out.append((f"[0] = {x0!r}", lambda v: v.__setitem__(0, x0)))
            out.append((".pop()", lambda v: v.pop()))
            out.append((".reverse()", lambda v: v.reverse()))
        if len(c) > 1:
            out.append((f"[-1] = {x!r}", lambda v: v.__setitem__(-1, x)))
            out.append(("del [0]", lambda v: v.__delitem__(0)))
            out.append((".clear()", lambda v: v.clear()))
    elif isinstance(c, dict):
        out.append(("['hvmc_extra'] = 1", lambda v: v.__setitem__("hvmc_extra", 1)))
        for k, x in c.items():
            if x is None or isinstance(x, (bool, int, float, str)):
                n = _like(x)
                out.append((f"[{k!r}] = {n!r}", lambda v, k=k, n=n: v.__setitem__(k, n)))
            out.append((f".pop({k!r})", lambda v, k=k: v.pop(k)))
        if len(c) > 1:
            out.append((".clear()", lambda v: v.clear()))
    elif isinstance(c, np.ndarray) and c.ndim == 1 and c.size and c.dtype.kind in "iuf":
        x = _like(0, integer=c.dtype.kind in "iu")
        out.append((f"[0] = {x!r}", lambda v: v.__setitem__(0, x)))
        out.append((f".fill({x!r})", lambda v: v.fill(x)))
        out.append((" += 1", lambda v: np.add(v, 1, out=v)))
        if c.size > 1:
            out.append((f"[-1] = {x!r}", lambda v: v.__setitem__(-1, x)))
            out.append(("[:] = reversed", lambda v: v.__setitem__(slice(None), v[::-1].copy())))
    return out


def _containers(o):
    """Paths of the mutable containers readable through ``o`` (attribute, then at most one dict key)."""
    out = []
    for name, v in public_data(o).items():
        if isinstance(v, (list, dict, np.ndarray)):
            out.append((name,))
            if isinstance(v, dict):
                out += [(name, k) for k, x in v.items() if isinstance(x, (list, dict, np.ndarray))]
    return out


def _at(o, path):
    v = getattr(o, path[0])
    for p in path[1:]:
        v = v[p]
    return v


def _path_text(path):
    return path[0] + "".join(f"[{p!r}]" for p in path[1:])


def _observe(o, fname, with_file=True):
    """What can be seen of a bystander: its data attributes, its attr_dict, the file it saves."""
    out = [snap(o)]
    try:
        out.append(typed(o.attr_dict))
    except Exception as e:      # noqa: BLE001
        out.append(("raised", type(e).__name__))
    if not with_file:
        return tuple(out)
    try:
        o.save(fname)
        with open(fname, "rb") as f:
            out.append(f.read())
    except Exception as e:      # noqa: BLE001
        out.append(("raised", type(e).__name__))
    return tuple(out)


def _make(k, config, source_file):
    """A settings object of class ``k`` made the way ``config`` says (fresh values every time)."""
    if config == "default":
        return CLS[k]()
    if config == "constructed-with-values":
        probe = CLS[k]()
        return CLS[k](**{a: f[0]() for a, f in CONSTRUCT_VALUES.items() if hasattr(probe, a)})
    if config == "loaded-from-one-file":
        o = CLS[k]()
        o.load(source_file[k])
        return o
    return read_settings_object_from_file(source_file[k])


def _inplace_edit(root, ctx, tmp):
    k = root["cls"]
    fname = os.path.join(tmp, "bystander.json")
    restore_defaults()
    source_file = {}
    for k2 in CLASSES:         # one file per class, written once, read by every object of the 'file' configs
        source_file[k2] = os.path.join(tmp, f"source-{k2}.json")
        _make(k2, "constructed-with-values", None).save(source_file[k2])
    for config in ([root["config"]] if root.get("config") else EDIT_CONFIGS):
        # bystanders: (class, how it is made); objects that come from a file are all of the edited
        # object's class (one file per class) and come through both readers
        if config.endswith("one-file"):
            others = [(k, "loaded-from-one-file"), (k, "read-from-one-file")]
        else:
            others = [(k2, config) for k2 in CLASSES]
        proto = _make(k, config, source_file)
        for path in _containers(proto):
            kind = type(_at(proto, path)).__name__
            ctx.count(f"inplace_edit_containers:{k}")
            for ei in range(len(_generic_edits(_at(proto, path)))):
                restore_defaults()
                earlier = {b: _make(b[0], b[1], source_file) for b in others}
                edited = _make(k, config, source_file)
                seen = {b: _observe(o, fname, b[0] == k) for b, o in earlier.items()}
                target = _at(edited, path)
                desc, edit = _generic_edits(target)[ei]
                was = typed(target)
                detail = dict(cls=k, edited_object_made=config,
                              in_place_edit=f"edited.{_path_text(path)}{desc}", container=kind)
                ctx.count("states")
                ctx.count("transitions")
                try:
                    edit(target)
                except Exception:       # noqa: BLE001
                    ctx.violation("C15:harness-error", root, detail=detail, observed=traceback.format_exc()[-1200:],
                                  explanation="an in-place edit of the menu does not apply to this container")
                    continue
                if typed(target) == was:
                    ctx.count("inplace_edits_without_effect")
                    continue
                later = {b: _make(b[0], b[1], source_file) for b in others}
                ctx.count("validated")
                ctx.count("inplace_edit_cases")
                ctx.count(f"inplace_edit_cases:{kind}")
                ctx.outcome(("inplace-edit", k, config, path, desc))
                ctx.nontrivial_case(("inplace-edit", k, config, path, desc))
                for when, group in (("earlier", earlier), ("later", later)):
                    for b, o in group.items():
                        ctx.count("inplace_edit_bystander_comparisons")
                        now = _observe(o, fname, b[0] == k)
                        if now == seen[b]:
                            continue
                        rel = ("same-class" if b[0] == k else "other-class") + "-object-made-" + when
                        attrs_changed = snap_diff(seen[b][0], now[0])
                        old, new = dict(seen[b][0][1][1]), dict(now[0][1][1])
                        ctx.violation(f"C15:inplace-edit:{k}:{_path_text(path)}:{rel}:shares-state", root,
                                      detail=dict(detail, bystander_class=b[0], bystander_made=b[1],
                                                  bystander_made_when=when + " than the edit",
                                                  what_changed=[n for n, x, y in zip(OBSERVABLES, seen[b], now)
                                                                if x != y],
                                                  data_attributes_changed=attrs_changed),
                                      expected={a: untyped(old[a]) for a in attrs_changed if a in old} or
                                      "the same data attributes, attr_dict and saved file as shown by the object "
                                      "made the same way before the edit",
                                      observed={a: untyped(new[a]) for a in attrs_changed if a in new} or
                                      {n: (list(y) if isinstance(y, tuple) and y and y[0] == "raised" else "differs")
                                       for n, x, y in zip(OBSERVABLES, seen[b], now) if x != y},
                                      explanation=f"an in-place edit of {_path_text(path)} of one {k} changed what "
                                                  f"a {b[0]} made {when} ({b[1]}) shows")
    restore_defaults()


LOAD_OVER_CASES = [
    # (attribute held before, its value, attribute saved in the file, its value)
    ("fft_settings", {"n": 4096, "norm": "ortho"}, "fft_settings", {"n": 8192}),
    ("fft_settings", {"n": 4096, "norm": "ortho"}, "fft_settings", None),
    ("fft_settings", {"n": 4096}, "fft_settings", {"norm": "ortho"}),
    ("smoothing", dict(operator="parzen", bandwidth=0.5, center_frequencies_in_hz=[1.0, 2.0], extra_key=1),
     "smoothing", dict(operator="konno_and_ohmachi", bandwidth=40, center_frequencies_in_hz=[3.0, 4.0, 5.0])),
    ("window_type_and_width", ["tukey", 0.9], "window_type_and_width", ["tukey", 0.2]),
    ("filter_corner_frequencies_in_hz", [1.0, 20.0], "filter_corner_frequencies_in_hz", [None, None]),
    ("window_length_in_seconds", 30.0, "window_length_in_seconds", None),
    ("orient_to_degrees_from_north", 40.0, "orient_to_degrees_from_north", None),
    ("detrend", "constant", "detrend", None),
]


def run_root(root, ctx, tier):
    """Explore one root in a forked child so that nothing it does to class defaults survives."""
    if root.get("kind") == "load-over":
        _load_over(root, ctx)
        return
    if root.get("kind") == "construct-from":
        _construct_from(root, ctx)
        return
    r, w = os.pipe()
    pid = os.fork()
    if pid == 0:
        code = 0
        try:
            os.close(r)
            sub = Ctx(PROPERTY, tier, ctx.seed)
            tmp = tempfile.mkdtemp(prefix="hvmc-c15-")
            try:
                if root.get("kind") == "inplace-edit":
                    _inplace_edit(root, sub, tmp)
                else:
                    _explore(root, sub, tier, tmp)
            except Exception:       # noqa: BLE001
                sub.violation("C15:harness-error", root, observed=traceback.format_exc()[-3000:],
                              explanation="the harness (not hvsrpy) raised while exploring this root")
            finally:
                shutil.rmtree(tmp, ignore_errors=True)
            with os.fdopen(w, "wb") as f:
                f.write(pickle.dumps(sub.payload()))
        except BaseException:       # noqa: BLE001
            code = 1
        finally:
            os._exit(code)
    os.close(w)
    with os.fdopen(r, "rb") as f:
        data = f.read()
    _, status = os.waitpid(pid, 0)
    if status != 0 or not data:
        raise RuntimeError(f"child exploring {root} died (status {status})")
    ctx.merge(pickle.loads(data))


def finalize(ctx, tier):
    c = ctx.counters
    for name in ("roundtrips", "proc_results_compared", "other_object_comparisons", "fresh_default_comparisons",
                 "roundtrips_with_a_sequence_of_length_1", "roundtrips_with_a_sequence_of_length_0",
                 "roundtrips_with_an_array_of_size_1", "roundtrips_with_an_array_of_size_0",
                 "construct_from_cases", "load_over_cases",
                 "inplace_edit_cases:list", "inplace_edit_cases:dict", "inplace_edit_cases:ndarray",
                 "inplace_edit_bystander_comparisons"):
        if not c.get(name):
            ctx.violation(f"C15:vacuous:{name}", None, explanation=f"counter {name} is zero: the oracle never ran")
    for k in CLASSES:
        if c.get(f"inplace_edit_containers:{k}", 0) < 2 * len(EDIT_CONFIGS):      # summed over the 4 roots
            ctx.violation(f"C15:vacuous:inplace_edit_containers:{k}", None,
                          observed=c.get(f"inplace_edit_containers:{k}", 0),
                          explanation="fewer than two mutable containers per configuration were found on the "
                                      "objects of this class: the generic discovery does not work")
    if len(ctx.outcomes) < 50:
        ctx.violation("C15:vacuous:outcomes", None, observed=len(ctx.outcomes),
                      explanation="fewer than 50 distinct object contents / processing results were seen")


def describe(tier):
    return dict(
        rule="roots: (one default-constructed object of each of the 8 settings classes) x (each first operation); "
             "BFS over all histories of {New(8 classes), Set(attribute, value menu incl. list/tuple/array/None/"
             "scalar/every registered method and alias name), Mut(in-place element or key assignment), Save, "
             "Load (same class), Read (dispatching reader), Proc((pre)process 2 tiny recordings)} on <= 3 live "
             "objects; states deduplicated on (typed attribute snapshots, aliasing signature, file contents, "
             "freshly constructed defaults); a non-trivial case is a distinct (class, content) that was saved "
             "and read back both ways; every root runs in its own forked process; family construct-from: per class, attribute and in-place edit, an object is built from a value the caller keeps / from another object's attribute / as a sibling from one value, the edit is made through the other holder and the object must not change; "
             "family inplace-edit: per class, for objects made in 4 ways (default-constructed / constructed with "
             "list, dict and array values / loaded from one file / read from that file by the dispatching reader), "
             "EVERY list, dict and 1-d numeric array readable as a data attribute of the object (instance or "
             "class level, found by inspection, not by name - this includes the public bookkeeping list attrs) and "
             "every such container inside a dict-valued attribute is edited in place with every operation of a "
             "menu (list: append, insert, extend, [0]=, [-1]=, pop, del [0], reverse, clear; dict: new key, "
             "each scalar value replaced, each key popped, clear; array: [0]=, [-1]=, fill, += 1, reversed in "
             "place); bystanders = one object of each of the 8 classes made before the edit and one made after "
             "it (for the two file configurations: objects of the same class through both readers); every "
             "bystander must show the same data attributes and attr_dict (same-class bystanders also the same "
             "saved file bytes) as before the edit / as the object made the same way before the edit; "
             "value menus contain sequences of boundary size: one azimuth as array / list / tuple, no azimuth "
             "(empty array), one centre frequency as array / list",
        bounds=dict(depth="2 quick; 3 thorough with the last level restricted to Mut/Save/Load/Read/New",
                    live_objects=MAXOBJ, classes=len(CLASSES),
                    inplace_edit_family="4 configurations x every container x every menu edit x 16 bystanders "
                                        "(both tiers)",
                    sequence_sizes_in_value_menus="0 (azimuths only), 1, 2, 3, 4, 5, 6, 36, 200"),
        exhaustive=True,
        assumptions=["instrument_transfer_function stays None (no JSON form exists for the object)",
                     "hvsrpy_version / processing_method / preprocessing_method are never assigned "
                     "(documented 'should not be changed')",
                     "Load is offered only for a file saved from an object of the same class",
                     "the inplace-edit family claims nothing about the edited object itself (an object whose "
                     "bookkeeping list attrs was edited is not saved or processed); in the BFS attrs is never edited",
                     "a snapshot of an object is every data attribute readable through it: instance attributes "
                     "and public class-level data (no methods, no properties)",
                     "Proc results are compared by bytes of frequency/amplitude (or samples, dt, orientation "
                     "for preprocessing); result meta is C09/C12's subject",
                     "states whose constructor defaults were corrupted are reported and not expanded",
                     "the object returned by the dispatching reader is not processed a second time when its "
                     "class, values and container types are identical to those of the directly loaded object "
                     "whose result was just compared (counter proc_skipped_identical_to_direct_load)",
                     "the azimuthal class processes one 64-sample recording, every other processing class two "
                     "recordings with different time steps, preprocessing two 10 Hz recordings of 130 s / 70 s",
                     "live states are copied with deepcopy (default-argument objects kept by identity); the quick "
                     "tier replays every history from scratch and requires the same state (determinism_replays)"])
