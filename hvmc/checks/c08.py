"""C08 - reported peaks are the highest local maximum inside the search range.

E1: breadth-first search over sequences of range updates applied to real
HvsrCurve / HvsrDiffuseField / HvsrTraditional / HvsrAzimuthal objects.  The
canonical state is (last range, last kwargs); the observation vector holds
every peak, mask and mean-curve peak, so the duplicate-arrival comparison of
the explorer *is* the claim "after every range update all peaks correspond to
that range regardless of history".
"""
import math

import numpy as np

import hvsrpy
from hvsrpy.hvsr_curve import HvsrCurve
from hvsrpy.hvsr_diffuse_field import HvsrDiffuseField
from hvsrpy.hvsr_traditional import HvsrTraditional
from hvsrpy.hvsr_azimuthal import HvsrAzimuthal

from hvmc import alphabets as A
from hvmc.engine import explorer
from hvmc.ref import peaks as RP

PROPERTY = "C08"
DISTS = ("lognormal", "normal")


# ---------------------------------------------------------------------------
# the sandwich oracle

def _cands(freq, v):
    """Indices of samples (almost) equally nearest to v."""
    ds = [abs(f - v) for f in freq]
    m = min(ds)
    scale = max(abs(v), abs(freq[-1] - freq[0]))
    return [i for i, d in enumerate(ds) if d - m <= 1e-12 * scale]


def judge_peak(freq, y, rng, pf, pa):
    """Return a list of (tag, text) problems with the reported peak (pf, pa)."""
    lo_v, hi_v = rng
    n = len(y)
    lo = -1 if lo_v is None else max(_cands(freq, lo_v))
    hi = n if hi_v is None else min(_cands(freq, hi_v))
    maxima = RP.local_maxima(y)
    inside = [(l, r) for (l, r) in maxima if l > lo and r < hi - 1]
    if hi_v is None:
        inside = [(l, r) for (l, r) in maxima if l > lo]
    out = []
    pf_nan = pf is None or (isinstance(pf, float) and math.isnan(pf))
    pa_nan = pa is None or (isinstance(pa, float) and math.isnan(pa))
    if pf_nan or pa_nan:
        if pf_nan != pa_nan:
            out.append(("half-nan", "only one of frequency/amplitude is absent"))
        if inside:
            l, r = max(inside, key=lambda lr: y[lr[0]])
            out.append(("missed", f"no peak reported although samples {l}..{r} "
                                  f"(amplitude {y[l]}) are a local maximum well inside the range"))
        return out
    idx = [i for i, f in enumerate(freq) if f == pf]
    if not idx:
        out.append(("off-grid", f"reported frequency {pf} is not a sample of the curve"))
        return out
    i = idx[0]
    if y[i] != pa:
        out.append(("amplitude", f"reported amplitude {pa} != curve value {y[i]} at {pf} Hz"))
    if not any(l <= i <= r for (l, r) in maxima):
        out.append(("not-local-max", f"sample {i} is not a local maximum of the curve"))
    if lo_v is not None and not pf > lo_v:
        out.append(("outside-low", f"{pf} Hz is not above the lower limit {lo_v}"))
    if hi_v is not None and not pf < hi_v:
        out.append(("outside-high", f"{pf} Hz is not below the upper limit {hi_v}"))
    if inside:
        best = max(y[l] for (l, r) in inside)
        if pa < best:
            out.append(("dominated", f"a local maximum of amplitude {best} inside the range "
                                     f"is higher than the reported {pa}"))
    return out


# ---------------------------------------------------------------------------
# range menu

def range_menu(freq):
    n = len(freq)
    f = freq

    def between(j, t):
        return f[j] + t * (f[j + 1] - f[j])
    below = f[0] - 0.5 * (f[1] - f[0])
    above = f[-1] + 0.5 * (f[-1] - f[-2])
    menu = [
        (None, None),
        (None, f[n - 2]),
        (f[1], None),
        (f[1], f[n - 2]),
        (f[0], f[n - 1]),
        (between(0, 0.4), between(n - 2, 0.6)),
        (between(1, 0.6), between(n - 3, 0.4)),
        (below, above),
        (below, None),
        (None, above),
        (f[1], f[3]),
        (f[2], f[2]),
        (f[n - 2], f[1]),
        (between(2, 0.4), None),
    ]
    # limits in absolute Hz that are THE SAME numbers on every grid with these end points (the 'lin'
    # and 'same' grids share length, first and last sample): an index range remembered from one grid
    # must not be applied to another
    lo_abs, hi_abs = f[0] + 0.27 * (f[-1] - f[0]), f[0] + 0.81 * (f[-1] - f[0])
    menu += [(lo_abs, hi_abs), (lo_abs, None), (None, hi_abs)]
    # a limit of exactly zero is a limit (below every sample), not "no limit"
    menu += [(None, 0.0), (0.0, 0.0), (0.0, None), (0, f[n - 2])]
    return menu


KWARGS = (None, {})
# (an ndarray as the range itself is refused loudly by the early-return comparison - ValueError, ambiguous truth
#  value -; the documented type is a tuple, so only the types of the limits are varied)
RANGE_TYPES = ("tuple-float", "list-float", "np.float64", "np.float32", "np.int64", "np.int32", "int")


def _typed(rng, t):
    """The range with its limits converted to the named type, or None when a limit is not exactly
    representable in that type (the value must stay the same number)."""
    import numpy as _np
    conv = {"tuple-float": float, "list-float": float, "np.float64": _np.float64, "np.float32": _np.float32,
            "np.int64": _np.int64, "np.int32": _np.int32, "int": int}[t]
    out = []
    for v in rng:
        if v is None:
            out.append(None)
            continue
        if t in ("np.int64", "np.int32", "int") and float(v) != int(v):
            return None
        c = conv(v)
        if float(c) != float(v):
            return None
        out.append(c)
    return list(out) if t == "list-float" else tuple(out)


class Holder:
    """Real object plus what the driver did last (the model state)."""
    def __init__(self, obj, kind):
        self.obj = obj
        self.kind = kind
        self.rng = (None, None)
        self.kw = None


def _norm_rng(r):
    return tuple(None if v is None else float(v) for v in r)


class System:
    def __init__(self, root):
        self.root = root
        self.kind = root["kind"]
        F = root["F"] if "F" in root else len(root["values"] if "values" in root else root["rows"][0])
        self.freq = A.GRIDS[root["grid"]](F)
        self.menu_ops = [dict(op="U", rng=list(r), kw=k) for r in range_menu(self.freq)
                         for k in KWARGS]
        # peak options that scipy refuses (ValueError): the call must leave the object exactly as it was
        self.menu_ops += [dict(op="U", rng=list(r), kw={"distance": 0}, refused=True)
                          for r in range_menu(self.freq)[1:4]]
        if self.kind == "azi":
            # a range given to ONE azimuth only, through the member object (the container is updated afterwards
            # by other operations of the menu)
            self.menu_ops += [dict(op="U", rng=list(r), kw=None, member=1) for r in range_menu(self.freq)[1:4]]
        if root.get("typed"):
            # the same limits spelled with every real number type and container a caller may hold them in
            self.menu_ops = [dict(op="U", rng=list(r), kw=None, rtype=t) for r in range_menu(self.freq)
                             for t in RANGE_TYPES if _typed(r, t) is not None]
        if root.get("shared"):
            # one list object owned by the caller, edited in place between calls and passed again
            self.menu_ops = [dict(op="U", rng=list(r), kw=k, shared=True) for r in range_menu(self.freq)
                             for k in ({}, None)]
        off, sc = root.get("amp", (0.0, 1.0))

        def amp(rows):
            return [[off + sc * float(v) for v in row] for row in rows]
        if self.kind in ("curve", "diffuse"):
            self.curves = amp([root["values"]])
        elif self.kind == "trad" and "rows" in root:
            self.curves = amp(root["rows"])             # explicit windows (exhaustive small curves)
        elif self.kind == "trad":
            self.curves = amp(A.curve_set(root["shapes"], F))
        elif self.kind == "azi":
            self.curves_by_az = [amp(A.curve_set(s, F)) for s in root["shapes_by_az"]]

    # --- E1 interface ----------------------------------------------------
    def initial(self, root):
        if self.kind == "curve":
            o = HvsrCurve(self.freq, self.curves[0])
        elif self.kind == "diffuse":
            o = HvsrDiffuseField(self.freq, self.curves[0])
        elif self.kind == "trad":
            o = HvsrTraditional(self.freq, self.curves)
        else:
            hs = [HvsrTraditional(self.freq, c) for c in self.curves_by_az]
            az = [0.0, 90.0, 45.0][:len(hs)]
            o = HvsrAzimuthal(hs, az)
        return Holder(o, self.kind)

    def menu(self, h):
        return self.menu_ops

    def apply(self, h, op):
        rng = tuple(op["rng"])
        kw = op["kw"]
        arg = rng
        if op.get("rtype"):
            arg = _typed(rng, op["rtype"])
        if op.get("shared"):
            if not hasattr(h, "shared_list"):
                h.shared_list = [None, None]
            h.shared_list[0], h.shared_list[1] = rng
            arg = h.shared_list
        if op.get("refused"):
            try:
                h.obj.update_peaks_bounded(search_range_in_hz=arg, find_peaks_kwargs=dict(kw))
            except ValueError:
                h.after_refused = True          # the model state (range, options, member ranges) is unchanged
                return ("raised", "ValueError")
            except Exception as e:      # noqa: BLE001
                h.raised = type(e).__name__
                return ("raised", type(e).__name__)
            h.silent_refused = True
            return None
        h.after_refused = False
        if op.get("member") is not None:
            try:
                h.obj.hvsrs[op["member"]].update_peaks_bounded(search_range_in_hz=arg, find_peaks_kwargs=kw)
            except Exception as e:      # noqa: BLE001
                h.raised = type(e).__name__
                return ("raised", type(e).__name__)
            h.member_rng = dict(getattr(h, "member_rng", {}))
            h.member_rng[op["member"]] = (rng, kw)
            return None
        try:
            h.obj.update_peaks_bounded(search_range_in_hz=arg, find_peaks_kwargs=kw)
        except Exception as e:          # noqa: BLE001 - outcome, judged by the invariant
            h.rng, h.kw = rng, kw
            h.raised = type(e).__name__
            return ("raised", type(e).__name__)
        h.rng, h.kw = rng, kw
        h.member_rng = {}
        return None

    def canon(self, h):
        members = tuple(sorted((k, _norm_rng(v[0])) for k, v in getattr(h, "member_rng", {}).items()))
        return (_norm_rng(h.rng), None if h.kw is None else "{}", members,
                bool(getattr(h, "after_refused", False)), bool(getattr(h, "silent_refused", False)))

    def _trad_obs(self, t):
        return (tuple(np.asarray(t.valid_window_boolean_mask).tolist()),
                tuple(np.asarray(t.valid_peak_boolean_mask).tolist()),
                tuple(_f(v) for v in t.peak_frequencies),
                tuple(_f(v) for v in t.peak_amplitudes),
                tuple(_mcp(t, d) for d in DISTS))

    def observe(self, h):
        # find_peaks_kwargs None and {} must be observably the same.
        o = h.obj
        if self.kind in ("curve", "diffuse"):
            return (_f(o.peak_frequency), _f(o.peak_amplitude))
        if self.kind == "trad":
            return self._trad_obs(o)
        return (tuple(self._trad_obs(t) for t in o.hvsrs), tuple(_mcp(o, d) for d in DISTS))

    # --- invariant ---------------------------------------------------------
    def invariant(self, h, hist, ctx, root):
        o = h.obj
        rng = h.rng
        if getattr(h, "raised", None):
            ctx.violation(f"C08:{self.kind}:update_peaks_bounded-raises", root,
                          detail=dict(hist=list(hist)), observed=h.raised,
                          explanation="update_peaks_bounded raised")
            return
        if getattr(h, "silent_refused", False):
            ctx.violation(f"C08:{self.kind}:refused-peak-options:accepted-without-a-search", root,
                          detail=dict(hist=list(hist)),
                          explanation="update_peaks_bounded returned normally for peak options that scipy refuses: "
                                      "no peak can have been evaluated for the range given")
            return
        if getattr(h, "after_refused", False):
            ctx.count("states_after_a_refused_update")
            recorded = [getattr(t, "_search_range_in_hz", None) for t in
                        ([o] if self.kind != "azi" else list(o.hvsrs))]
            want = [_norm_rng(getattr(h, "member_rng", {}).get(i, (rng,))[0]) for i in range(len(recorded))]
            got = [None if r is None else _norm_rng(r) for r in recorded]
            if got != want:
                ctx.violation(f"C08:{self.kind}:refused-update:object-records-the-refused-range", root,
                              detail=dict(hist=list(hist)), expected=want, observed=got,
                              explanation="after update_peaks_bounded raised (peak options refused by scipy) the "
                                          "object records the range of the refused call although its peaks are "
                                          "those of the range before")
        ctx.count("validated")
        if self.kind in ("curve", "diffuse"):
            y = self.curves[0]
            self._judge(ctx, root, hist, f"{self.kind}:peak", y, rng,
                        o.peak_frequency, o.peak_amplitude)
            ctx.outcome(("curve", _f(o.peak_frequency)))
            if self.kind == "diffuse":
                # range is an argument of mean_curve_peak
                for r2 in (rng,):
                    try:
                        pf, pa = o.mean_curve_peak(search_range_in_hz=r2, find_peaks_kwargs=h.kw)
                    except ValueError:
                        pf, pa = float("nan"), float("nan")
                    self._judge(ctx, root, hist, "diffuse:mean_curve_peak", y, r2, pf, pa)
                    if not (_f(pf) == _f(o.peak_frequency) and _f(pa) == _f(o.peak_amplitude)):
                        ctx.violation("C08:diffuse:mean_curve_peak-vs-peak", root,
                                      detail=dict(hist=list(hist)),
                                      expected=[_f(o.peak_frequency), _f(o.peak_amplitude)],
                                      observed=[_f(pf), _f(pa)],
                                      explanation="diffuse-field mean_curve_peak(range) differs from "
                                                  "the peak after update_peaks_bounded(range)")
                # the range argument omitted = the documented default (None, None), whatever range the object
                # was last updated with
                try:
                    pf, pa = o.mean_curve_peak()
                except ValueError:
                    pf, pa = float("nan"), float("nan")
                self._judge(ctx, root, hist, "diffuse:mean_curve_peak:range-omitted", y, (None, None), pf, pa)
            return
        trads = [o] if self.kind == "trad" else list(o.hvsrs)
        csets = [self.curves] if self.kind == "trad" else self.curves_by_az
        rng_all, kw_all = rng, h.kw
        for ai, (t, cs) in enumerate(zip(trads, csets)):
            rng, kw_here = getattr(h, "member_rng", {}).get(ai, (rng_all, kw_all))
            vp = np.asarray(t.valid_peak_boolean_mask)
            pfs = list(t.peak_frequencies)
            pas = list(t.peak_amplitudes)
            if len(pfs) != int(vp.sum()):
                ctx.violation(f"C08:{self.kind}:peak-vector-length", root, detail=dict(hist=list(hist)),
                              explanation="peak_frequencies length != number of valid peaks")
                continue
            rank = 0
            for wi, y in enumerate(cs):
                if vp[wi]:
                    pf, pa = float(pfs[rank]), float(pas[rank])
                    rank += 1
                else:
                    pf, pa = float("nan"), float("nan")
                    raw = getattr(t, "_main_peak_frq", None)
                    if raw is not None and not math.isnan(float(raw[wi])):
                        # a window with a peak that is masked out right after a
                        # range update: the update did not re-evaluate it.
                        ctx.violation(f"C08:{self.kind}:peak-masked-after-update", root,
                                      detail=dict(hist=list(hist), window=wi, azimuth=ai),
                                      explanation="window has a stored peak but is excluded from the "
                                                  "resonance statistics right after a range update")
                if vp[wi] and math.isnan(pf):
                    ctx.violation(f"C08:{self.kind}:nan-peak-in-statistics", root,
                                  detail=dict(hist=list(hist), window=wi, azimuth=ai),
                                  explanation="a window without peak enters the resonance statistics")
                self._judge(ctx, root, hist, f"{self.kind}:window-peak", y, rng, pf, pa,
                            extra=dict(window=wi, azimuth=ai))
                # consistency with a single curve object
                c = HvsrCurve(self.freq, y)
                c.update_peaks_bounded(search_range_in_hz=rng, find_peaks_kwargs=kw_here)
                if not (_f(c.peak_frequency) == _f(pf) and _f(c.peak_amplitude) == _f(pa)):
                    ctx.violation(f"C08:{self.kind}:window-vs-HvsrCurve", root,
                                  detail=dict(hist=list(hist), window=wi, azimuth=ai),
                                  expected=[_f(c.peak_frequency), _f(c.peak_amplitude)],
                                  observed=[_f(pf), _f(pa)],
                                  explanation="peak of a window differs from HvsrCurve on the same "
                                              "curve and range")
                ctx.outcome(("w", _f(pf)))
            # mean-curve peak of this object with the current range
            self._judge_mean(ctx, root, hist, t, rng, f"{self.kind}:az{ai}")
        if self.kind == "azi" and not getattr(h, "member_rng", {}):
            self._judge_mean(ctx, root, hist, o, rng_all, "azi:all")

    def _judge_mean(self, ctx, root, hist, t, rng, tag):
        for d in DISTS:
            try:
                mc = [float(v) for v in t.mean_curve(d)]
            except Exception:           # noqa: BLE001 - no accepted window: outside the quantifier
                ctx.count("mean_curve_unavailable")
                continue
            try:
                pf, pa = t.mean_curve_peak(d)
                pf, pa = float(pf), float(pa)
            except ValueError:
                pf, pa = float("nan"), float("nan")
            self._judge(ctx, root, hist, f"{tag}:mean_curve_peak", mc, rng, pf, pa,
                        extra=dict(distribution=d))

    def _judge(self, ctx, root, hist, site, y, rng, pf, pa, extra=None):
        ctx.count("peaks_judged")
        for tag, text in judge_peak(self.freq, y, rng, None if pf is None else float(pf),
                                    None if pa is None else float(pa)):
            ctx.violation(f"C08:{site}:{tag}", root,
                          detail=dict(hist=list(hist), range=list(rng), curve=y, **(extra or {})),
                          observed=[_f(pf), _f(pa)], explanation=text)


class PairSystem:
    """Two LIVE objects with the same curve values on two grids that share length and end points; every range
    update is applied to one and right after it to the other (both orders), with limits that are the same
    numbers in Hz on both grids.  Each object is judged with its own grid."""

    def __init__(self, root):
        self.root = root
        self.subs = [System(dict(root, grid=g, pair=None)) for g in root["pair"]]
        keep = []
        for op in self.subs[0].menu_ops:
            r = tuple(op["rng"])
            if op.get("refused") or op.get("member") is not None or op.get("rtype") or op.get("shared"):
                continue
            if any(tuple(o["rng"]) == r and o["kw"] == op["kw"] for o in self.subs[1].menu_ops
                   if not (o.get("refused") or o.get("member") is not None)):
                keep.append(op)
        self.menu_ops = [dict(op, order=order) for op in keep for order in ((0, 1), (1, 0))]

    def initial(self, root):
        return [sub.initial(root) for sub in self.subs]

    def menu(self, hs):
        return self.menu_ops

    def apply(self, hs, op):
        out = None
        for i in op["order"]:
            out = self.subs[i].apply(hs[i], {k: v for k, v in op.items() if k != "order"}) or out
        return out

    def canon(self, hs):
        return tuple(sub.canon(h) for sub, h in zip(self.subs, hs))

    def observe(self, hs):
        return tuple(sub.observe(h) for sub, h in zip(self.subs, hs))

    def invariant(self, hs, hist, ctx, root):
        for sub, h in zip(self.subs, hs):
            sub.invariant(h, hist, ctx, root)


def _f(v):
    if v is None:
        return "nan"
    v = float(v)
    return "nan" if math.isnan(v) else v


def _mcp(t, d):
    try:
        pf, pa = t.mean_curve_peak(d)
        return (_f(pf), _f(pa))
    except Exception as e:          # noqa: BLE001
        return ("raised", type(e).__name__)


# ---------------------------------------------------------------------------
# runner interface

def roots(tier, seed):
    out = []
    if tier == "quick":
        for vals in A.all_curves(6, (1, 2, 3)):
            out.append(dict(kind="curve", grid="lin", values=vals, depth=1))
        for vals in A.all_curves(5, (1, 2, 3)):
            out.append(dict(kind="diffuse", grid="geo", values=vals, depth=2))
        sets = A.curve_set_roots([3], 7, A.REDUCED_SHAPES)
        for r in sets:
            out.append(dict(kind="trad", depth=2, **r))
        for s in (["p2", "twopk", "up"], ["p4", "flat", "plateau"], ["tie", "p3", "down"]):
            out.append(dict(kind="azi", grid="lin", F=7, depth=2,
                            shapes_by_az=[s, list(reversed(s))]))
        # objects on two different grids with equal length and end points, in both orders
        peaked = [v for v in A.all_curves(6, (1, 2, 3)) if RP.local_maxima(v)]
        for vals in peaked[::4]:
            out.append(dict(kind="curve", grid="lin", grids=["lin", "same"], values=vals, depth=1))
        for vals in peaked[1::8]:
            out.append(dict(kind="diffuse", grid="lin", grids=["same", "lin"], values=vals, depth=1))
        for s in (["p2", "twopk", "up"], ["p4", "p1", "plateau"], ["p3", "q3", "p4"]):
            out.append(dict(kind="trad", grid="lin", grids=["lin", "same"], F=7, shapes=s, depth=1))
            out.append(dict(kind="trad", grid="lin", grids=["same", "lin"], F=7, shapes=s, depth=1))
        out += _extra_roots(peaked[::16], [["p2", "twopk", "up"]], [["p4", "flat", "plateau"]])
        # two live objects on two grids with equal length and end points, updated one right after the other
        for vals in peaked[::8]:
            out.append(dict(kind="curve", grid="lin", pair=["lin", "same"], values=vals, depth=1))
        for vals in peaked[3::24]:
            out.append(dict(kind="diffuse", grid="lin", pair=["same", "lin"], values=vals, depth=1))
        for s in (["p3", "q3", "p4"], ["p2", "twopk", "up"]):
            out.append(dict(kind="trad", grid="lin", pair=["lin", "same"], F=7, shapes=s, depth=1))
        # every small curve also as a WINDOW of a traditional result (three per object), long plateaus included
        allc = A.all_curves(7, (1, 2, 3))
        for k in range(0, len(allc) - 2, 27):
            out.append(dict(kind="trad", grid="lin", rows=[allc[k], allc[(k * 7 + 5) % len(allc)], allc[-1 - k]], depth=1))
    else:
        for g in ("lin", "geo"):
            for vals in A.all_curves(7, (1, 2, 3)):
                out.append(dict(kind="curve", grid=g, values=vals, depth=2))
            for vals in A.all_curves(6, (1, 2, 3)):
                out.append(dict(kind="diffuse", grid=g, values=vals, depth=2))
        for r in A.curve_set_roots([2, 3], 7, A.FULL_SHAPES_7[:9] + ["up", "flat"], grids=("lin",)):
            out.append(dict(kind="trad", depth=2, **r))
        for r in A.curve_set_roots([4], 7, A.REDUCED_SHAPES, grids=("lin", "geo")):
            out.append(dict(kind="trad", depth=3, **r))
        peaked = [v for v in A.all_curves(7, (1, 2, 3)) if RP.local_maxima(v)]
        for vals in peaked:
            out.append(dict(kind="curve", grid="lin", grids=["lin", "same"], values=vals, depth=1))
        for vals in peaked[::3]:
            out.append(dict(kind="curve", grid="lin", grids=["same", "lin"], values=vals, depth=2))
        for r in A.curve_set_roots([3], 7, A.REDUCED_SHAPES, grids=("lin",)):
            out.append(dict(kind="trad", depth=1, grids=["lin", "same"], **r))
            out.append(dict(kind="trad", depth=1, grids=["same", "lin"], **r))
        import itertools
        trip = [["p2", "twopk", "up"], ["p4", "flat", "plateau"], ["tie", "p3", "down"],
                ["twopk_r", "q3", "p1"], ["flat", "up", "down"]]
        for a, b in itertools.product(trip, repeat=2):
            out.append(dict(kind="azi", grid="lin", F=7, depth=3, shapes_by_az=[a, b]))
        out += _extra_roots(peaked[::5], trip[:3], trip[:3])
        for vals in peaked[::2]:
            out.append(dict(kind="curve", grid="lin", pair=["lin", "same"], values=vals, depth=2))
        for vals in peaked[1::6]:
            out.append(dict(kind="diffuse", grid="lin", pair=["same", "lin"], values=vals, depth=2))
        for r in A.curve_set_roots([3], 7, A.REDUCED_SHAPES + ["p3"], grids=("lin",)):
            out.append(dict(kind="trad", pair=["lin", "same"], depth=1, **r))
        allc = A.all_curves(7, (1, 2, 3))
        for k in range(0, len(allc) - 2, 3):
            out.append(dict(kind="trad", grid="lin", rows=allc[k:k + 3], depth=1))
    return out


# a ripple of a few parts per million on a level of 2, amplitudes of order 1e-9 and of order 1e12:
# which sample is a local maximum does not depend on the size of the differences
AMPS = ((2.0, 1e-6), (0.0, 1e-9), (0.0, 1e12))


def _extra_roots(values, trad_sets, azi_sets):
    out = []
    for amp in AMPS:
        for vals in values:
            out.append(dict(kind="curve", grid="lin", values=vals, depth=1, amp=list(amp)))
            out.append(dict(kind="diffuse", grid="geo", values=vals, depth=1, amp=list(amp)))
        for s in trad_sets:
            out.append(dict(kind="trad", grid="lin", F=7, shapes=s, depth=1, amp=list(amp)))
        for s in azi_sets:
            out.append(dict(kind="azi", grid="lin", F=7, depth=1, shapes_by_az=[s, list(reversed(s))],
                            amp=list(amp)))
    for vals in values[:6]:
        out.append(dict(kind="curve", grid="lin", values=vals, depth=1, typed=True))
        out.append(dict(kind="diffuse", grid="lin", values=vals, depth=1, typed=True))
        out.append(dict(kind="curve", grid="lin", values=vals, depth=2, shared=True))
    for s in trad_sets:
        out.append(dict(kind="trad", grid="lin", F=7, shapes=s, depth=1, typed=True))
        out.append(dict(kind="trad", grid="lin", F=7, shapes=s, depth=2, shared=True))
    for s in azi_sets:
        out.append(dict(kind="azi", grid="lin", F=7, depth=1, shapes_by_az=[s, list(reversed(s))], typed=True))
        out.append(dict(kind="azi", grid="lin", F=7, depth=2, shapes_by_az=[s, list(reversed(s))], shared=True))
    return out


def run_root(root, ctx, tier):
    if root.get("grids"):
        # the same object data on several grids, one after the other in the same process
        for g in root["grids"]:
            sub = dict(root, grid=g)
            del sub["grids"]
            run_root(sub, ctx, tier)
        return
    sysm = PairSystem(root) if root.get("pair") else System(root)
    explorer.bfs(sysm, root, root["depth"], ctx, key_prefix=f"C08:{root['kind']}",
                 check_determinism=False, touch=True)   # peaks are read after every range update
    ctx.nontrivial_case(("root", root.get("values") or root.get("shapes") or root.get("shapes_by_az") or root.get("rows"),
                         root["grid"], root["kind"]))
    if ctx.counters["roots"] % 400 == 0:
        ctx.sample(dict(root=root, ranges=[list(r) for r in range_menu(sysm.freq)][:4]))


def describe(tier):
    return dict(
        rule="roots: every curve over {1,2,3} of length 6 (quick) / 7 (thorough) as HvsrCurve, "
             "length 5/6 as HvsrDiffuseField, products of named shapes as HvsrTraditional and "
             "2-azimuth HvsrAzimuthal; BFS over all sequences of update_peaks_bounded from a menu "
             "of 21 ranges x 2 kwargs up to the root's depth; further roots apply an amplitude transform (2 + 1e-6 v, "
             "1e-9 v, 1e12 v), spell the limits of every range with every real number type (float, int, np.float64, "
             "np.float32, np.int64, np.int32; tuple or list) or drive all range updates of a history through ONE "
             "caller-owned list that is edited in place between calls; a root is non-trivial/distinct by its "
             "(kind, grid, curve values/shapes)",
        bounds=dict(depth="1-2 quick, 2-3 thorough", ranges=21, kwargs=2, amplitude_transforms=[list(a) for a in AMPS], limit_types=list(RANGE_TYPES)),
        exhaustive=True,
        assumptions=["peaks adjacent to a range limit may or may not be candidates (weakest reading)",
                     "position within a flat-topped peak is not pinned"])


_describe_base = describe


def describe(tier):     # noqa: F811 - the base description plus what later rounds added to the space
    d = _describe_base(tier)
    d["rule"] = d["rule"] + " " + 'Further operations: peak options that scipy refuses (the object must stay as it was: recorded range == model range, no silent return), range updates given to azimuth 1 through the member object (per-member range model). Further roots: every curve over {1,2,3}^7 as a window of a traditional result (three per object; every third group in quick: one in 27), and pairs of live objects on the grids lin / same-ends (PairSystem: each update applied to both objects, either order). In every diffuse-field state mean_curve_peak() with the range omitted is judged against the documented default range (None, None).'
    return d
