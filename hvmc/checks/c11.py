"""C11 - azimuthal statistics give every azimuth equal weight (Cheng et al. 2020).

E1: BFS over histories of per-azimuth manual rejections, range updates,
frequency-domain rejections and time-domain (maximum value) rejections on a
real HvsrAzimuthal; in every reachable state inside the quantifier (every
azimuth has an accepted window, every accepted window has a peak) every
accessor is compared with the Cheng-weighted textbook estimators (math.fsum)
and with the reductions the statement lists.
"""
import itertools
import math

import numpy as np

import hvsrpy
from hvsrpy.hvsr_curve import HvsrCurve
from hvsrpy.hvsr_traditional import HvsrTraditional
from hvsrpy.hvsr_azimuthal import HvsrAzimuthal

from hvmc import alphabets as A
from hvmc.engine import explorer
from hvmc.engine.core import close
from hvmc.ref import stats as RS
from hvmc.checks.c05 import make_records, _call, _nonan, _same, _reuse_dict, ACCESSORS

PROPERTY = "C11"
DISTS = ("lognormal", "normal", "log-normal")      # the third is the registered alias spelling
RTOL = 1e-9
AZ_VALUES = [0.0, 60.0, 120.0]


def _f(v):
    v = float(v)
    return "nan" if math.isnan(v) else v


class Holder:
    def __init__(self, obj):
        self.obj = obj
        self.rng = (None, None)
        self.kw = None


class System:
    def __init__(self, root):
        self.root = root
        F = root["F"]
        self.freq = A.GRIDS[root["grid"]](F)
        # ``near``: very repeatable windows, scaled by 1 + w * step with steps of 1.9 and 2.9 ppm: the spread is a
        # small difference of large numbers, the reference is compared at a tolerance that allows for that
        # conditioning (mean/std ~ 1e6)
        many = root.get("many")
        if many:
            # a fine azimuth sweep with many windows per azimuth: azimuths x accepted windows exceeds 2**16
            nA_, W_ = many
            pool = ["p2", "p3", "p4", "twopk", "q3"]
            root = dict(root, shapes_by_az=[[pool[(a + w) % 5] for w in range(W_)] for a in range(nA_)],
                        az_values=[round(a * 180.0 / nA_, 6) for a in range(nA_)])
            self.root = root
        near = root.get("near")
        self.csets = [A.curve_set(s, F, scale_step=(2.0 ** -19 + ai * 2.0 ** -20) if near else
                                   (2.0 ** -6 + ai * 2.0 ** -12) if many else 0.125 + 0.0625 * ai)
                      for ai, s in enumerate(root["shapes_by_az"])]
        self.rtol = 1e-6 if near else RTOL
        if root.get("rows_by_az"):          # explicit windows instead of named shapes
            self.csets = [[list(map(float, r)) for r in rows] for rows in root["rows_by_az"]]
        self.nA = len(self.csets)
        self.W = len(self.csets[0])
        f = self.freq
        if many:
            # the weights differ between azimuths only when their accepted counts differ: a few manual rejections
            self.ops = [dict(op="M", az=0, i=1), dict(op="M", az=0, i=5), dict(op="M", az=3, i=7),
                        dict(op="M", az=self.nA - 1, i=self.W - 1)][:root.get("many_ops", 4)]
            return
        ops = []
        for a in range(self.nA):
            for i in range(self.W):
                ops.append(dict(op="M", az=a, i=i))
        if root.get("reaccept"):
            for a in range(self.nA):
                for i in range(self.W):
                    ops.append(dict(op="A", az=a, i=i))     # manual re-acceptance (masks set by hand)
            # a compound manual edit: reject one window and re-accept one on ANOTHER azimuth in one
            # step - the total number of accepted windows stays, their split over the azimuths changes
            for a in range(self.nA):
                for b in range(self.nA):
                    if a != b:
                        for i in range(self.W):
                            for j in range(self.W):
                                ops.append(dict(op="X", az=a, i=i, az2=b, j=j))
        if root.get("swap_same_azimuth"):
            # reject one window and re-accept another ON THE SAME azimuth: every per-azimuth count stays
            for a in range(self.nA):
                for i in range(self.W):
                    for j in range(self.W):
                        if i != j:
                            ops.append(dict(op="X", az=a, i=i, az2=a, j=j))
        for r in ((None, None), (f[1], f[F - 2]), (None, f[3]), (f[2], None)):
            ops.append(dict(op="U", rng=list(r)))
        ops.append(dict(op="U", rng=[None, None], kw={"height": [None, 3.6]}))
        # a range update whose peak options scipy refuses (ValueError): the object must stay as it was
        ops.append(dict(op="U", rng=[f[1], f[F - 2]], kw={"distance": 0}))
        for n in (0.5, 1, 2):
            for d in ("lognormal", "normal"):
                ops.append(dict(op="F", n=n, dfn=d, dmc=d, rng=[None, None]))
        ops.append(dict(op="F", n=1, dfn="lognormal", dmc="lognormal", rng=[f[1], f[F - 2]]))
        ops.append(dict(op="F", n=2, dfn="normal", dmc="lognormal", rng=[None, f[F - 2]]))
        for m in itertools.product((True, False), repeat=self.W):
            if sum(m) >= 1 and not all(m):
                ops.append(dict(op="T", mask=list(m)))
        if root.get("ops_subset") == "MA":
            ops = [op for op in ops if op["op"] in ("M", "A", "X")]
        self.ops = ops

    def _make(self, csets, az=None):
        hs = [HvsrTraditional(self.freq, c) for c in csets]
        # ``az_values``: the azimuth VALUES of the root (two entries may carry the same value, 0 and 180 may both
        # be present): every entry is an azimuth of its own and gets the weight 1 / number of entries
        vals = self.root.get("az_values")
        if az is None and vals:
            az = list(vals)[:len(hs)]
        elif az is not None and vals:
            az = [vals[a] if isinstance(a, int) else vals[AZ_VALUES.index(a)] for a in az]
        return HvsrAzimuthal(hs, az or AZ_VALUES[:len(hs)])

    def initial(self, root):
        return Holder(self._make(self.csets))

    def menu(self, h):
        return self.ops

    def apply(self, h, op):
        o = h.obj
        manual = op["op"] in ("M", "A", "X")
        before = [(np.array(t.valid_window_boolean_mask, dtype=bool), np.array(t.valid_peak_boolean_mask, dtype=bool))
                  for t in o.hvsrs] if manual else None
        out = self._apply(h, op)
        if manual:
            # model of a manual edit: exactly the addressed entries change, on the addressed azimuth only
            touched = {(op["az"], op["i"])} | ({(op["az2"], op["j"])} if op["op"] == "X" else set())
            for ai, (t, (vw0, vp0)) in enumerate(zip(o.hvsrs, before)):
                for name, m0 in (("valid_window_boolean_mask", vw0), ("valid_peak_boolean_mask", vp0)):
                    m1 = np.asarray(getattr(t, name), dtype=bool)
                    other = [i for i in range(self.W) if (ai, i) not in touched and bool(m0[i]) != bool(m1[i])]
                    if other:
                        h.bad = dict(op=op, azimuth=ai, mask=name, entries_changed=other,
                                     before=m0.tolist(), after=m1.tolist())
        return out

    def _apply(self, h, op):
        o = h.obj
        try:
            if op["op"] == "M":
                t = o.hvsrs[op["az"]]
                t.valid_window_boolean_mask[op["i"]] = False
                t.valid_peak_boolean_mask[op["i"]] = False
            elif op["op"] == "X":
                t, t2 = o.hvsrs[op["az"]], o.hvsrs[op["az2"]]
                t.valid_window_boolean_mask[op["i"]] = False
                t.valid_peak_boolean_mask[op["i"]] = False
                if not math.isnan(float(t2._main_peak_frq[op["j"]])):
                    t2.valid_window_boolean_mask[op["j"]] = True
                    t2.valid_peak_boolean_mask[op["j"]] = True
            elif op["op"] == "A":
                t = o.hvsrs[op["az"]]
                if not math.isnan(float(t._main_peak_frq[op["i"]])):
                    t.valid_window_boolean_mask[op["i"]] = True
                    t.valid_peak_boolean_mask[op["i"]] = True
            elif op["op"] == "U":
                kw = None if op.get("kw") is None else dict(op["kw"])
                try:
                    o.update_peaks_bounded(search_range_in_hz=tuple(op["rng"]), find_peaks_kwargs=kw)
                finally:
                    _reuse_dict(kw)
                h.rng, h.kw = tuple(op["rng"]), op.get("kw")
            elif op["op"] == "F":
                h.rng, h.kw = tuple(op["rng"]), None
                with np.errstate(all="ignore"):
                    hvsrpy.frequency_domain_window_rejection(o, n=op["n"], distribution_fn=op["dfn"],
                                                             distribution_mc=op["dmc"],
                                                             search_range_in_hz=tuple(op["rng"]))
            elif op["op"] == "T":
                hvsrpy.maximum_value_window_rejection(make_records(op["mask"]), maximum_value_threshold=1.0,
                                                      normalized=False, hvsr=o)
        except Exception as e:      # noqa: BLE001
            return ("raised", type(e).__name__)
        return None

    def _masks(self, o):
        return [(np.asarray(t.valid_window_boolean_mask, dtype=bool).tolist(),
                 np.asarray(t.valid_peak_boolean_mask, dtype=bool).tolist()) for t in o.hvsrs]

    def canon(self, h):
        o = h.obj
        return (tuple((tuple(vw), tuple(vp)) for vw, vp in self._masks(o)),
                tuple(None if v is None else float(v) for v in h.rng),
                repr(h.kw or None),
                tuple(tuple(_f(v) for v in t._main_peak_frq) for t in o.hvsrs),
                # the range the object itself has recorded (differs from the driver's only after a refused update)
                tuple(tuple(None if v is None else float(v) for v in (t._search_range_in_hz or ())) for t in o.hvsrs),
                repr(o.meta.get("search_range_in_hz")))

    def observe(self, h):
        return tuple(_nonan(_call(h.obj, name, args, d)) for d in DISTS for name, args in ACCESSORS)

    def _peaks(self, h):
        out = []
        for cs in self.csets:
            row = []
            for y in cs:
                c = HvsrCurve(self.freq, y)
                c.update_peaks_bounded(search_range_in_hz=h.rng, find_peaks_kwargs=h.kw)
                row.append((float(c.peak_frequency), float(c.peak_amplitude)))
            out.append(row)
        return out

    # ---- invariant ---------------------------------------------------------
    def invariant(self, h, hist, ctx, root):
        o = h.obj
        if getattr(h, "bad", None):
            ctx.violation("C11:manual-edit-changes-other-window-or-azimuth", root,
                          detail=dict(hist=list(hist), **h.bad),
                          explanation="rejecting / re-accepting one window on one azimuth by hand changed the "
                                      "accept state of another window or azimuth (the azimuths share storage)")
        masks = self._masks(o)
        peaks = self._peaks(h)
        inside = True
        for (vw, vp), pk in zip(masks, peaks):
            if sum(vw) < 1 or vw != vp:
                inside = False
            if any(vw[i] and math.isnan(pk[i][0]) for i in range(self.W)):
                inside = False
        if not inside:
            ctx.count("states_outside_quantifier")
            return
        ctx.count("validated")
        ctx.outcome([vw for vw, _ in masks])
        counts = [sum(vw) for vw, _ in masks]
        weights, fs, am, rows = [], [], [], []
        for (vw, vp), pk, cs in zip(masks, peaks, self.csets):
            n = sum(vw)
            for i in range(self.W):
                if vw[i]:
                    weights.append(1.0 / (self.nA * n))
                    fs.append(pk[i][0])
                    am.append(pk[i][1])
                    rows.append(cs[i])
        spread_defined = 1.0 - math.fsum(w * w for w in weights) > 1e-12
        equal_counts = len(set(counts)) == 1
        cls = "equal-counts" if equal_counts else "unequal-counts"
        trad = None
        if self.nA == 1:
            trad = HvsrTraditional(self.freq, self.csets[0])
            trad.update_peaks_bounded(search_range_in_hz=h.rng, find_peaks_kwargs=h.kw)
            trad.valid_window_boolean_mask = np.array(masks[0][0])
            trad.valid_peak_boolean_mask = np.array(masks[0][1])
        big = bool(self.root.get("many"))      # 65792 windows: the weights are what this root is about
        permuted = self._rebuilt(h, masks, list(reversed(range(self.nA)))) if self.nA > 1 and not big else None
        fresh = self._fresh(h, masks) if not big else None
        zero_in_accepted = any(v == 0.0 for r in rows for v in r)
        for d in (DISTS[:2] if big else DISTS):
            exp = {}
            exp["mean_fn_frequency"] = RS.wmean(fs, weights, d)
            exp["mean_fn_amplitude"] = RS.wmean(am, weights, d)
            curves_defined = not (d != "normal" and zero_in_accepted)    # log(0): outside the estimator's domain
            if not curves_defined:
                ctx.count("lognormal_curves_skipped_zero_amplitude_accepted")
            if curves_defined:
                exp["mean_curve"] = [RS.wmean([r[j] for r in rows], weights, d) for j in range(len(self.freq))]
            if spread_defined:
                exp["std_fn_frequency"] = RS.wstd(fs, weights, d)
                exp["std_fn_amplitude"] = RS.wstd(am, weights, d)
                exp["cov_fn"] = RS.wcov(fs, am, weights, d)
                for n in (-1, 1, 2.5):
                    exp[f"nth_std_fn_frequency({n})"] = RS.wnth_std(n, fs, weights, d)
                    exp[f"nth_std_fn_amplitude({n})"] = RS.wnth_std(n, am, weights, d)
                if curves_defined:
                    exp["std_curve"] = [RS.wstd([r[j] for r in rows], weights, d) for j in range(len(self.freq))]
                    for n in (-1, 1, 2):
                        exp[f"nth_std_curve({n})"] = [RS.wnth_std(n, [r[j] for r in rows], weights, d)
                                                      for j in range(len(self.freq))]
            got_all = {}
            for name, args in ACCESSORS:
                label = name if not args else f"{name}({args[0]})"
                if label not in exp:
                    continue
                got = _call(o, name, args, d)
                got_all[label] = got
                ctx.count("accessor_comparisons")
                if isinstance(got, tuple) and got and got[0] == "raised":
                    ctx.violation(f"C11:{name}:{d}:{cls}:raises", root,
                                  detail=dict(hist=list(hist), accessor=label, masks=masks),
                                  expected=exp[label], observed=got,
                                  explanation=f"{label}({d!r}) raised inside the quantifier")
                    continue
                if not close(got, exp[label], rtol=self.rtol, atol=1e-12):
                    ctx.violation(f"C11:{name}:{d}:{cls}:cheng-weights", root,
                                  detail=dict(hist=list(hist), accessor=label, distribution=d, masks=masks),
                                  expected=exp[label], observed=got,
                                  explanation=f"{label}({d!r}) differs from the estimator with weights "
                                              f"1/(azimuths x accepted windows of the azimuth)")
                for other, okey, what in ((trad, "single-azimuth-vs-traditional", "HvsrTraditional on the same data"),
                                          (permuted, "azimuth-order", "the same object with azimuths reversed"),
                                          (fresh, "fresh-from-accepted", "an object built from the accepted windows only")):
                    if other is None:
                        continue
                    g2 = _call(other, name, args, d)
                    tol = 1e-12 if okey != "single-azimuth-vs-traditional" else 1e-9
                    if not (close(got, g2, rtol=tol, atol=1e-13) if not _israised(got) and not _israised(g2)
                            else _same(got, g2)):
                        ctx.violation(f"C11:{name}:{d}:{okey}", root,
                                      detail=dict(hist=list(hist), accessor=label, distribution=d, masks=masks),
                                      expected=g2, observed=got,
                                      explanation=f"{label}({d!r}) differs from {what}")
            # mean == plain average over azimuths of the per-azimuth means
            per_az = []
            for (vw, vp), pk in zip(masks, peaks):
                per_az.append(RS.mean([pk[i][0] for i in range(self.W) if vw[i]], d))
            avg = (math.exp(math.fsum(math.log(v) for v in per_az) / self.nA) if d != "normal"
                   else math.fsum(per_az) / self.nA)
            g = got_all.get("mean_fn_frequency")
            if g is not None and not _israised(g) and not close(g, avg, rtol=RTOL):
                ctx.violation(f"C11:mean_fn_frequency:{d}:average-of-azimuth-means", root,
                              detail=dict(hist=list(hist), masks=masks), expected=avg, observed=g,
                              explanation="mean fn is not the plain average over azimuths of the per-azimuth means")
            # covariance diagonal == std^2
            if spread_defined and not _israised(got_all.get("cov_fn")) and not _israised(got_all.get("std_fn_frequency")):
                cv = got_all["cov_fn"]
                if not (close(cv[0][0], got_all["std_fn_frequency"] ** 2, rtol=self.rtol, atol=1e-14) and
                        close(cv[1][1], got_all["std_fn_amplitude"] ** 2, rtol=self.rtol, atol=1e-20)):
                    ctx.violation(f"C11:cov_fn:{d}:diagonal-vs-std", root, detail=dict(hist=list(hist), masks=masks),
                                  expected=[got_all["std_fn_frequency"] ** 2, got_all["std_fn_amplitude"] ** 2],
                                  observed=[cv[0][0], cv[1][1]],
                                  explanation="variance on the covariance diagonal differs from the squared "
                                              "standard deviation")
            # equal accepted counts -> unweighted pooled statistics
            if equal_counts and len(fs) >= 2:
                pooled = dict(mean_fn_frequency=RS.mean(fs, d), std_fn_frequency=RS.std(fs, d),
                              mean_fn_amplitude=RS.mean(am, d), std_fn_amplitude=RS.std(am, d))
                for k2, v2 in pooled.items():
                    g = got_all.get(k2)
                    if g is None or _israised(g):
                        continue
                    if not close(g, v2, rtol=self.rtol, atol=1e-12):
                        ctx.violation(f"C11:{k2}:{d}:equal-counts-vs-pooled", root,
                                      detail=dict(hist=list(hist), masks=masks), expected=v2, observed=g,
                                      explanation="with equally many accepted windows per azimuth the statistic "
                                                  "differs from the unweighted pooled one")
            # mean-curve peak of the implementation's own mean curve in the current range
            mc = got_all.get("mean_curve")
            if mc is not None and not _israised(mc):
                try:
                    c = HvsrCurve(self.freq, list(mc))
                except ValueError as e:     # a mean curve that is not a valid curve (nan / negative values)
                    ctx.violation(f"C11:mean_curve:{d}:not-a-valid-curve", root, detail=dict(hist=list(hist)),
                                  observed=str(e), explanation="mean_curve() returned values that are not a valid "
                                                               "HVSR curve (nan, inf or negative)")
                    continue
                c.update_peaks_bounded(search_range_in_hz=h.rng, find_peaks_kwargs=h.kw)
                got = _call(o, "mean_curve_peak", (), d)
                want = ("raised", "ValueError") if math.isnan(c.peak_frequency) else \
                    (float(c.peak_frequency), float(c.peak_amplitude))
                if not _same(got, want):
                    ctx.violation(f"C11:mean_curve_peak:{d}:ref", root, detail=dict(hist=list(hist), range=list(h.rng)),
                                  expected=want, observed=got,
                                  explanation="mean_curve_peak is not the peak of the mean curve in the current range")

    def _rebuilt(self, h, masks, order):
        o = self._make([self.csets[a] for a in order],
                       [a for a in order] if self.root.get("az_values") else [AZ_VALUES[a] for a in order])
        o.update_peaks_bounded(search_range_in_hz=h.rng, find_peaks_kwargs=h.kw)
        for t, a in zip(o.hvsrs, order):
            t.valid_window_boolean_mask = np.array(masks[a][0])
            t.valid_peak_boolean_mask = np.array(masks[a][1])
        return o

    def _fresh(self, h, masks):
        csets = [[cs[i] for i in range(self.W) if vw[i]] for (vw, vp), cs in zip(masks, self.csets)]
        try:
            o = self._make(csets)
            o.update_peaks_bounded(search_range_in_hz=h.rng, find_peaks_kwargs=h.kw)
        except Exception:       # noqa: BLE001
            return None
        # every accepted window has a peak inside the quantifier, so the fresh masks are all True
        for t in o.hvsrs:
            if not (np.all(t.valid_window_boolean_mask) and np.all(t.valid_peak_boolean_mask)):
                return None
        return o


def _israised(v):
    return isinstance(v, tuple) and len(v) > 0 and v[0] == "raised"


def roots(tier, seed):
    out = []
    S = {
        2: [["p2", "p4"], ["p3", "twopk"], ["p1", "p5"]],
        3: [["p2", "p4", "p3"], ["p1", "twopk", "p5"], ["p3", "p3", "p4"], ["q3", "p2", "tie"]],
        4: [["p2", "p4", "twopk", "p3"], ["p1", "p5", "p3", "q3"], ["p2", "p2", "p4", "p5"]],
    }
    # histories that LOOK at the statistics between operations (caches), with manual re-acceptance,
    # and curve sets whose accepted windows all resonate at one frequency (true std exactly 0)
    same = [["p3", "p3", "p3"], ["p3", "p3", "p3"]]
    # a window whose amplitude is exactly zero at some frequencies (a dead band): once rejected it must
    # not influence anything (0 * log 0 must never enter a lognormal statistic)
    out.append(dict(grid="lin", F=7, shapes_by_az=[["p3", "dead", "p4"], ["p2", "p3", "dead"]],
                    depth=2 if tier == "quick" else 3, ops_subset="MA", reaccept=True))
    out.append(dict(grid="lin", F=7, shapes_by_az=[["p3"] * 3, ["p3"] * 3], depth=1, near=True))
    out.append(dict(grid="lin", F=7, many=[256, 257], shapes_by_az="generated", depth=1,
                    many_ops=1 if tier == "quick" else 4))
    out.append(dict(grid="lin", F=7, shapes_by_az=[S[3][0], S[3][1], S[3][3]], depth=2 if tier != "quick" else 1,
                    az_values=[10.0, 10.0, 55.0]))
    out.append(dict(grid="lin", F=7, shapes_by_az=[S[3][1], S[3][0]], depth=2, az_values=[0.0, 180.0]))
    out.append(dict(grid="geo", F=7, shapes_by_az=[["twopk"] * 4, ["twopk"] * 4, ["twopk"] * 4], depth=1, near=True))
    if tier == "quick":
        out.append(dict(grid="lin", F=7, shapes_by_az=[S[2][0], S[2][1]], depth=3, touch=True, reaccept=True,
                        ops_subset="MA"))
        out.append(dict(grid="lin", F=7, shapes_by_az=[S[3][0], S[3][1]], depth=2, touch=True, reaccept=True))
        out.append(dict(grid="lin", F=7, shapes_by_az=[S[3][1], S[3][0]], depth=2, touch=True, reaccept=True,
                        swap_same_azimuth=True, ops_subset="MA"))
        out.append(dict(grid="lin", F=7, shapes_by_az=same, depth=1))
        out.append(dict(grid="fine", F=7, shapes_by_az=[S[3][0], S[3][2]], depth=1))
    else:
        for W in (2, 3):
            out.append(dict(grid="lin", F=7, shapes_by_az=[S[W][0], S[W][1]], depth=3, touch=True, reaccept=True,
                            ops_subset="MA"))
            out.append(dict(grid="lin", F=7, shapes_by_az=[S[W][0], S[W][1], S[W][2]], depth=3 if W == 2 else 2,
                            touch=True, reaccept=True, ops_subset="MA"))
            out.append(dict(grid="lin", F=7, shapes_by_az=[S[W][0], S[W][1]], depth=2, touch=True, reaccept=True))
        out.append(dict(grid="lin", F=7, shapes_by_az=same, depth=2))
        out.append(dict(grid="lin", F=7, shapes_by_az=[S[3][1], S[3][0]], depth=3, touch=True, reaccept=True,
                        swap_same_azimuth=True, ops_subset="MA"))
        out.append(dict(grid="lin", F=7, shapes_by_az=same + [["p3", "p3", "p3"]], depth=1))
        out.append(dict(grid="fine", F=7, shapes_by_az=[S[3][0], S[3][2]], depth=2))
    if tier == "quick":
        for W in (2, 3, 4):
            sets = S[W]
            out.append(dict(grid="lin", F=7, shapes_by_az=[sets[0]], depth=2))
            out.append(dict(grid="lin", F=7, shapes_by_az=[sets[0], sets[1]], depth=2))
            out.append(dict(grid="geo", F=7, shapes_by_az=[sets[1], sets[2], sets[0]], depth=2 if W < 4 else 1))
        return out
    for W in (2, 3, 4):
        sets = S[W]
        for nA in (1, 2, 3):
            for combo in itertools.permutations(sets, nA):
                depth = 3 if (W <= 3 and nA <= 2) else 2
                out.append(dict(grid="lin", F=7, shapes_by_az=[list(c) for c in combo], depth=depth))
        out.append(dict(grid="geo", F=7, shapes_by_az=[sets[0], sets[1]], depth=2))
    return out


def run_root(root, ctx, tier):
    sysm = System(root)
    explorer.bfs(sysm, root, root["depth"], ctx, key_prefix="C11", touch=bool(root.get("touch")))
    ctx.nontrivial_case((root["grid"], root["shapes_by_az"]))
    if len(ctx.samples) < 3:
        ctx.sample(dict(root=root, menu_size=len(sysm.ops), first_ops=sysm.ops[:2] + sysm.ops[-2:]))


def describe(tier):
    return dict(
        rule="roots: 1-3 azimuths x curve sets of 2-4 windows (named shapes, F=7) as HvsrAzimuthal; BFS over all "
             "histories of {manual rejection of each (azimuth, window), 4 range updates, 6 frequency-domain "
             "rejections, every maximum-value rejection mask} up to the root's depth; states deduplicated on "
             "(per-azimuth masks, range, peaks); judged in every state in which every azimuth has an accepted window "
             "and every accepted window has a peak; non-trivial/distinct = (grid, shapes per azimuth); two 'near' roots hold ppm-scaled copies of one shape (rtol 1e-6); the distributions include the alias spelling 'log-normal'; returned arrays are overwritten in place and options dicts re-used by the harness; a manual edit may change only the addressed entry of the addressed azimuth",
        bounds=dict(depth="2 quick (1 for 3 azimuths x 4 windows); 3 thorough for <=3 windows and <=2 azimuths, else 2"),
        exhaustive=True,
        assumptions=["per-window peaks are taken from fresh HvsrCurve objects (judged by C08)",
                     "standard deviations are judged only where 1 - sum(w^2) > 0"])


_describe_base = describe


def describe(tier):     # noqa: F811 - the base description plus what later rounds added to the space
    d = _describe_base(tier)
    d["rule"] = d["rule"] + " " + "Further roots: azimuth values [10, 10, 55] and [0, 180]; roots with swap_same_azimuth add the operations 'reject window i and re-accept window j of the same azimuth'; the menu holds a range update with refused peak options; the canonical state includes the range each member has recorded. One more root holds 256 azimuths x 257 windows (a few manual rejections; reference and weighted accessors only)."
    return d
