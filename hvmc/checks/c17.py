"""C17 - PSD normalisation (Parseval, amplitude scaling, Welch averaging), the
diffuse-field HVSR as a ratio of smoothed PSDs, and PSD preprocessing
(spectral differentiation, removal of a flat / pole-zero instrument response).

E2: two completely enumerated configuration spaces (module constants SPACE_A,
SPACE_B), every case executed on the real hvsrpy code:

A. process(records, PsdProcessingSettings | HvsrDiffuseFieldProcessingSettings)
   window length x time step x signal triple x window count x Tukey width x
   FFT request x output (unsmoothed PSD | smoothed PSD per operator | diffuse
   field per operator) x amplitude scale.
   Oracles: time-domain Parseval (ref.psd, no FFT); PSD(c x) == c^2 PSD(x);
   PSD of several windows == mean of the single-window PSDs; smoothed PSD ==
   reference kernel (ref.kernels) applied to the unsmoothed PSD of the same
   windows; diffuse field == sqrt(smooth(Pns + Pew) / smooth(Pvt)).
   The amplitude scales include 1e-9, 1e-12 and 1e9: the PSD laws are
   homogeneous of degree two and the diffuse-field ratio is scale invariant,
   so no absolute threshold may show up anywhere (all tolerances are relative).
B. preprocess(records, PsdPreProcessingSettings)
   window length x time step x signal set x offset x differentiate x response
   x Tukey width x FFT request x final detrend.
   Oracles: analytic image of sinusoids that are periodic in the window
   (taper width 0, no padding); flat response == division by s*a of the
   mean-removed series; everything else against the explicit (matrix) DFT of
   the detrended, tapered, zero-padded series.

C. / D. histories  use - edit - use [- edit - use]  on ONE settings object (C: process() with
   PsdProcessingSettings / HvsrDiffuseFieldProcessingSettings, D: preprocess() with
   PsdPreProcessingSettings): the quantifier runs over tapers, smoothing, responses, ... and
   not over the past of the object that carries them.  All sequences c1, c2[, c3] of
   configurations within a deviation bound, crossed (length 2) with the manner of the edit
   (assign | item assignment in place | Settings.load), of the carry (same object | deepcopy)
   and an optional refused call in between.  The last use is judged by the oracles of A / B.

E. many windows in one call: part A's cases and oracles with window counts around 256 and 512
   (SPACE_E: 255, 256, 257, 300, 511, 512, 513 windows of 16 / 33 samples) crossed with the way the
   energy is distributed over the positions in the call (PROFILES: gain ramp | the last seventh ten
   times louder | the first seventh ten times louder | equal gains).  "For several windows it is the
   average of the single-window densities" is quantified over all window counts; A stops at 3.
   Oracles: Parseval (mean of the time-domain bookkeeping of every window), Welch (mean of the PSDs of
   the same windows processed one at a time), amplitude scaling, smoothed PSD / diffuse field from the
   unsmoothed PSDs of the same windows.  Violation keys carry the input class "many-windows".

In A, B and E every call gets fresh recordings, fresh settings and fresh fft_settings dicts:
process() tapers its inputs in place (C09) and writes the FFT length back.  In C and D the
recordings are fresh for every use, the settings object is the one under test.
"""
import copy
import math
import os
import shutil
import tempfile
import traceback

import numpy as np

import hvsrpy
from hvsrpy import SeismicRecording3C, TimeSeries
from hvsrpy.instrument_response import InstrumentTransferFunction
from hvsrpy.settings import (HvsrDiffuseFieldProcessingSettings, PsdPreProcessingSettings,
                             PsdProcessingSettings)

from hvmc import alphabets as A
from hvmc.engine import product
from hvmc.engine.core import close
from hvmc.ref import psd as RP
from hvmc.ref import taper as RT

PROPERTY = "C17"
RTOL = 1e-9
COMPONENTS = ("ns", "ew", "vt")

# ---------------------------------------------------------------------------
# alphabets

# three different signals per window, or a proportional triple (3, 4, 2) * noise1
SIGSETS = {
    "S0": [["ramp", 1.0], ["noise1", 1.0], ["offgrid_sine", 1.0]],
    "S1": [["two_sines", 1.0], ["impulse_mid", 1.0], ["noise2", 1.0]],
    "S2": [["alt", 1.0], ["impulse0", 1.0], ["noise3", 1.0]],
    "P342": [["noise1", 3.0], ["noise1", 4.0], ["noise1", 2.0]],
}
OPERATORS = ("konno_and_ohmachi", "parzen", "savitzky_and_golay", "linear_rectangular",
             "log_rectangular", "linear_triangular", "log_triangular")
FC_FRACTIONS = (0.13, 0.29, 0.52, 0.81)          # of the Nyquist frequency
PARZEN_A = 280.0 * math.pi / 302.0

SPACE_A = {
    "L": [16, 33, 64],
    "dt": [0.01, 0.05],
    "sigs": ["S0", "S1", "S2", "P342"],
    "count": [1, 2, 3],
    "fft": ["none", "default", "n65536"],
    "taper": [0.1, 0.0, 1.0, 0.5],
    "out": ["psd:off"] + ["psd:" + o for o in OPERATORS] + ["diffuse:" + o for o in OPERATORS],
    # 1e-9 / 1e-12: recordings in m/s resp. m (PSD ~1e-18 .. 1e-24, far below machine epsilon but
    # far above the underflow threshold); 1e9: raw counts.  Every oracle is relative to the signal power.
    "scale": [1.0, 10.0, -3.0, 1e-9, 1e-12, 1e9],
}
ROOT_DIMS_A = ("L", "dt", "sigs", "count", "fft")

# part E: many windows in one call.  gain of window i of ``count`` windows (times the amplitude scale)
PROFILES = {
    "loud_tail": lambda i, count: 10.0 if i >= count - max(1, count // 7) else 1.0,
    "ramp": lambda i, count: 1.0 + 0.5 * i,                 # the profile of parts A and C
    "equal": lambda i, count: 1.0,                          # windows still differ: triple rotated by i
    "loud_head": lambda i, count: 10.0 if i < max(1, count // 7) else 1.0,
}
SPACE_E = {
    "count": [300, 255, 256, 257, 513, 511, 512],
    "profile": ["loud_tail", "ramp", "equal", "loud_head"],
    "L": [16, 33],
    "dt": [0.01],
    "sigs": ["S0", "P342"],
    "fft": ["none", "default"],
    "taper": [0.1, 0.0, 1.0],
    "out": ["psd:off", "psd:konno_and_ohmachi", "diffuse:konno_and_ohmachi", "diffuse:parzen"],
    "scale": [1.0, -3.0, 1e-9],
}
ROOT_DIMS_E = ("count", "profile", "L", "dt", "sigs", "fft")
K_E = {"quick": 2, "thorough": 3}      # deviation bound of part E
MANY = 16                               # a call with more windows than this is of the class "many-windows"

RESPONSES = ("none", "flat", "flat_neg", "pz_highpass", "pz_lead", "geophone")
SPACE_B = {
    "L": [16, 33, 64],
    "dt": [0.01, 0.05],
    "fft": ["none", "default"],
    "taper": [0.0, 0.1, 1.0],
    "response": list(RESPONSES),
    "signal": ["C0", "C1", "C2", "noise"],
    "offset": [0.7, 0.0],
    "differentiate": [True, False],
    "detrend": ["none", "constant"],
}
ROOT_DIMS_B = ("L", "dt", "fft", "taper", "response")
SINUSOIDS = {                      # (cycles per window k < L/2, amplitude, phase)
    "C0": [[2, 1.0, 0.3], [3, 0.5, -1.1]],
    "C1": [[1, 2.0, 0.0]],
    "C2": [[5, 1.0, 1.0], [7, 0.25, 2.0]],
}

K_QUICK = 3          # deviation bound of the quick tier (both spaces)


def fft_request(name):
    """A FRESH fft_settings value for every call (a name of the alphabet or an explicit length)."""
    if isinstance(name, int):
        return {"n": int(name)}
    return {"none": {"n": None}, "default": None, "n65536": {"n": 65536}}[name]


def smoothing_spec(op, dt):
    """One bandwidth per operator, wide enough that no window is empty on the
    coarsest grid (n = L = 16); centre frequencies as fractions of Nyquist."""
    fs = 1.0 / dt
    fnyq = fs / 2.0
    bw = {"konno_and_ohmachi": 40.0,
          "parzen": math.sqrt(6.0) * PARZEN_A / (0.085 * fs),     # half-width 0.17 f_Nyq
          "savitzky_and_golay": 5,
          "linear_rectangular": 0.17 * fs,
          "linear_triangular": 0.17 * fs,
          "log_rectangular": 0.2,
          "log_triangular": 0.2}[op]
    return dict(operator=op, bandwidth=bw,
                center_frequencies_in_hz=[q * fnyq for q in FC_FRACTIONS])


def response_spec(name, dt):
    """Concrete pole/zero/sensitivity/normalisation values (poles scale with fs)."""
    if name == "none":
        return None
    w = 2.0 * math.pi / dt          # 2 pi fs
    if name == "flat":
        return dict(poles=[], zeros=[], sensitivity=4.0, normalization=2.5)
    if name == "flat_neg":
        return dict(poles=[], zeros=[], sensitivity=-2.0, normalization=0.75)
    if name == "pz_highpass":
        return dict(poles=[[-0.1 * w, 0.0]], zeros=[[0.0, 0.0]], sensitivity=4.0, normalization=2.5)
    if name == "pz_lead":
        return dict(poles=[[-0.3 * w, 0.0]], zeros=[[-0.05 * w, 0.0]], sensitivity=1.5,
                    normalization=0.8)
    if name == "geophone":
        return dict(poles=[[-0.07 * w, 0.07 * w], [-0.07 * w, -0.07 * w]],
                    zeros=[[0.0, 0.0], [0.0, 0.0]], sensitivity=4.0, normalization=2.5)
    raise KeyError(name)


_RK = [False]


def ref_kernels():
    """hvmc.ref.kernels (written for C02) or None while it does not exist."""
    if _RK[0] is False:
        try:
            from hvmc.ref import kernels
            _RK[0] = kernels
        except ImportError:
            _RK[0] = None
    return _RK[0]


# ---------------------------------------------------------------------------
# part A: helpers

def window_arrays(sigs, i, L, scale, gain=None):
    """The three component arrays of window i: triple rotated by i, gain (1 + i/2) * scale
    (or ``gain`` * scale: part E's energy profiles)."""
    trip = SIGSETS[sigs]
    r = i % 3
    rot = trip[r:] + trip[:r]
    gain = (1.0 + 0.5 * i if gain is None else gain) * scale
    return [A.sig_array(name, L) * (fac * gain) for name, fac in rot]


def make_records(windows, dt):
    return [SeismicRecording3C(*[TimeSeries(np.array(x, dtype=float), dt) for x in w])
            for w in windows]


def build_settings(dt, taper, fft, out):
    """A FRESH processing-settings object for output ``out`` = "psd:off" | "psd:<op>" | "diffuse:<op>"."""
    kind, op = out.split(":")
    if kind == "psd":
        s = PsdProcessingSettings(window_type_and_width=["tukey", taper],
                                  fft_settings=fft_request(fft))
        s.smoothing = None if op == "off" else smoothing_spec(op, dt)
    else:
        s = HvsrDiffuseFieldProcessingSettings(window_type_and_width=["tukey", taper],
                                               smoothing=smoothing_spec(op, dt),
                                               fft_settings=fft_request(fft))
    return s


def reported_n(s):
    return s.fft_settings.get("n") if isinstance(s.fft_settings, dict) else None


def call_process(windows, dt, taper, fft, out):
    """Execute the real code on fresh objects.  Returns (result, n reported by hvsrpy)."""
    s = build_settings(dt, taper, fft, out)
    res = hvsrpy.process(make_records(windows, dt), s)
    return res, reported_n(s)


def expected_n(L, fft):
    if fft == "none":
        return L
    n = 32768
    while n <= L:
        n *= 2
    return max(n, 65536) if fft == "n65536" else n


_W_CACHE = {}


def ref_smooth(op, freqs, rows, spec):
    """Reference smoothing (ref.kernels) of spectrum rows; returns (out[row][fc], knife mask)."""
    RK = ref_kernels()
    fcs = spec["center_frequencies_in_hz"]
    key = (op, len(freqs), float(freqs[1]), tuple(fcs), spec["bandwidth"])
    if key not in _W_CACHE:
        if len(_W_CACHE) > 80:
            _W_CACHE.clear()
        W, knife = RK.matrix(op, [float(f) for f in freqs], fcs, spec["bandwidth"])
        _W_CACHE[key] = ([np.nonzero(W[c])[0] for c in range(len(fcs))], W, knife)
    nz, W, knife = _W_CACHE[key]
    out = []
    for row in rows:
        out.append([math.fsum((W[c, nz[c]] * row[nz[c]]).tolist()) for c in range(len(fcs))])
    return np.array(out, dtype=float), np.asarray(knife, dtype=bool)


def hv_smooth(op, freqs, rows, spec):
    """hvsrpy's own operator (used only when ref.kernels is missing)."""
    from hvsrpy.smoothing import SMOOTHING_OPERATORS
    return SMOOTHING_OPERATORS[op](np.asarray(freqs, dtype=float), np.array(rows, dtype=float),
                                   np.array(spec["center_frequencies_in_hz"], dtype=float),
                                   spec["bandwidth"])


def _sig(v):
    return ["%.6g" % float(x) for x in np.asarray(v, dtype=float).ravel()[:6]]


# ---------------------------------------------------------------------------
# part A: one root = fixed (L, dt, sigs, count, fft); cases = (taper, out, scale)

class RootA:
    def __init__(self, root, ctx):
        self.root = root
        self.ctx = ctx
        f = self.fixed = root["fixed"]
        self.L, self.dt, self.sigs, self.count, self.fft = (f["L"], f["dt"], f["sigs"],
                                                           f["count"], f["fft"])
        self.part = root.get("part", "A")
        self.profile = f.get("profile", "ramp")
        self.cls = "single-window" if self.count == 1 else ("multi-window" if self.count <= MANY
                                                            else "many-windows")
        self.wmean = {}          # many windows: (taper, scale) -> mean of the single-window PSDs
        self.always_welch = False    # part C: compare a single window with a fresh-object PSD too
        self.aux_ok = True           # part C: fresh-object calls with the same FFT length exist
        self.unsm = {}           # (taper, scale) -> unsmoothed PSD result of all windows
        self.single = {}         # (i, taper, scale) -> unsmoothed PSD result of window i
        self.diffuse1 = {}       # (taper, operator) -> diffuse-field amplitudes at scale 1

    # -- executions ----------------------------------------------------------
    def window(self, i, scale):
        return window_arrays(self.sigs, i, self.L, scale, PROFILES[self.profile](i, self.count))

    def windows(self, scale):
        return [self.window(i, scale) for i in range(self.count)]

    def run(self, windows, taper, out):
        self.ctx.count("transitions")
        return call_process(windows, self.dt, taper, self.fft, out)

    def unsmoothed(self, taper, scale):
        key = (taper, scale)
        if key not in self.unsm:
            try:
                res, n = self.run(self.windows(scale), taper, "psd:off")
                self.unsm[key] = (dict((c, np.array(res[c].amplitude)) for c in COMPONENTS),
                                  np.array(res["vt"].frequency), n)
            except Exception as e:      # noqa: BLE001 - judged where the main call is judged
                self.unsm[key] = e
        return self.unsm[key]

    def single_window(self, i, taper, scale):
        key = (i, taper, scale)
        if key not in self.single:
            try:
                res, n = self.run([self.window(i, scale)], taper, "psd:off")
                self.single[key] = dict((c, np.array(res[c].amplitude)) for c in COMPONENTS)
            except Exception as e:      # noqa: BLE001
                self.single[key] = e
        return self.single[key]

    def welch_mean(self, taper, scale, nb):
        """{component: mean of the PSDs of the windows processed one at a time} or the exception of a
        single-window call.  Few windows: from the cache of single-window results; many windows: streamed
        (nothing but the mean is kept)."""
        if self.count <= MANY:
            singles = [self.single_window(i, taper, scale) for i in range(self.count)]
            bad = [s for s in singles if isinstance(s, Exception)]
            if bad:
                return bad[0]
            return dict((c, np.asarray(RP.mean_of([s[c] for s in singles]) if nb <= 2048
                                       else np.sum([s[c] for s in singles], axis=0) / len(singles)))
                        for c in COMPONENTS)
        key = (taper, scale)
        if key not in self.wmean:
            try:
                small = dict((c, []) for c in COMPONENTS)
                acc = half = None
                for i in range(self.count):
                    res, _ = self.run([self.window(i, scale)], taper, "psd:off")
                    if nb <= 2048:
                        for c in COMPONENTS:
                            small[c].append(np.array(res[c].amplitude, dtype=float))
                    else:
                        row = np.array([res[c].amplitude for c in COMPONENTS], dtype=float)
                        acc = row if acc is None else acc + row
                    if nb > 2048 and i == self.count // 2 - 1:
                        half = acc / (i + 1)
                if nb <= 2048:
                    mean = dict((c, np.asarray(RP.mean_of(small[c]))) for c in COMPONENTS)
                    h = self.count // 2
                    halfd = dict((c, np.asarray(RP.mean_of(small[c][:h]))) for c in COMPONENTS)
                else:
                    mean = dict((c, acc[ci] / self.count) for ci, c in enumerate(COMPONENTS))
                    halfd = dict((c, half[ci]) for ci, c in enumerate(COMPONENTS))
                # non-vacuity: the energy is not the same at every position of the call - the mean of the
                # first half of the windows is not the mean of all of them
                if any(not close(halfd[c], mean[c], rtol=1e-3, atol=1e-3 * float(np.max(mean[c])))
                       for c in COMPONENTS):
                    self.ctx.count("variant_first_half_mean_differs")
                self.wmean[key] = mean
            except Exception as e:      # noqa: BLE001
                self.wmean[key] = e
        return self.wmean[key]

    def diffuse_at_scale_one(self, taper, op):
        key = (taper, op)
        if key not in self.diffuse1:
            try:
                res, _ = self.run(self.windows(1.0), taper, "diffuse:" + op)
                self.diffuse1[key] = np.asarray(res.amplitude, dtype=float)
            except Exception as e:      # noqa: BLE001 - the scale-1 case is judged as a case of its own
                self.diffuse1[key] = e
        return self.diffuse1[key]

    # -- reporting -------------------------------------------------------------
    def mark(self, case):
        return dict(part=self.part, fixed=self.fixed, case=case)

    def viol(self, key, case, **kw):
        detail = dict(case=case, fixed=self.fixed, sigset=SIGSETS[self.sigs],
                      construction="window i = signal triple rotated by i, gain g(i)*scale, g = "
                                   + {"ramp": "1+i/2", "equal": "1",
                                      "loud_tail": "10 for the last max(1, count//7) windows, else 1",
                                      "loud_head": "10 for the first max(1, count//7) windows, else 1"}[self.profile]
                                   + "; signals from hvmc.alphabets.signal(name, L)")
        detail.update(kw.pop("detail", {}))
        self.ctx.violation(key, self.root, detail=detail, **kw)

    def raised(self, case, e, where):
        odd = self.fft == "none" and self.L % 2 == 1
        if odd:
            key = "C17:_rpds_single_component:odd-fft-length:raises"
            expl = (f"PSD/diffuse-field processing with an odd FFT length (window of {self.L} samples, "
                    f"fft_settings={{'n': None}}) raises {type(e).__name__}: {e}")
        else:
            key = f"C17:process({case['out'].split(':')[0]}):raises"
            expl = f"process() raised {type(e).__name__}: {e} ({where})"
        self.viol(key, case, expected="a value", explanation=expl,
                  observed="".join(traceback.format_exception_only(type(e), e)).strip()[-600:])

    # -- one case --------------------------------------------------------------
    def case(self, case):
        ctx = self.ctx
        ctx.count("states")
        taper, out, scale = case["taper"], case["out"], case["scale"]
        kind, op = out.split(":")
        windows = self.windows(scale)
        try:
            res, n = self.run(windows, taper, out)
        except Exception as e:          # noqa: BLE001
            # a refusal is legitimate only where the reference result is undefined
            if op != "off":
                exp = self.expected_smoothed(case, kind, op)
                if exp == "no-kernels":
                    ctx.count("skipped_no_kernels")
                    return
                if exp is not None and exp[1]:
                    ctx.count("skipped_undefined_reference")
                    return
            self.raised(case, e, "main call")
            return
        if kind == "psd" and op == "off":
            self.judge_unsmoothed(case, res, n, windows)
        elif kind == "psd":
            self.judge_smoothed(case, res, op)
        else:
            self.judge_diffuse(case, res, op)

    # -- oracles -----------------------------------------------------------------
    def judge_unsmoothed(self, case, res, n, windows):
        ctx = self.ctx
        L, dt = self.L, self.dt
        taper, scale = case["taper"], case["scale"]
        if not isinstance(n, int) or isinstance(n, bool) or n < L:
            self.viol("C17:process(psd):fft-length-not-reported", case, observed=n,
                      explanation="settings.fft_settings['n'] after process() is not an integer >= L")
            return
        w = RT.tukey(L, taper)
        nb = RP.n_onesided(n)
        df = 1.0 / (n * dt)
        fnyq = 1.0 / (2.0 * dt)
        ok = True
        sig = []
        for ci, c in enumerate(COMPONENTS):
            amp = np.asarray(res[c].amplitude, dtype=float)
            frq = np.asarray(res[c].frequency, dtype=float)
            if len(amp) != nb or len(frq) != nb or not close(frq, np.arange(nb, dtype=float) * df,
                                                             rtol=1e-12, atol=1e-12 * fnyq):
                self.viol("C17:process(psd):one-sided-grid", case, expected=dict(bins=nb, df=df),
                          observed=dict(len_amp=len(amp), len_frq=len(frq), first=_sig(frq)),
                          explanation=f"{c}: the PSD is not given on the one-sided grid k/(n dt), "
                                      f"k = 0..n//2 (n = {n})")
                ok = False
                continue
            # (1) Parseval, from the frequencies hvsrpy returns
            interior = (frq > 0.0) & (frq < fnyq * (1 - 1e-12))
            lhs = math.fsum(amp[interior].tolist()) * df
            per_window = [RP.parseval_rhs(win[ci].tolist(), w, n) for win in windows]
            rhs = math.fsum(per_window) / len(per_window)
            total = math.fsum(math.fsum((x * t) ** 2 for x, t in zip(win[ci].tolist(), w))
                              for win in windows) / (len(windows) * L * RT.mean_square(w))
            sig.append("%.9g" % lhs)
            if abs(lhs - rhs) > RTOL * total:
                ok = False
                self.viol(f"C17:process(psd):{self.cls}:parseval",
                          case, expected=rhs, observed=lhs,
                          detail=dict(component=c, n=n, df=df,
                                      terms=[RP.parseval_terms(win[ci].tolist(), w, n)
                                             for win in windows[:MANY]]),
                          explanation=f"{c}: sum over 0<f<Nyquist of PSD*df = {lhs!r}, time-domain "
                                      f"bookkeeping of the tapered window(s) gives {rhs!r}")
            # non-vacuity: deliberately wrong normalisations must differ somewhere
            if total > 0:
                if abs(rhs * RT.mean_square(w) - rhs) > 1e-6 * total:
                    ctx.count("variant_no_taper_norm_differs")
                if n != L and abs(rhs * n / L - rhs) > 1e-6 * total:
                    ctx.count("variant_div_n_differs")
                if len(windows) > 1 and abs(rhs * len(windows) - rhs) > 1e-6 * total:
                    ctx.count("variant_sum_not_mean_differs")
        if not ok:
            return
        ctx.count("validated")
        ctx.nontrivial_case(self.mark(case))
        ctx.outcome(("psd", sig))
        amps = dict((c, np.asarray(res[c].amplitude, dtype=float)) for c in COMPONENTS)
        if not self.aux_ok:
            ctx.count("history_aux_unavailable")
            return
        # (2) Welch: several windows -> mean of the single-window PSDs
        if self.count > 1 or self.always_welch:
            means = self.welch_mean(taper, scale, nb)
            if isinstance(means, Exception):
                self.raised(case, means, "single-window call")
            else:
                for c in COMPONENTS:
                    mean = means[c]
                    top = float(np.max(mean))
                    ctx.count("welch_compared")
                    if self.count > MANY:
                        ctx.count("many_windows_welch_compared")
                    if not close(amps[c], mean, rtol=RTOL, atol=1e-15 * top):
                        k = int(np.argmax(np.abs(amps[c] - np.asarray(mean))))
                        self.viol("C17:process(psd):%s:welch-mean"
                                  % ("many-windows" if self.count > MANY else "multi-window"), case,
                                  expected=dict(bin=k, value=float(mean[k])),
                                  observed=dict(bin=k, value=float(amps[c][k])),
                                  detail=dict(component=c, n=n),
                                  explanation=f"{c}: PSD of {self.count} windows differs from the arithmetic "
                                              "mean of the PSDs of the same windows processed one at a time")
                        break
        # (3) amplitude scaling
        if scale != 1.0:
            base = self.unsmoothed(taper, 1.0)
            if isinstance(base, Exception):
                self.raised(dict(case, scale=1.0), base, "scale-1 call")
            else:
                for c in COMPONENTS:
                    ref = base[0][c] * (scale * scale)
                    ctx.count("scale_compared")
                    if not close(amps[c], ref, rtol=RTOL, atol=1e-15 * float(np.max(ref))):
                        k = int(np.argmax(np.abs(amps[c] - ref)))
                        self.viol("C17:process(psd):amplitude-scale", case,
                                  expected=dict(bin=k, value=float(ref[k])),
                                  observed=dict(bin=k, value=float(amps[c][k])),
                                  detail=dict(component=c, n=n),
                                  explanation=f"{c}: PSD of {scale} * x is not {scale}^2 times the PSD of x")
                        break
        if ctx.counters["validated"] <= 2:
            ctx.sample(dict(self.mark(case), n=n,
                            band_power=sig))

    def expected_smoothed(self, case, kind, op):
        """(expected array(s), undefined?, knife mask, source); "no-kernels" when a smoothed PSD
        cannot be judged because hvmc.ref.kernels is missing; None when the unsmoothed call raised."""
        taper, scale = case["taper"], case["scale"]
        base = self.unsmoothed(taper, scale)
        if isinstance(base, Exception):
            return None
        amps, frq, n = base
        spec = smoothing_spec(op, self.dt)
        RK = ref_kernels()
        if kind == "psd":
            if RK is None:
                return "no-kernels"
            rows = [amps[c] for c in COMPONENTS]
            sm, knife = ref_smooth(op, frq, rows, spec)
            undefined = bool(np.any(sm < 0) or np.any(~np.isfinite(sm)))
            return sm, undefined, knife, "ref.kernels"
        rows = [amps["ns"] + amps["ew"], amps["vt"]]
        if RK is not None:
            sm, knife = ref_smooth(op, frq, rows, spec)
            src = "ref.kernels"
        else:
            sm = np.asarray(hv_smooth(op, frq, rows, spec), dtype=float)
            knife = np.zeros(sm.shape[1], dtype=bool)
            src = "hvsrpy operator"
        with np.errstate(all="ignore"):
            ratio = sm[0] / sm[1]
            hv = np.sqrt(ratio)
        undefined = bool(np.any(~np.isfinite(hv)) or np.any(sm[1] <= 0) or np.any(sm[0] < 0))
        return hv, undefined, knife, src

    def judge_smoothed(self, case, res, op):
        ctx = self.ctx
        if not self.aux_ok:
            ctx.count("history_aux_unavailable")
            return
        exp = self.expected_smoothed(case, "psd", op)
        if exp is None:
            self.raised(case, self.unsmoothed(case["taper"], case["scale"]), "unsmoothed call")
            return
        if exp == "no-kernels":
            ctx.count("skipped_no_kernels")
            return
        sm, undefined, knife, src = exp
        if undefined:
            ctx.count("skipped_undefined_reference")
            return
        spec = smoothing_spec(op, self.dt)
        fcs = spec["center_frequencies_in_hz"]
        keep = ~knife
        ctx.count("knife_edge", int(np.sum(knife)))
        unsm = self.unsmoothed(case["taper"], case["scale"])[0]
        for ci, c in enumerate(COMPONENTS):
            amp = np.asarray(res[c].amplitude, dtype=float)
            frq = np.asarray(res[c].frequency, dtype=float)
            if len(amp) != len(fcs) or not close(frq, fcs, rtol=1e-12):
                self.viol("C17:process(psd):smoothed:centre-frequencies", case, expected=fcs,
                          observed=frq, explanation="smoothed PSD is not reported at the requested "
                                                    "centre frequencies")
                return
            # absolute floor relative to the *input* of the kernel (Savitzky-Golay weights cancel)
            top = float(np.max(np.abs(unsm[c])))
            if not close(amp[keep], sm[ci][keep], rtol=RTOL, atol=1e-13 * top):
                self.viol("C17:process(psd):smoothed:reference-kernel", case, expected=sm[ci], observed=amp,
                          detail=dict(component=c, operator=op, smoothing=spec, knife=knife),
                          explanation=f"{c}: smoothed PSD differs from the reference {op} kernel applied "
                                      "to the unsmoothed PSD of the same windows")
                return
        ctx.count("validated")
        ctx.nontrivial_case(self.mark(case))
        ctx.outcome(("spsd", op, _sig(res["vt"].amplitude)))

    def judge_diffuse(self, case, res, op):
        ctx = self.ctx
        if not self.aux_ok:
            ctx.count("history_aux_unavailable")
            return
        exp = self.expected_smoothed(case, "diffuse", op)
        if exp is None:
            self.raised(case, self.unsmoothed(case["taper"], case["scale"]), "unsmoothed call")
            return
        hv, undefined, knife, src = exp
        if undefined:
            ctx.count("skipped_undefined_reference")
            return
        spec = smoothing_spec(op, self.dt)
        fcs = spec["center_frequencies_in_hz"]
        amp = np.asarray(res.amplitude, dtype=float)
        frq = np.asarray(res.frequency, dtype=float)
        keep = ~knife
        ctx.count("knife_edge", int(np.sum(knife)))
        if src != "ref.kernels":
            ctx.count("diffuse_smoothed_with_hvsrpy_operator")
        if len(amp) != len(fcs) or not close(frq, fcs, rtol=1e-12):
            self.viol("C17:process(diffuse):centre-frequencies", case, expected=fcs, observed=frq,
                      explanation="diffuse-field HVSR is not reported at the requested centre frequencies")
            return
        if not close(amp[keep], hv[keep], rtol=RTOL):
            self.viol("C17:process(diffuse):ratio-of-smoothed-psd", case, expected=hv, observed=amp,
                      detail=dict(smoothing=spec, smoothing_by=src, knife=knife),
                      explanation="diffuse-field HVSR differs from sqrt(smooth(Pns+Pew)/smooth(Pvt)) built "
                                  "from the unsmoothed PSDs of the same windows")
            return
        if self.sigs == "P342" and self.count == 1 and not close(amp[keep], np.full(int(np.sum(keep)), 2.5), rtol=RTOL):
            self.viol("C17:process(diffuse):proportional-components", case, expected=2.5, observed=amp,
                      explanation="components (3, 4, 2) * s must give sqrt((9 + 16) / 4) = 2.5 everywhere")
            return
        # scale invariance: the same windows times c give the same ratio
        if case["scale"] != 1.0:
            base = self.diffuse_at_scale_one(case["taper"], op)
            if isinstance(base, Exception) or len(base) != len(amp):
                ctx.count("diffuse_scale_one_unavailable")
            else:
                ctx.count("diffuse_scale_invariance_compared")
                if not close(amp[keep], base[keep], rtol=RTOL):
                    self.viol("C17:process(diffuse):scale-invariance", case, expected=base, observed=amp,
                              detail=dict(smoothing=spec, knife=knife),
                              explanation=f"diffuse-field HVSR of {case['scale']} * (the windows) differs from the "
                                          "diffuse-field HVSR of the windows: a ratio of densities cannot depend "
                                          "on the unit of the recordings")
                    return
        # non-vacuity: a ratio without the square root / with one horizontal only must differ
        if not close(amp[keep], hv[keep] ** 2, rtol=1e-6):
            ctx.count("variant_no_sqrt_differs")
        ctx.count("validated")
        ctx.nontrivial_case(self.mark(case))
        ctx.outcome(("diffuse", op, _sig(amp)))
        if ctx.counters["diffuse_sampled"] < 1:
            ctx.count("diffuse_sampled")
            ctx.sample(dict(self.mark(case), hvsr=_sig(amp)))


def sub_cases(space, root_dims, fixed, k):
    """Cases of the (deviation-bounded) space that agree with ``fixed`` on root_dims."""
    sub = {d: v for d, v in space.items() if d not in root_dims}
    if k is None:
        return list(product.deviations(sub, None))
    used = sum(1 for d in root_dims if fixed[d] != space[d][0])
    if used > k:
        return []
    return list(product.deviations(sub, k - used))


def tier_space(space, tier):
    if tier == "thorough":
        return space
    s = dict(space)
    if "taper" in s and len(s["taper"]) == 4:
        s["taper"] = s["taper"][:3]
    return s


def run_root_a(root, ctx, tier):
    r = RootA(root, ctx)
    for case in sub_cases(tier_space(SPACE_A, root["tier"]), ROOT_DIMS_A, root["fixed"], root["k"]):
        r.case(case)


def space_e(tier):
    s = dict(SPACE_E)
    if tier != "thorough":
        s["count"] = s["count"][:5]
        s["fft"] = s["fft"][:1]         # the 32768-point transforms of 300+ windows: thorough tier only
    return s


def run_root_e(root, ctx, tier):
    r = RootA(root, ctx)
    before = ctx.counters["validated"]
    for case in sub_cases(space_e(root["tier"]), ROOT_DIMS_E, root["fixed"], root["k"]):
        r.case(case)
    ctx.count("many_windows_validated", ctx.counters["validated"] - before)


# ---------------------------------------------------------------------------
# part B: preprocessing

def pre_series(signal, offset, L, rec, comp):
    """(samples, sinusoid components or None) of component ``comp`` of record ``rec``."""
    j = (rec + comp) % 3
    off = [offset, -0.5 * offset, 2.0 * offset][(comp + 2 * rec) % 3]
    gain = 1.0 + 0.5 * rec
    if signal == "noise":
        x = [gain * v + off for v in A.signal("noise%d" % (j + 1), L)]
        return x, None
    names = ["C0", "C1", "C2"]
    comps = [(k, gain * a, p) for (k, a, p) in SINUSOIDS[names[(names.index(signal) + j) % 3]]]
    return RP.sinusoids(L, comps, off), comps


def op_class(differentiate, response):
    r = "none" if response == "none" else ("flat-response" if response.startswith("flat") else "pole-zero")
    if r == "none":
        return "differentiate" if differentiate else "identity"
    return r + ("+differentiate" if differentiate else "")


def make_itf(resp):
    """A FRESH InstrumentTransferFunction (or None) from a response_spec() dict."""
    if resp is None:
        return None
    return InstrumentTransferFunction([complex(*p) for p in resp["poles"]],
                                      [complex(*z) for z in resp["zeros"]],
                                      resp["sensitivity"], resp["normalization"])


def pre_inputs(signal, offset, L, dt):
    """(series[r][c] = (samples, sinusoid components or None), FRESH records) of one preprocess call."""
    series = [[pre_series(signal, offset, L, r, c) for c in range(3)] for r in range(2)]
    records = [SeismicRecording3C(*[TimeSeries(np.array(x, dtype=float), dt) for x, _ in rec])
               for rec in series]
    return series, records


def build_pre_settings(dt, fft, taper, response, differentiate, detrend):
    """A FRESH PsdPreProcessingSettings object (orientation, filter, splitting switched off)."""
    return PsdPreProcessingSettings(orient_to_degrees_from_north=None,
                                    filter_corner_frequencies_in_hz=[None, None],
                                    window_length_in_seconds=None,
                                    detrend=detrend,
                                    window_type_and_width=["tukey", taper],
                                    fft_settings=fft_request(fft),
                                    instrument_transfer_function=make_itf(response_spec(response, dt)),
                                    differentiate=differentiate)


class RootB:
    def __init__(self, root, ctx):
        self.root = root
        self.ctx = ctx
        f = self.fixed = root["fixed"]
        self.L, self.dt, self.fft, self.taper, self.response = (f["L"], f["dt"], f["fft"],
                                                               f["taper"], f["response"])
        self.resp = response_spec(self.response, self.dt)

    def mark(self, case):
        return dict(part="B", fixed=self.fixed, case=case)

    def viol(self, key, case, **kw):
        detail = dict(case=case, fixed=self.fixed, response=self.resp,
                      construction="record r, component c: see hvmc.checks.c17.pre_series; settings: "
                                   "orient None, no filter, window_length None")
        detail.update(kw.pop("detail", {}))
        self.ctx.violation(key, self.root, detail=detail, **kw)

    def case(self, case):
        self.ctx.count("states")
        series, records = pre_inputs(case["signal"], case["offset"], self.L, self.dt)
        s = build_pre_settings(self.dt, self.fft, self.taper, self.response,
                               case["differentiate"], case["detrend"])
        self.execute(case, series, records, s)

    def execute(self, case, series, records, s):
        """preprocess(records, s) on the real code and every oracle of part B on its result."""
        ctx = self.ctx
        L = self.L
        cls = op_class(case["differentiate"], self.response)
        ctx.count("transitions")
        try:
            out = hvsrpy.preprocess(records, s)
        except Exception as e:          # noqa: BLE001
            self.viol(f"C17:psd_preprocess:{cls}:raises", case, expected="preprocessed records",
                      observed="".join(traceback.format_exception_only(type(e), e)).strip()[-600:],
                      explanation=f"preprocess() raised {type(e).__name__}: {e}")
            return
        if len(out) != 2:
            self.viol("C17:psd_preprocess:record-count", case, expected=2, observed=len(out),
                      explanation="window_length_in_seconds=None must give one output per input record")
            return
        n = reported_n(s)
        if not isinstance(n, int) or n < L:
            n = expected_n(L, self.fft)
        G = RP.make_gain(case["differentiate"], self.resp)
        w = RT.tukey(L, self.taper)
        ok = True
        sig = []
        for r in range(2):
            for ci, c in enumerate(COMPONENTS):
                x, comps = series[r][ci]
                got = np.asarray(getattr(out[r], c).amplitude, dtype=float)
                if len(got) != L:
                    self.viol(f"C17:psd_preprocess:{cls}:length", case, expected=L, observed=len(got),
                              explanation="preprocessed series changed length")
                    ok = False
                    continue
                ok &= self.judge_series(case, cls, r, c, x, comps, got, n, G, w)
                sig.append("%.6g" % float(got[1]))
        if ok:
            ctx.count("validated")
            ctx.nontrivial_case(self.mark(case))
            ctx.outcome(("pre", cls, sig))
            if ctx.counters["pre_sampled"] < 2 and cls != "identity":
                ctx.count("pre_sampled")
                ctx.sample(dict(self.mark(case), n=n, op=cls,
                                first_samples=_sig(getattr(out[0], "vt").amplitude)))
        return ok

    def finish(self, y, detrend):
        return RP.demean(y) if detrend == "constant" else [float(v) for v in y]

    def judge_series(self, case, cls, r, c, x, comps, got, n, G, w):
        ctx = self.ctx
        L, dt = self.L, self.dt
        det = case["detrend"]
        where = dict(record=r, component=c, n=n)

        def cmp(exp, key, text, free_constant=0.0):
            """got == exp, or (free_constant != 0) got - exp == a constant between 0 and free_constant."""
            exp = np.asarray(exp, dtype=float)
            scale = float(np.max(np.abs(exp))) if len(exp) else 0.0
            scale = max(scale, 1e-300)
            ctx.count("series_compared")
            if close(got, exp, rtol=RTOL, atol=RTOL * scale):
                return True
            if free_constant and det != "constant":
                cst = math.fsum((got - exp).tolist()) / len(exp)
                tol = RTOL * scale
                if (min(0.0, free_constant) - tol <= cst <= max(0.0, free_constant) + tol
                        and close(got, exp + cst, rtol=RTOL, atol=tol)):
                    ctx.count("dc_convention_other")
                    return True
            k = int(np.argmax(np.abs(got - exp)))
            self.viol(key, case, expected=exp, observed=got,
                      detail=dict(where, input=x, worst_sample=k), explanation=text)
            return False

        if cls == "identity":
            return cmp(self.finish(x, det), "C17:psd_preprocess:identity",
                       f"{c}: without differentiation and response the series must pass unchanged "
                       "(apart from the final detrend)")
        y0 = [a * b for a, b in zip(RP.demean(x), w)]           # detrended, tapered
        ok = True
        padded = n != L
        analytic = comps is not None and self.taper == 0.0 and not padded
        if analytic:
            exp = self.finish(RP.apply_gain_to_sinusoids(L, dt, comps, G), det)
            what = {"differentiate": "the analytic derivative",
                    "flat-response": "(x - mean) / (sensitivity * normalisation)"}.get(
                        cls, "the sinusoids divided by the analytic H(2 pi i f)"
                             + (" and differentiated" if case["differentiate"] else ""))
            ok &= cmp(exp, f"C17:psd_preprocess:{cls}:analytic",
                      f"{c}: sinusoids periodic in the window, no taper, no padding: result differs "
                      f"from {what}")
            ctx.count("analytic_compared")
        if cls == "flat-response":
            # division by s*a of the mean-removed (tapered) series, up to the
            # constant that "mean removed" may refer to (0 ... mean of the tapered series)
            sa = self.resp["sensitivity"] * self.resp["normalization"]
            resid = [float(g) * sa - v for g, v in zip(got, y0)]
            m = math.fsum(y0) / L
            cst = math.fsum(resid) / L
            scale = max(max(abs(v) for v in y0), 1e-300)
            ctx.count("series_compared")
            flat = all(abs(v - cst) <= RTOL * scale for v in resid)
            inside = min(0.0, -m) - RTOL * scale <= cst <= max(0.0, -m) + RTOL * scale
            if det == "constant":
                inside = True           # the final detrend fixes the constant
            if not (flat and inside):
                ok = False
                self.viol("C17:psd_preprocess:flat-response:division-by-sensitivity", case,
                          expected=[(v - m) / sa for v in y0], observed=got,
                          detail=dict(where, input=x, s_times_a=sa, offset_found=cst,
                                      mean_of_tapered=m),
                          explanation=f"{c}: flat response: result*s*a minus the mean-removed (tapered) "
                                      "series is not a constant between 0 and minus its mean")
            if abs(m) > 1e-6 * scale and det != "constant":
                ctx.count("flat_offset_convention_matters")
        else:
            # two real-valued operations in sequence: response removal, then differentiation
            y = y0
            if self.resp is not None:
                y = RP.apply_gain_explicit(y, n, dt, RP.make_gain(False, self.resp))
            if case["differentiate"]:
                y = RP.apply_gain_explicit(y, n, dt, RP.make_gain(True, None))
            exp = self.finish(y, det)
            # response alone with a finite H(0): whether the 0 Hz bin of the (tapered) series is
            # dropped or divided by H(0) is not pinned by the statement - accept either constant
            free = 0.0
            if cls == "pole-zero":
                h0 = complex(RP.transfer_response(0.0, self.resp["poles"], self.resp["zeros"],
                                                  self.resp["sensitivity"], self.resp["normalization"]))
                if abs(h0) > 0.0 and math.isfinite(abs(h0)):
                    free = math.fsum(y0) * (1.0 / h0).real / n
            ok &= cmp(exp, f"C17:psd_preprocess:{cls}:explicit-dft",
                      f"{c}: result differs from the explicit DFT of the detrended, tapered, zero-padded "
                      f"(n = {n}) series multiplied by the transfer function(s) (0 Hz bin dropped; response "
                      "removal and differentiation applied one after the other, each returning L real samples)",
                      free_constant=free)
            ctx.count("explicit_compared")
        # non-vacuity: the untouched input must differ from the result
        if not close(got, self.finish(x, det), rtol=1e-6, atol=1e-6):
            ctx.count("variant_identity_differs")
        return ok


def run_root_b(root, ctx, tier):
    r = RootB(root, ctx)
    for case in sub_cases(SPACE_B, ROOT_DIMS_B, root["fixed"], root["k"]):
        r.case(case)


# ---------------------------------------------------------------------------
# parts C and D: histories of  use / edit / use  on ONE settings object
#
# The statement quantifies over tapers, window counts, smoothing, responses, ... - not over the
# past of the settings object that carries them.  A history is a sequence of configurations
# c1, c2[, c3]; the settings object is built for c1 and used; before every further use it is
# edited (only the attributes whose value changes) to the next configuration, the recordings of
# that use are fresh.  The LAST use of every history is judged by the oracles of part A / B of
# its configuration; the enumerated set is prefix closed (a history of length 1 is a case of
# part A / B), so every use of every history is judged once.  Auxiliary results of the oracles
# (unsmoothed / single-window / scale-1 PSDs) come from fresh settings objects.

OUT_C = {"psd": ["off", "konno_and_ohmachi", "linear_triangular"],
         "diffuse": ["konno_and_ohmachi", "parzen", "log_rectangular"]}
SPACE_C = {                 # "out" is filled in per kind of settings object
    "taper": [0.1, 0.0, 1.0, 0.5],
    "out": None,
    "fft": ["none", "default", "n65536"],
    "L": [16, 33, 64],
    "dt": [0.01, 0.05],
    "count": [1, 2],
    "scale": [1.0, -3.0],
    "sigs": ["S0", "P342"],
}
# how the object gets from one use to the next
MANNER_C = {
    "edit": ["assign", "inplace", "load"],      # new attribute values | item assignment into the stored
                                                # list / dicts | Settings.load() of a saved fresh object
    "carry": ["same", "deepcopy"],              # the used object itself | copy.deepcopy of the used object
    "interlude": ["none", "refused"],           # a call refused for an unknown window type, then repaired
}
MANNER_D = {"edit": ["assign", "inplace"], "carry": ["same", "deepcopy"], "interlude": ["none", "refused"]}
# bounds of the history spaces per tier: deviations of c1 from the default configuration for
# histories of length 2 / 3; deviations of (c2, manner) from (c1, default manner) for length 2;
# deviations of c2 from c1 and of c3 from c2 for length 3 (default manner)
HIST = {"quick": dict(first2=1, first3=0, step2=2, step3=1),
        "thorough": dict(first2=2, first3=1, step2=2, step3=1)}
# part D, quick: three of the six responses; signal and offset vary in c1 only
RESPONSES_D_QUICK = ["none", "flat", "geophone"]
INPUT_ONLY_D = ("signal", "offset")
MAX_JUDGES = 12


def space_c(kind, tier):
    sp = dict(SPACE_C)
    sp["out"] = list(OUT_C[kind])
    if tier != "thorough":
        sp["taper"] = sp["taper"][:3]
    return sp


def around(space, c):
    """``space`` with the value of configuration c first in every dimension."""
    return {d: [c[d]] + [v for v in vals if v != c[d]] for d, vals in space.items()}


def default_manner(manners):
    return {m: v[0] for m, v in manners.items()}


def space_d(tier):
    sp = dict(SPACE_B)
    sp["signal"] = ["noise", "C0", "C1", "C2"]      # broadband first: every bin of a later use carries energy
    if tier != "thorough":
        sp["response"] = list(RESPONSES_D_QUICK)
    return sp


def step_dims_d(tier):
    return [d for d in SPACE_B if tier == "thorough" or d not in INPUT_ONLY_D]


def histories(space, step_dims, manners, first, length, k):
    """Every (configurations, manner) of the root (first, length): see the comment above.
    Dimensions outside step_dims keep the value they have in ``first``."""
    sub = {d: space[d] for d in step_dims}
    if length == 2:
        full = around(sub, first)
        full.update(manners)
        for t in product.deviations(full, k):
            yield [first, dict(first, **{d: t[d] for d in sub})], {m: t[m] for m in manners}
    else:
        for t2 in product.deviations(around(sub, first), k):
            c2 = dict(first, **t2)
            for t3 in product.deviations(around(sub, c2), k):
                yield [first, c2, dict(c2, **t3)], default_manner(manners)


def n_histories(space, step_dims, manners, length, k):
    sub = {d: space[d] for d in step_dims}
    if length == 2:
        full = dict(sub)
        full.update(manners)
        return product.size(full, k)
    return product.size(sub, k) ** 2


def edit_list_attr(s, name, value, mode):
    cur = getattr(s, name)
    if mode == "inplace" and isinstance(cur, list) and len(cur) == len(value):
        for i, v in enumerate(value):
            cur[i] = v
    else:
        setattr(s, name, value)


def edit_fft(s, request, mode):
    if mode == "inplace" and isinstance(s.fft_settings, dict) and isinstance(request, dict):
        for k_, v in request.items():
            s.fft_settings[k_] = v
    else:
        s.fft_settings = request


def refused_call(s, call, ctx):
    """The user mistypes the window type; the call is refused (or not - not C17's business)."""
    s.window_type_and_width = ["no_such_window", 0.3]
    try:
        call(s)
        ctx.count("interlude_call_not_refused")
    except Exception:                   # noqa: BLE001
        ctx.count("refused_calls")


def reused_key(key):
    parts = key.split(":")
    if len(parts) > 2 and (parts[1].startswith("process(") or parts[1] == "psd_preprocess"):
        parts.insert(2, "reused-settings")
    return ":".join(parts)


HISTORY_TEXT = ("settings object built for history[0] and used; before each later use: carry (same object | "
                "deepcopy), interlude (none | refused call with an unknown window type), edit of the attributes "
                "that change (assign | inplace | load); fresh recordings for every use; the LAST use is judged; ")


class HistJudgeA(RootA):
    """Part A's oracles for the last use of a history (main result from the reused object)."""

    def __init__(self, real_root, fixed, ctx):
        RootA.__init__(self, dict(fixed=fixed), ctx)
        self.root = real_root
        self.always_welch = True
        self.history = None

    def mark(self, case):
        return dict(part="C", history=self.history)

    def viol(self, key, case, **kw):
        detail = dict(case=case, fixed=self.fixed, sigset=SIGSETS[self.sigs], history=self.history,
                      construction=HISTORY_TEXT + "window i = signal triple rotated by i, gain (1+i/2)*scale; "
                                   "signals from hvmc.alphabets.signal(name, L); auxiliary PSDs of the oracle "
                                   "from fresh settings objects with fft_settings = fixed['fft']")
        detail.update(kw.pop("detail", {}))
        if "explanation" in kw:
            kw["explanation"] = "[settings object used before] " + kw["explanation"]
        self.ctx.violation(reused_key(key), self.root, detail=detail, **kw)


class RootC:
    def __init__(self, root, ctx):
        self.root, self.ctx = root, ctx
        self.kind = root["kind"]
        self.space = space_c(self.kind, root["tier"])
        self.judges = {}
        self.tmp = None

    def out(self, c):
        return self.kind + ":" + c["out"]

    def fresh(self, c):
        return build_settings(c["dt"], c["taper"], c["fft"], self.out(c))

    @staticmethod
    def windows(c):
        return [window_arrays(c["sigs"], i, c["L"], c["scale"]) for i in range(c["count"])]

    def edit(self, s, prev, cur, mode, repair):
        if mode == "load":
            if self.tmp is None:
                self.tmp = tempfile.mkdtemp(prefix="c17-")
            path = os.path.join(self.tmp, "settings.json")
            self.fresh(cur).save(path)
            s.load(path)
            return
        if prev["taper"] != cur["taper"] or repair:
            edit_list_attr(s, "window_type_and_width", ["tukey", cur["taper"]], mode)
        sp = None if prev["out"] == "off" else smoothing_spec(prev["out"], prev["dt"])
        sc = None if cur["out"] == "off" else smoothing_spec(cur["out"], cur["dt"])
        if sp != sc:
            if mode == "inplace" and isinstance(s.smoothing, dict) and sc is not None:
                for k_, v in sc.items():
                    s.smoothing[k_] = v
            else:
                s.smoothing = sc
        if prev["fft"] != cur["fft"]:
            edit_fft(s, fft_request(cur["fft"]), mode)

    def judge(self, c, fft):
        fixed = dict(L=c["L"], dt=c["dt"], sigs=c["sigs"], count=c["count"], fft=fft)
        key = repr(sorted(fixed.items()))
        if key not in self.judges:
            if len(self.judges) >= MAX_JUDGES:
                self.judges.clear()
            self.judges[key] = HistJudgeA(self.root, fixed, self.ctx)
        return self.judges[key]

    def judge_for(self, c, n_main):
        """The judge whose fresh-object calls use the FFT length of the judged call."""
        cands = [c["fft"]]
        if isinstance(n_main, int) and not isinstance(n_main, bool):
            cands.append(int(n_main))
        for fft in cands:
            J = self.judge(c, fft)
            base = J.unsmoothed(c["taper"], c["scale"])
            if isinstance(base, Exception) or len(cands) == 1 or base[2] == n_main:
                J.aux_ok = True
                return J
        J = self.judge(c, c["fft"])
        J.aux_ok = False
        return J

    def history(self, hist, manner):
        ctx = self.ctx
        ctx.count("states")
        ctx.count("histories")
        s = self.fresh(hist[0])
        prev = None
        res = err = None
        for i, c in enumerate(hist):
            if i:
                if manner["carry"] == "deepcopy":
                    s = copy.deepcopy(s)
                repair = manner["interlude"] == "refused"
                if repair:
                    refused_call(s, lambda s_, p=prev: hvsrpy.process(make_records(self.windows(p), p["dt"]), s_),
                                 ctx)
                self.edit(s, prev, c, manner["edit"], repair)
            ctx.count("transitions")
            try:
                res = hvsrpy.process(make_records(self.windows(c), c["dt"]), s)
            except Exception as e:          # noqa: BLE001
                if i < len(hist) - 1:
                    ctx.count("history_prefix_raised")      # judged as the last use of the shorter history
                    return
                err = e
            prev = c
        c = hist[-1]
        n = reported_n(s)
        J = self.judge_for(c, n)
        J.history = dict(kind=self.kind, configurations=hist, manner=manner)
        case = dict(taper=c["taper"], out=self.out(c), scale=c["scale"])
        kind, op = case["out"].split(":")
        before = ctx.counters["validated"]
        if err is not None:
            if op != "off":
                exp = J.expected_smoothed(case, kind, op)
                if exp == "no-kernels":
                    ctx.count("skipped_no_kernels")
                    return
                if exp is not None and exp[1]:
                    ctx.count("skipped_undefined_reference")
                    return
            J.raised(case, err, "last use of the history")
            return
        if kind == "psd" and op == "off":
            J.judge_unsmoothed(case, res, n, self.windows(c))
        elif kind == "psd":
            J.judge_smoothed(case, res, op)
        else:
            J.judge_diffuse(case, res, op)
        if ctx.counters["validated"] > before:
            ctx.count("history_validated")
            p = hist[-2]
            if p["L"] == c["L"] and kind == "psd":
                a, b = RT.mean_square(RT.tukey(c["L"], p["taper"])), RT.mean_square(RT.tukey(c["L"], c["taper"]))
                if abs(a - b) > 1e-6 * b:
                    ctx.count("variant_stale_taper_norm_differs")
            if n != expected_n(c["L"], c["fft"]):
                ctx.count("history_fft_length_carried")

    def close(self):
        if self.tmp is not None:
            shutil.rmtree(self.tmp, ignore_errors=True)


def run_root_c(root, ctx, tier):
    r = RootC(root, ctx)
    try:
        for hist, manner in histories(r.space, list(r.space), MANNER_C, root["first"], root["length"],
                                      root["k"]):
            r.history(hist, manner)
    finally:
        r.close()


class HistJudgeB(RootB):
    def __init__(self, real_root, fixed, ctx):
        RootB.__init__(self, dict(fixed=fixed), ctx)
        self.root = real_root
        self.history = None

    def mark(self, case):
        return dict(part="D", history=self.history)

    def viol(self, key, case, **kw):
        detail = dict(case=case, fixed=self.fixed, response=self.resp, history=self.history,
                      construction=HISTORY_TEXT + "record r, component c: see hvmc.checks.c17.pre_series; "
                                   "settings: orient None, no filter, window_length None")
        detail.update(kw.pop("detail", {}))
        if "explanation" in kw:
            kw["explanation"] = "[settings object used before] " + kw["explanation"]
        self.ctx.violation(reused_key(key), self.root, detail=detail, **kw)


class RootD:
    def __init__(self, root, ctx):
        self.root, self.ctx = root, ctx

    @staticmethod
    def fresh(c):
        return build_pre_settings(c["dt"], c["fft"], c["taper"], c["response"], c["differentiate"],
                                  c["detrend"])

    @staticmethod
    def edit(s, prev, cur, mode, repair):
        if prev["detrend"] != cur["detrend"]:
            s.detrend = cur["detrend"]
        if prev["taper"] != cur["taper"] or repair:
            edit_list_attr(s, "window_type_and_width", ["tukey", cur["taper"]], mode)
        if prev["fft"] != cur["fft"]:
            edit_fft(s, fft_request(cur["fft"]), mode)
        if response_spec(prev["response"], prev["dt"]) != response_spec(cur["response"], cur["dt"]):
            s.instrument_transfer_function = make_itf(response_spec(cur["response"], cur["dt"]))
        if prev["differentiate"] != cur["differentiate"]:
            s.differentiate = cur["differentiate"]

    def history(self, hist, manner):
        ctx = self.ctx
        ctx.count("states")
        ctx.count("histories")
        s = self.fresh(hist[0])
        prev = None
        for i, c in enumerate(hist[:-1]):
            if i:
                if manner["carry"] == "deepcopy":
                    s = copy.deepcopy(s)
                self.edit(s, prev, c, manner["edit"], False)
            ctx.count("transitions")
            try:
                hvsrpy.preprocess(pre_inputs(c["signal"], c["offset"], c["L"], c["dt"])[1], s)
            except Exception:               # noqa: BLE001
                ctx.count("history_prefix_raised")          # judged as the last use of the shorter history
                return
            prev = c
        c = hist[-1]
        if manner["carry"] == "deepcopy":
            s = copy.deepcopy(s)
        repair = manner["interlude"] == "refused"
        if repair:
            refused_call(s, lambda s_, p=prev: hvsrpy.preprocess(
                pre_inputs(p["signal"], p["offset"], p["L"], p["dt"])[1], s_), ctx)
        self.edit(s, prev, c, manner["edit"], repair)
        J = HistJudgeB(self.root, {d: c[d] for d in ROOT_DIMS_B}, ctx)
        J.history = dict(configurations=hist, manner=manner)
        case = {d: c[d] for d in SPACE_B if d not in ROOT_DIMS_B}
        series, records = pre_inputs(c["signal"], c["offset"], c["L"], c["dt"])
        if J.execute(case, series, records, s):
            ctx.count("history_validated")
            n = reported_n(s)
            if n != expected_n(c["L"], c["fft"]):
                ctx.count("history_fft_length_carried")


def run_root_d(root, ctx, tier):
    r = RootD(root, ctx)
    for hist, manner in histories(space_d(root["tier"]), step_dims_d(root["tier"]), MANNER_D,
                                  root["first"], root["length"], root["k"]):
        r.history(hist, manner)


def _history_roots(tier):
    h = HIST[tier]
    out = []
    for length, kf, ks in ((2, h["first2"], h["step2"]), (3, h["first3"], h["step3"])):
        for kind in ("psd", "diffuse"):
            for first in product.deviations(space_c(kind, tier), kf):
                out.append(dict(part="C", tier=tier, kind=kind, first=first, length=length, k=ks))
        for first in product.deviations(space_d(tier), kf):
            out.append(dict(part="D", tier=tier, first=first, length=length, k=ks))
    return out


def history_bounds(tier):
    h = HIST[tier]
    out = {}
    for length, kf, ks in ((2, h["first2"], h["step2"]), (3, h["first3"], h["step3"])):
        for kind in ("psd", "diffuse"):
            sp = space_c(kind, tier)
            out["C_%s_length%d" % (kind, length)] = dict(
                first=product.size(sp, kf), per_first=n_histories(sp, list(sp), MANNER_C, length, ks))
        sp = space_d(tier)
        out["D_length%d" % length] = dict(
            first=product.size(sp, kf), per_first=n_histories(sp, step_dims_d(tier), MANNER_D, length, ks))
    return out


# ---------------------------------------------------------------------------
# runner interface

def _roots_of(space, root_dims, part, tier, k):
    out = []
    rs = {d: space[d] for d in root_dims}
    for fixed in product.deviations(rs, None):
        root = dict(part=part, tier=tier, k=k, fixed=fixed)
        if sub_cases(space, root_dims, fixed, k):
            out.append(root)
    return out


def roots(tier, seed):
    k = None if tier == "thorough" else K_QUICK
    return (_roots_of(tier_space(SPACE_A, tier), ROOT_DIMS_A, "A", tier, k)
            + _roots_of(SPACE_B, ROOT_DIMS_B, "B", tier, k)
            + _roots_of(space_e(tier), ROOT_DIMS_E, "E", tier, K_E[tier])
            + _history_roots(tier))


def run_root(root, ctx, tier):
    {"A": run_root_a, "B": run_root_b, "C": run_root_c, "D": run_root_d, "E": run_root_e}[root["part"]](root, ctx, tier)


def warm():
    """Compile / load the numba kernels once in the parent."""
    from hvsrpy.smoothing import SMOOTHING_OPERATORS
    f = np.fft.rfftfreq(16, 0.01)
    for name, op in SMOOTHING_OPERATORS.items():
        bw = 5 if name == "savitzky_and_golay" else 1.0
        op(f, np.ones((2, len(f))), np.array([5.0, 10.0]), bw)
    ref_kernels()


NONVACUITY = ("variant_no_taper_norm_differs", "variant_div_n_differs",
              "variant_sum_not_mean_differs", "variant_identity_differs", "analytic_compared",
              "explicit_compared", "welch_compared", "scale_compared",
              "diffuse_scale_invariance_compared",
              # part E: calls with hundreds of windows were judged (Parseval + Welch) and the energy did
              # depend on the position in the call
              "many_windows_validated", "many_windows_welch_compared", "variant_first_half_mean_differs",
              # parts C / D: histories were judged, the stale-taper normalisation would have differed,
              # refused interludes were refused, an FFT length written back by an earlier use was met
              "history_validated", "variant_stale_taper_norm_differs", "refused_calls",
              "history_fft_length_carried")


def finalize(ctx, tier):
    c = ctx.counters
    ctx.notes["ref_kernels_available"] = ref_kernels() is not None
    missing = [name for name in NONVACUITY if not c.get(name, 0)]
    if missing and not ctx.violation_counts:
        ctx.violation("C17:harness:vacuous-oracle", dict(tier=tier),
                      detail=dict(counters=dict(c)), observed=missing,
                      explanation="an oracle (or its deliberately wrong variant) was never exercised")


def describe(tier):
    k = None if tier == "thorough" else K_QUICK
    sa = tier_space(SPACE_A, tier)
    return dict(
        rule="two configuration spaces, each case executed on the real code: "
             "A = process() with PSD / diffuse-field settings over (L, dt, signal triple, window count, "
             "FFT request, Tukey width, output = unsmoothed | smoothed per operator | diffuse field per "
             "operator, amplitude scale); B = preprocess() with PSD settings over (L, dt, FFT request, "
             "Tukey width, response, signal, offset, differentiate, final detrend), two records x three "
             "components per call; "
             + ("every case within %d deviations from the first value of each dimension" % k if k
                else "the full product of both spaces")
             + "; C / D = histories use-edit-use[-edit-use] on ONE PsdProcessingSettings / "
               "HvsrDiffuseFieldProcessingSettings (C) or PsdPreProcessingSettings (D) object: configurations "
               "c1, c2[, c3] (c1 within first2 / first3 deviations of the default, length 2: (c2, manner) within "
               "step2 deviations of (c1, default manner), length 3: each step within step3 deviations, default "
               "manner); manner = how the attributes are edited (assign | inplace | load), what is carried "
               "(the object | its deepcopy) and whether a refused call lies in between; the last use of every "
               "history is judged by the oracles of A / B of its configuration (auxiliary PSDs from fresh "
               "settings objects with the FFT length the judged call reports); the sets are prefix closed"
             + "; E = part A's cases and oracles for calls with MANY windows (counts around 256 and 512) crossed "
               "with the distribution of the energy over the positions in the call (ramp | loud last seventh | "
               "loud first seventh | equal), every case within %d deviations from the first value of each "
               "dimension of space_E; the Welch reference is the streamed mean of the PSDs of the same windows "
               "processed one at a time, the Parseval reference the mean of the time-domain bookkeeping of "
               "every window" % K_E[tier]
             + "; a case is non-trivial/distinct by its (part, dimension values) and counted when every "
               "comparison of that case was made against the reference",
        bounds=dict(space_A={d: v for d, v in sa.items()}, space_B=SPACE_B,
                    deviation_bound=k, size_A=product.size(sa, k), size_B=product.size(SPACE_B, k),
                    space_C=dict(space_c("psd", tier), out=OUT_C), manner_C=MANNER_C,
                    space_D=space_d(tier), step_dims_D=step_dims_d(tier), manner_D=MANNER_D,
                    history_deviation_bounds=HIST[tier], histories=history_bounds(tier),
                    space_E=space_e(tier), profiles_E=sorted(PROFILES), deviation_bound_E=K_E[tier],
                    size_E=product.size(space_e(tier), K_E[tier]),
                    rtol=RTOL),
        exhaustive=True,
        assumptions=[
            "n >= L (zero-padding) - prepare_fft_settings never yields a shorter transform for equal-length windows",
            "the FFT length used for the Parseval bookkeeping is the one hvsrpy reports in settings.fft_settings['n']; "
            "the returned grid must be k/(n dt), k = 0..n//2",
            "smoothed PSDs and (when ref.kernels is importable) the diffuse field are compared with "
            "hvmc.ref.kernels applied to hvsrpy's unsmoothed PSD of the same windows; centre frequencies "
            "whose kernel row is knife-edge are not compared; cases whose reference is undefined "
            "(0/0, negative Savitzky-Golay output) are skipped and counted",
            "flat response with a taper: 'mean removed' is accepted for any constant between 0 and the mean "
            "of the tapered series; with differentiation / poles and zeros under a taper or zero-padding the "
            "expected series is the explicit DFT of the detrended, tapered, padded series (Hermitian "
            "convention, 0 Hz bin dropped)",
            "orientation, filtering and window splitting are switched off in preprocessing (C10 covers them)",
            "histories (C / D): an edit touches only the attributes whose value changes, so an FFT length that an "
            "earlier use wrote into settings.fft_settings stays in force (how {'n': None} is re-resolved is C09's "
            "subject); every oracle uses the length the judged call reports, and the fresh-object auxiliary calls "
            "request that length; only the last use of a history is judged (hvsrpy is deterministic and every "
            "proper prefix is a history of the enumerated set or a case of A / B); a history whose earlier use "
            "raises is dropped and counted (history_prefix_raised)",
            "part E: window counts up to 513 of 16 / 33 samples stand for 'many windows' (a bound of the check, "
            "not of the statement); with fft_settings=None the transform has 32768 points as in production use",
            "amplitude scales 1e-12 .. 1e9: squares stay within 1e-24 .. 1e18 times the O(1) signal power, i.e. "
            "no underflow/overflow in double precision; every tolerance is relative to the power of the case, so "
            "an absolute floor or threshold in the PSD / diffuse-field path is a violation, not a tolerance",
        ])
