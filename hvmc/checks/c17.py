"""C17 - PSD normalisation (Parseval, amplitude scaling, Welch averaging), the
diffuse-field HVSR as a ratio of smoothed PSDs, and PSD preprocessing
(spectral differentiation, removal of a flat / pole-zero instrument response).

E2: two completely enumerated configuration spaces (module constants SPACE_A,
SPACE_B), every case executed on the real hvsrpy code:

A. process(records, PsdProcessingSettings | HvsrDiffuseFieldProcessingSettings)
   window length x time step x signal triple x window count x Tukey width x
   FFT request x output (unsmoothed PSD | smoothed PSD per operator | diffuse
   field per operator) x amplitude scale.
   Oracles: time-domain Parseval (ref.psd, no FFT); PSD(c x) == c^2 PSD(x);
   PSD of several windows == mean of the single-window PSDs; smoothed PSD ==
   reference kernel (ref.kernels) applied to the unsmoothed PSD of the same
   windows; diffuse field == sqrt(smooth(Pns + Pew) / smooth(Pvt)).
   The amplitude scales include 1e-9, 1e-12 and 1e9: the PSD laws are
   homogeneous of degree two and the diffuse-field ratio is scale invariant,
   so no absolute threshold may show up anywhere (all tolerances are relative).
B. preprocess(records, PsdPreProcessingSettings)
   window length x time step x signal set x offset x differentiate x response
   x Tukey width x FFT request x final detrend.
   Oracles: analytic image of sinusoids that are periodic in the window
   (taper width 0, no padding); flat response == division by s*a of the
   mean-removed series; everything else against the explicit (matrix) DFT of
   the detrended, tapered, zero-padded series.

Every call gets fresh recordings, fresh settings and fresh fft_settings dicts:
process() tapers its inputs in place (C09) and writes the FFT length back.
"""
import math
import traceback

import numpy as np

import hvsrpy
from hvsrpy import SeismicRecording3C, TimeSeries
from hvsrpy.instrument_response import InstrumentTransferFunction
from hvsrpy.settings import (HvsrDiffuseFieldProcessingSettings, PsdPreProcessingSettings,
                             PsdProcessingSettings)

from hvmc import alphabets as A
from hvmc.engine import product
from hvmc.engine.core import close
from hvmc.ref import psd as RP
from hvmc.ref import taper as RT

PROPERTY = "C17"
RTOL = 1e-9
COMPONENTS = ("ns", "ew", "vt")

# ---------------------------------------------------------------------------
# alphabets

# three different signals per window, or a proportional triple (3, 4, 2) * noise1
SIGSETS = {
    "S0": [["ramp", 1.0], ["noise1", 1.0], ["offgrid_sine", 1.0]],
    "S1": [["two_sines", 1.0], ["impulse_mid", 1.0], ["noise2", 1.0]],
    "S2": [["alt", 1.0], ["impulse0", 1.0], ["noise3", 1.0]],
    "P342": [["noise1", 3.0], ["noise1", 4.0], ["noise1", 2.0]],
}
OPERATORS = ("konno_and_ohmachi", "parzen", "savitzky_and_golay", "linear_rectangular",
             "log_rectangular", "linear_triangular", "log_triangular")
FC_FRACTIONS = (0.13, 0.29, 0.52, 0.81)          # of the Nyquist frequency
PARZEN_A = 280.0 * math.pi / 302.0

SPACE_A = {
    "L": [16, 33, 64],
    "dt": [0.01, 0.05],
    "sigs": ["S0", "S1", "S2", "P342"],
    "count": [1, 2, 3],
    "fft": ["none", "default", "n65536"],
    "taper": [0.1, 0.0, 1.0, 0.5],
    "out": ["psd:off"] + ["psd:" + o for o in OPERATORS] + ["diffuse:" + o for o in OPERATORS],
    # 1e-9 / 1e-12: recordings in m/s resp. m (PSD ~1e-18 .. 1e-24, far below machine epsilon but
    # far above the underflow threshold); 1e9: raw counts.  Every oracle is relative to the signal power.
    "scale": [1.0, 10.0, -3.0, 1e-9, 1e-12, 1e9],
}
ROOT_DIMS_A = ("L", "dt", "sigs", "count", "fft")

RESPONSES = ("none", "flat", "flat_neg", "pz_highpass", "pz_lead", "geophone")
SPACE_B = {
    "L": [16, 33, 64],
    "dt": [0.01, 0.05],
    "fft": ["none", "default"],
    "taper": [0.0, 0.1, 1.0],
    "response": list(RESPONSES),
    "signal": ["C0", "C1", "C2", "noise"],
    "offset": [0.7, 0.0],
    "differentiate": [True, False],
    "detrend": ["none", "constant"],
}
ROOT_DIMS_B = ("L", "dt", "fft", "taper", "response")
SINUSOIDS = {                      # (cycles per window k < L/2, amplitude, phase)
    "C0": [[2, 1.0, 0.3], [3, 0.5, -1.1]],
    "C1": [[1, 2.0, 0.0]],
    "C2": [[5, 1.0, 1.0], [7, 0.25, 2.0]],
}

K_QUICK = 3          # deviation bound of the quick tier (both spaces)


def fft_request(name):
    """A FRESH fft_settings value for every call."""
    return {"none": {"n": None}, "default": None, "n65536": {"n": 65536}}[name]


def smoothing_spec(op, dt):
    """One bandwidth per operator, wide enough that no window is empty on the
    coarsest grid (n = L = 16); centre frequencies as fractions of Nyquist."""
    fs = 1.0 / dt
    fnyq = fs / 2.0
    bw = {"konno_and_ohmachi": 40.0,
          "parzen": math.sqrt(6.0) * PARZEN_A / (0.085 * fs),     # half-width 0.17 f_Nyq
          "savitzky_and_golay": 5,
          "linear_rectangular": 0.17 * fs,
          "linear_triangular": 0.17 * fs,
          "log_rectangular": 0.2,
          "log_triangular": 0.2}[op]
    return dict(operator=op, bandwidth=bw,
                center_frequencies_in_hz=[q * fnyq for q in FC_FRACTIONS])


def response_spec(name, dt):
    """Concrete pole/zero/sensitivity/normalisation values (poles scale with fs)."""
    if name == "none":
        return None
    w = 2.0 * math.pi / dt          # 2 pi fs
    if name == "flat":
        return dict(poles=[], zeros=[], sensitivity=4.0, normalization=2.5)
    if name == "flat_neg":
        return dict(poles=[], zeros=[], sensitivity=-2.0, normalization=0.75)
    if name == "pz_highpass":
        return dict(poles=[[-0.1 * w, 0.0]], zeros=[[0.0, 0.0]], sensitivity=4.0, normalization=2.5)
    if name == "pz_lead":
        return dict(poles=[[-0.3 * w, 0.0]], zeros=[[-0.05 * w, 0.0]], sensitivity=1.5,
                    normalization=0.8)
    if name == "geophone":
        return dict(poles=[[-0.07 * w, 0.07 * w], [-0.07 * w, -0.07 * w]],
                    zeros=[[0.0, 0.0], [0.0, 0.0]], sensitivity=4.0, normalization=2.5)
    raise KeyError(name)


_RK = [False]


def ref_kernels():
    """hvmc.ref.kernels (written for C02) or None while it does not exist."""
    if _RK[0] is False:
        try:
            from hvmc.ref import kernels
            _RK[0] = kernels
        except ImportError:
            _RK[0] = None
    return _RK[0]


# ---------------------------------------------------------------------------
# part A: helpers

def window_arrays(sigs, i, L, scale):
    """The three component arrays of window i: triple rotated by i, gain (1 + i/2) * scale."""
    trip = SIGSETS[sigs]
    r = i % 3
    rot = trip[r:] + trip[:r]
    gain = (1.0 + 0.5 * i) * scale
    return [A.sig_array(name, L) * (fac * gain) for name, fac in rot]


def make_records(windows, dt):
    return [SeismicRecording3C(*[TimeSeries(np.array(x, dtype=float), dt) for x in w])
            for w in windows]


def call_process(windows, dt, taper, fft, out):
    """Execute the real code on fresh objects.  Returns (result, n reported by hvsrpy)."""
    kind, op = out.split(":")
    if kind == "psd":
        s = PsdProcessingSettings(window_type_and_width=["tukey", taper],
                                  fft_settings=fft_request(fft))
        s.smoothing = None if op == "off" else smoothing_spec(op, dt)
    else:
        s = HvsrDiffuseFieldProcessingSettings(window_type_and_width=["tukey", taper],
                                               smoothing=smoothing_spec(op, dt),
                                               fft_settings=fft_request(fft))
    res = hvsrpy.process(make_records(windows, dt), s)
    n = s.fft_settings.get("n") if isinstance(s.fft_settings, dict) else None
    return res, n


def expected_n(L, fft):
    if fft == "none":
        return L
    n = 32768
    while n <= L:
        n *= 2
    return max(n, 65536) if fft == "n65536" else n


_W_CACHE = {}


def ref_smooth(op, freqs, rows, spec):
    """Reference smoothing (ref.kernels) of spectrum rows; returns (out[row][fc], knife mask)."""
    RK = ref_kernels()
    fcs = spec["center_frequencies_in_hz"]
    key = (op, len(freqs), float(freqs[1]), tuple(fcs), spec["bandwidth"])
    if key not in _W_CACHE:
        if len(_W_CACHE) > 40:
            _W_CACHE.clear()
        W, knife = RK.matrix(op, [float(f) for f in freqs], fcs, spec["bandwidth"])
        _W_CACHE[key] = ([np.nonzero(W[c])[0] for c in range(len(fcs))], W, knife)
    nz, W, knife = _W_CACHE[key]
    out = []
    for row in rows:
        out.append([math.fsum((W[c, nz[c]] * row[nz[c]]).tolist()) for c in range(len(fcs))])
    return np.array(out, dtype=float), np.asarray(knife, dtype=bool)


def hv_smooth(op, freqs, rows, spec):
    """hvsrpy's own operator (used only when ref.kernels is missing)."""
    from hvsrpy.smoothing import SMOOTHING_OPERATORS
    return SMOOTHING_OPERATORS[op](np.asarray(freqs, dtype=float), np.array(rows, dtype=float),
                                   np.array(spec["center_frequencies_in_hz"], dtype=float),
                                   spec["bandwidth"])


def _sig(v):
    return ["%.6g" % float(x) for x in np.asarray(v, dtype=float).ravel()[:6]]


# ---------------------------------------------------------------------------
# part A: one root = fixed (L, dt, sigs, count, fft); cases = (taper, out, scale)

class RootA:
    def __init__(self, root, ctx):
        self.root = root
        self.ctx = ctx
        f = root["fixed"]
        self.L, self.dt, self.sigs, self.count, self.fft = (f["L"], f["dt"], f["sigs"],
                                                           f["count"], f["fft"])
        self.unsm = {}           # (taper, scale) -> unsmoothed PSD result of all windows
        self.single = {}         # (i, taper, scale) -> unsmoothed PSD result of window i
        self.diffuse1 = {}       # (taper, operator) -> diffuse-field amplitudes at scale 1

    # -- executions ----------------------------------------------------------
    def windows(self, scale):
        return [window_arrays(self.sigs, i, self.L, scale) for i in range(self.count)]

    def run(self, windows, taper, out):
        self.ctx.count("transitions")
        return call_process(windows, self.dt, taper, self.fft, out)

    def unsmoothed(self, taper, scale):
        key = (taper, scale)
        if key not in self.unsm:
            try:
                res, n = self.run(self.windows(scale), taper, "psd:off")
                self.unsm[key] = (dict((c, np.array(res[c].amplitude)) for c in COMPONENTS),
                                  np.array(res["vt"].frequency), n)
            except Exception as e:      # noqa: BLE001 - judged where the main call is judged
                self.unsm[key] = e
        return self.unsm[key]

    def single_window(self, i, taper, scale):
        key = (i, taper, scale)
        if key not in self.single:
            try:
                res, n = self.run([window_arrays(self.sigs, i, self.L, scale)], taper, "psd:off")
                self.single[key] = dict((c, np.array(res[c].amplitude)) for c in COMPONENTS)
            except Exception as e:      # noqa: BLE001
                self.single[key] = e
        return self.single[key]

    def diffuse_at_scale_one(self, taper, op):
        key = (taper, op)
        if key not in self.diffuse1:
            try:
                res, _ = self.run(self.windows(1.0), taper, "diffuse:" + op)
                self.diffuse1[key] = np.asarray(res.amplitude, dtype=float)
            except Exception as e:      # noqa: BLE001 - the scale-1 case is judged as a case of its own
                self.diffuse1[key] = e
        return self.diffuse1[key]

    # -- reporting -------------------------------------------------------------
    def viol(self, key, case, **kw):
        detail = dict(case=case, fixed=self.root["fixed"], sigset=SIGSETS[self.sigs],
                      construction="window i = signal triple rotated by i, gain (1+i/2)*scale; "
                                   "signals from hvmc.alphabets.signal(name, L)")
        detail.update(kw.pop("detail", {}))
        self.ctx.violation(key, self.root, detail=detail, **kw)

    def raised(self, case, e, where):
        odd = self.fft == "none" and self.L % 2 == 1
        if odd:
            key = "C17:_rpds_single_component:odd-fft-length:raises"
            expl = (f"PSD/diffuse-field processing with an odd FFT length (window of {self.L} samples, "
                    f"fft_settings={{'n': None}}) raises {type(e).__name__}: {e}")
        else:
            key = f"C17:process({case['out'].split(':')[0]}):raises"
            expl = f"process() raised {type(e).__name__}: {e} ({where})"
        self.viol(key, case, expected="a value", explanation=expl,
                  observed="".join(traceback.format_exception_only(type(e), e)).strip()[-600:])

    # -- one case --------------------------------------------------------------
    def case(self, case):
        ctx = self.ctx
        ctx.count("states")
        taper, out, scale = case["taper"], case["out"], case["scale"]
        kind, op = out.split(":")
        windows = self.windows(scale)
        try:
            res, n = self.run(windows, taper, out)
        except Exception as e:          # noqa: BLE001
            # a refusal is legitimate only where the reference result is undefined
            if op != "off":
                exp = self.expected_smoothed(case, kind, op)
                if exp == "no-kernels":
                    ctx.count("skipped_no_kernels")
                    return
                if exp is not None and exp[1]:
                    ctx.count("skipped_undefined_reference")
                    return
            self.raised(case, e, "main call")
            return
        if kind == "psd" and op == "off":
            self.judge_unsmoothed(case, res, n, windows)
        elif kind == "psd":
            self.judge_smoothed(case, res, op)
        else:
            self.judge_diffuse(case, res, op)

    # -- oracles -----------------------------------------------------------------
    def judge_unsmoothed(self, case, res, n, windows):
        ctx = self.ctx
        L, dt = self.L, self.dt
        taper, scale = case["taper"], case["scale"]
        if not isinstance(n, int) or isinstance(n, bool) or n < L:
            self.viol("C17:process(psd):fft-length-not-reported", case, observed=n,
                      explanation="settings.fft_settings['n'] after process() is not an integer >= L")
            return
        w = RT.tukey(L, taper)
        nb = RP.n_onesided(n)
        df = 1.0 / (n * dt)
        fnyq = 1.0 / (2.0 * dt)
        ok = True
        sig = []
        for ci, c in enumerate(COMPONENTS):
            amp = np.asarray(res[c].amplitude, dtype=float)
            frq = np.asarray(res[c].frequency, dtype=float)
            if len(amp) != nb or len(frq) != nb or not close(frq, [k * df for k in range(nb)],
                                                             rtol=1e-12, atol=1e-12 * fnyq):
                self.viol("C17:process(psd):one-sided-grid", case, expected=dict(bins=nb, df=df),
                          observed=dict(len_amp=len(amp), len_frq=len(frq), first=_sig(frq)),
                          explanation=f"{c}: the PSD is not given on the one-sided grid k/(n dt), "
                                      f"k = 0..n//2 (n = {n})")
                ok = False
                continue
            # (1) Parseval, from the frequencies hvsrpy returns
            interior = [k for k in range(nb) if 0.0 < frq[k] < fnyq * (1 - 1e-12)]
            lhs = math.fsum(amp[interior].tolist()) * df
            per_window = [RP.parseval_rhs(win[ci].tolist(), w, n) for win in windows]
            rhs = math.fsum(per_window) / len(per_window)
            total = math.fsum(math.fsum((x * t) ** 2 for x, t in zip(win[ci].tolist(), w))
                              for win in windows) / (len(windows) * L * RT.mean_square(w))
            sig.append("%.9g" % lhs)
            if abs(lhs - rhs) > RTOL * total:
                ok = False
                self.viol(f"C17:process(psd):{'single-window' if self.count == 1 else 'multi-window'}:parseval",
                          case, expected=rhs, observed=lhs,
                          detail=dict(component=c, n=n, df=df,
                                      terms=[RP.parseval_terms(win[ci].tolist(), w, n) for win in windows]),
                          explanation=f"{c}: sum over 0<f<Nyquist of PSD*df = {lhs!r}, time-domain "
                                      f"bookkeeping of the tapered window(s) gives {rhs!r}")
            # non-vacuity: deliberately wrong normalisations must differ somewhere
            if total > 0:
                if abs(rhs * RT.mean_square(w) - rhs) > 1e-6 * total:
                    ctx.count("variant_no_taper_norm_differs")
                if n != L and abs(rhs * n / L - rhs) > 1e-6 * total:
                    ctx.count("variant_div_n_differs")
                if len(windows) > 1 and abs(rhs * len(windows) - rhs) > 1e-6 * total:
                    ctx.count("variant_sum_not_mean_differs")
        if not ok:
            return
        ctx.count("validated")
        ctx.nontrivial_case(dict(part="A", fixed=self.root["fixed"], case=case))
        ctx.outcome(("psd", sig))
        amps = dict((c, np.asarray(res[c].amplitude, dtype=float)) for c in COMPONENTS)
        # (2) Welch: several windows -> mean of the single-window PSDs
        if self.count > 1:
            singles = [self.single_window(i, taper, scale) for i in range(self.count)]
            bad = [s for s in singles if isinstance(s, Exception)]
            if bad:
                self.raised(case, bad[0], "single-window call")
            else:
                for c in COMPONENTS:
                    stack = [s[c] for s in singles]
                    mean = RP.mean_of(stack) if nb <= 2048 else np.sum(stack, axis=0) / len(stack)
                    top = float(np.max(mean))
                    ctx.count("welch_compared")
                    if not close(amps[c], mean, rtol=RTOL, atol=1e-15 * top):
                        k = int(np.argmax(np.abs(amps[c] - np.asarray(mean))))
                        self.viol("C17:process(psd):multi-window:welch-mean", case,
                                  expected=dict(bin=k, value=float(mean[k])),
                                  observed=dict(bin=k, value=float(amps[c][k])),
                                  detail=dict(component=c, n=n),
                                  explanation=f"{c}: PSD of {self.count} windows differs from the arithmetic "
                                              "mean of the PSDs of the same windows processed one at a time")
                        break
        # (3) amplitude scaling
        if scale != 1.0:
            base = self.unsmoothed(taper, 1.0)
            if isinstance(base, Exception):
                self.raised(dict(case, scale=1.0), base, "scale-1 call")
            else:
                for c in COMPONENTS:
                    ref = base[0][c] * (scale * scale)
                    ctx.count("scale_compared")
                    if not close(amps[c], ref, rtol=RTOL, atol=1e-15 * float(np.max(ref))):
                        k = int(np.argmax(np.abs(amps[c] - ref)))
                        self.viol("C17:process(psd):amplitude-scale", case,
                                  expected=dict(bin=k, value=float(ref[k])),
                                  observed=dict(bin=k, value=float(amps[c][k])),
                                  detail=dict(component=c, n=n),
                                  explanation=f"{c}: PSD of {scale} * x is not {scale}^2 times the PSD of x")
                        break
        if ctx.counters["validated"] <= 2:
            ctx.sample(dict(part="A", fixed=self.root["fixed"], case=case, n=n,
                            band_power=sig))

    def expected_smoothed(self, case, kind, op):
        """(expected array(s), undefined?, knife mask, source); "no-kernels" when a smoothed PSD
        cannot be judged because hvmc.ref.kernels is missing; None when the unsmoothed call raised."""
        taper, scale = case["taper"], case["scale"]
        base = self.unsmoothed(taper, scale)
        if isinstance(base, Exception):
            return None
        amps, frq, n = base
        spec = smoothing_spec(op, self.dt)
        RK = ref_kernels()
        if kind == "psd":
            if RK is None:
                return "no-kernels"
            rows = [amps[c] for c in COMPONENTS]
            sm, knife = ref_smooth(op, frq, rows, spec)
            undefined = bool(np.any(sm < 0) or np.any(~np.isfinite(sm)))
            return sm, undefined, knife, "ref.kernels"
        rows = [amps["ns"] + amps["ew"], amps["vt"]]
        if RK is not None:
            sm, knife = ref_smooth(op, frq, rows, spec)
            src = "ref.kernels"
        else:
            sm = np.asarray(hv_smooth(op, frq, rows, spec), dtype=float)
            knife = np.zeros(sm.shape[1], dtype=bool)
            src = "hvsrpy operator"
        with np.errstate(all="ignore"):
            ratio = sm[0] / sm[1]
            hv = np.sqrt(ratio)
        undefined = bool(np.any(~np.isfinite(hv)) or np.any(sm[1] <= 0) or np.any(sm[0] < 0))
        return hv, undefined, knife, src

    def judge_smoothed(self, case, res, op):
        ctx = self.ctx
        exp = self.expected_smoothed(case, "psd", op)
        if exp is None:
            self.raised(case, self.unsmoothed(case["taper"], case["scale"]), "unsmoothed call")
            return
        if exp == "no-kernels":
            ctx.count("skipped_no_kernels")
            return
        sm, undefined, knife, src = exp
        if undefined:
            ctx.count("skipped_undefined_reference")
            return
        spec = smoothing_spec(op, self.dt)
        fcs = spec["center_frequencies_in_hz"]
        keep = ~knife
        ctx.count("knife_edge", int(np.sum(knife)))
        unsm = self.unsmoothed(case["taper"], case["scale"])[0]
        for ci, c in enumerate(COMPONENTS):
            amp = np.asarray(res[c].amplitude, dtype=float)
            frq = np.asarray(res[c].frequency, dtype=float)
            if len(amp) != len(fcs) or not close(frq, fcs, rtol=1e-12):
                self.viol("C17:process(psd):smoothed:centre-frequencies", case, expected=fcs,
                          observed=frq, explanation="smoothed PSD is not reported at the requested "
                                                    "centre frequencies")
                return
            # absolute floor relative to the *input* of the kernel (Savitzky-Golay weights cancel)
            top = float(np.max(np.abs(unsm[c])))
            if not close(amp[keep], sm[ci][keep], rtol=RTOL, atol=1e-13 * top):
                self.viol("C17:process(psd):smoothed:reference-kernel", case, expected=sm[ci], observed=amp,
                          detail=dict(component=c, operator=op, smoothing=spec, knife=knife),
                          explanation=f"{c}: smoothed PSD differs from the reference {op} kernel applied "
                                      "to the unsmoothed PSD of the same windows")
                return
        ctx.count("validated")
        ctx.nontrivial_case(dict(part="A", fixed=self.root["fixed"], case=case))
        ctx.outcome(("spsd", op, _sig(res["vt"].amplitude)))

    def judge_diffuse(self, case, res, op):
        ctx = self.ctx
        exp = self.expected_smoothed(case, "diffuse", op)
        if exp is None:
            self.raised(case, self.unsmoothed(case["taper"], case["scale"]), "unsmoothed call")
            return
        hv, undefined, knife, src = exp
        if undefined:
            ctx.count("skipped_undefined_reference")
            return
        spec = smoothing_spec(op, self.dt)
        fcs = spec["center_frequencies_in_hz"]
        amp = np.asarray(res.amplitude, dtype=float)
        frq = np.asarray(res.frequency, dtype=float)
        keep = ~knife
        ctx.count("knife_edge", int(np.sum(knife)))
        if src != "ref.kernels":
            ctx.count("diffuse_smoothed_with_hvsrpy_operator")
        if len(amp) != len(fcs) or not close(frq, fcs, rtol=1e-12):
            self.viol("C17:process(diffuse):centre-frequencies", case, expected=fcs, observed=frq,
                      explanation="diffuse-field HVSR is not reported at the requested centre frequencies")
            return
        if not close(amp[keep], hv[keep], rtol=RTOL):
            self.viol("C17:process(diffuse):ratio-of-smoothed-psd", case, expected=hv, observed=amp,
                      detail=dict(smoothing=spec, smoothing_by=src, knife=knife),
                      explanation="diffuse-field HVSR differs from sqrt(smooth(Pns+Pew)/smooth(Pvt)) built "
                                  "from the unsmoothed PSDs of the same windows")
            return
        if self.sigs == "P342" and self.count == 1 and not close(amp[keep], np.full(int(np.sum(keep)), 2.5), rtol=RTOL):
            self.viol("C17:process(diffuse):proportional-components", case, expected=2.5, observed=amp,
                      explanation="components (3, 4, 2) * s must give sqrt((9 + 16) / 4) = 2.5 everywhere")
            return
        # scale invariance: the same windows times c give the same ratio
        if case["scale"] != 1.0:
            base = self.diffuse_at_scale_one(case["taper"], op)
            if isinstance(base, Exception) or len(base) != len(amp):
                ctx.count("diffuse_scale_one_unavailable")
            else:
                ctx.count("diffuse_scale_invariance_compared")
                if not close(amp[keep], base[keep], rtol=RTOL):
                    self.viol("C17:process(diffuse):scale-invariance", case, expected=base, observed=amp,
                              detail=dict(smoothing=spec, knife=knife),
                              explanation=f"diffuse-field HVSR of {case['scale']} * (the windows) differs from the "
                                          "diffuse-field HVSR of the windows: a ratio of densities cannot depend "
                                          "on the unit of the recordings")
                    return
        # non-vacuity: a ratio without the square root / with one horizontal only must differ
        if not close(amp[keep], hv[keep] ** 2, rtol=1e-6):
            ctx.count("variant_no_sqrt_differs")
        ctx.count("validated")
        ctx.nontrivial_case(dict(part="A", fixed=self.root["fixed"], case=case))
        ctx.outcome(("diffuse", op, _sig(amp)))
        if ctx.counters["diffuse_sampled"] < 1:
            ctx.count("diffuse_sampled")
            ctx.sample(dict(part="A", fixed=self.root["fixed"], case=case, hvsr=_sig(amp)))


def sub_cases(space, root_dims, fixed, k):
    """Cases of the (deviation-bounded) space that agree with ``fixed`` on root_dims."""
    sub = {d: v for d, v in space.items() if d not in root_dims}
    if k is None:
        return list(product.deviations(sub, None))
    used = sum(1 for d in root_dims if fixed[d] != space[d][0])
    if used > k:
        return []
    return list(product.deviations(sub, k - used))


def tier_space(space, tier):
    if tier == "thorough":
        return space
    s = dict(space)
    if "taper" in s and len(s["taper"]) == 4:
        s["taper"] = s["taper"][:3]
    return s


def run_root_a(root, ctx, tier):
    r = RootA(root, ctx)
    for case in sub_cases(tier_space(SPACE_A, root["tier"]), ROOT_DIMS_A, root["fixed"], root["k"]):
        r.case(case)


# ---------------------------------------------------------------------------
# part B: preprocessing

def pre_series(signal, offset, L, rec, comp):
    """(samples, sinusoid components or None) of component ``comp`` of record ``rec``."""
    j = (rec + comp) % 3
    off = [offset, -0.5 * offset, 2.0 * offset][(comp + 2 * rec) % 3]
    gain = 1.0 + 0.5 * rec
    if signal == "noise":
        x = [gain * v + off for v in A.signal("noise%d" % (j + 1), L)]
        return x, None
    names = ["C0", "C1", "C2"]
    comps = [(k, gain * a, p) for (k, a, p) in SINUSOIDS[names[(names.index(signal) + j) % 3]]]
    return RP.sinusoids(L, comps, off), comps


def op_class(differentiate, response):
    r = "none" if response == "none" else ("flat-response" if response.startswith("flat") else "pole-zero")
    if r == "none":
        return "differentiate" if differentiate else "identity"
    return r + ("+differentiate" if differentiate else "")


class RootB:
    def __init__(self, root, ctx):
        self.root = root
        self.ctx = ctx
        f = root["fixed"]
        self.L, self.dt, self.fft, self.taper, self.response = (f["L"], f["dt"], f["fft"],
                                                               f["taper"], f["response"])
        self.resp = response_spec(self.response, self.dt)

    def viol(self, key, case, **kw):
        detail = dict(case=case, fixed=self.root["fixed"], response=self.resp,
                      construction="record r, component c: see hvmc.checks.c17.pre_series; settings: "
                                   "orient None, no filter, window_length None")
        detail.update(kw.pop("detail", {}))
        self.ctx.violation(key, self.root, detail=detail, **kw)

    def case(self, case):
        ctx = self.ctx
        ctx.count("states")
        L, dt = self.L, self.dt
        series = [[pre_series(case["signal"], case["offset"], L, r, c) for c in range(3)]
                  for r in range(2)]
        records = [SeismicRecording3C(*[TimeSeries(np.array(x, dtype=float), dt) for x, _ in rec])
                   for rec in series]
        itf = None
        if self.resp is not None:
            itf = InstrumentTransferFunction([complex(*p) for p in self.resp["poles"]],
                                             [complex(*z) for z in self.resp["zeros"]],
                                             self.resp["sensitivity"], self.resp["normalization"])
        s = PsdPreProcessingSettings(orient_to_degrees_from_north=None,
                                     filter_corner_frequencies_in_hz=[None, None],
                                     window_length_in_seconds=None,
                                     detrend=case["detrend"],
                                     window_type_and_width=["tukey", self.taper],
                                     fft_settings=fft_request(self.fft),
                                     instrument_transfer_function=itf,
                                     differentiate=case["differentiate"])
        cls = op_class(case["differentiate"], self.response)
        ctx.count("transitions")
        try:
            out = hvsrpy.preprocess(records, s)
        except Exception as e:          # noqa: BLE001
            self.viol(f"C17:psd_preprocess:{cls}:raises", case, expected="preprocessed records",
                      observed="".join(traceback.format_exception_only(type(e), e)).strip()[-600:],
                      explanation=f"preprocess() raised {type(e).__name__}: {e}")
            return
        if len(out) != 2:
            self.viol("C17:psd_preprocess:record-count", case, expected=2, observed=len(out),
                      explanation="window_length_in_seconds=None must give one output per input record")
            return
        n = s.fft_settings.get("n") if isinstance(s.fft_settings, dict) else None
        if not isinstance(n, int) or n < L:
            n = expected_n(L, self.fft)
        G = RP.make_gain(case["differentiate"], self.resp)
        w = RT.tukey(L, self.taper)
        ok = True
        sig = []
        for r in range(2):
            for ci, c in enumerate(COMPONENTS):
                x, comps = series[r][ci]
                got = np.asarray(getattr(out[r], c).amplitude, dtype=float)
                if len(got) != L:
                    self.viol(f"C17:psd_preprocess:{cls}:length", case, expected=L, observed=len(got),
                              explanation="preprocessed series changed length")
                    ok = False
                    continue
                ok &= self.judge_series(case, cls, r, c, x, comps, got, n, G, w)
                sig.append("%.6g" % float(got[1]))
        if ok:
            ctx.count("validated")
            ctx.nontrivial_case(dict(part="B", fixed=self.root["fixed"], case=case))
            ctx.outcome(("pre", cls, sig))
            if ctx.counters["pre_sampled"] < 2 and cls != "identity":
                ctx.count("pre_sampled")
                ctx.sample(dict(part="B", fixed=self.root["fixed"], case=case, n=n, op=cls,
                                first_samples=_sig(getattr(out[0], "vt").amplitude)))

    def finish(self, y, detrend):
        return RP.demean(y) if detrend == "constant" else [float(v) for v in y]

    def judge_series(self, case, cls, r, c, x, comps, got, n, G, w):
        ctx = self.ctx
        L, dt = self.L, self.dt
        det = case["detrend"]
        where = dict(record=r, component=c, n=n)

        def cmp(exp, key, text, free_constant=0.0):
            """got == exp, or (free_constant != 0) got - exp == a constant between 0 and free_constant."""
            exp = np.asarray(exp, dtype=float)
            scale = float(np.max(np.abs(exp))) if len(exp) else 0.0
            scale = max(scale, 1e-300)
            ctx.count("series_compared")
            if close(got, exp, rtol=RTOL, atol=RTOL * scale):
                return True
            if free_constant and det != "constant":
                cst = math.fsum((got - exp).tolist()) / len(exp)
                tol = RTOL * scale
                if (min(0.0, free_constant) - tol <= cst <= max(0.0, free_constant) + tol
                        and close(got, exp + cst, rtol=RTOL, atol=tol)):
                    ctx.count("dc_convention_other")
                    return True
            k = int(np.argmax(np.abs(got - exp)))
            self.viol(key, case, expected=exp, observed=got,
                      detail=dict(where, input=x, worst_sample=k), explanation=text)
            return False

        if cls == "identity":
            return cmp(self.finish(x, det), "C17:psd_preprocess:identity",
                       f"{c}: without differentiation and response the series must pass unchanged "
                       "(apart from the final detrend)")
        y0 = [a * b for a, b in zip(RP.demean(x), w)]           # detrended, tapered
        ok = True
        padded = n != L
        analytic = comps is not None and self.taper == 0.0 and not padded
        if analytic:
            exp = self.finish(RP.apply_gain_to_sinusoids(L, dt, comps, G), det)
            what = {"differentiate": "the analytic derivative",
                    "flat-response": "(x - mean) / (sensitivity * normalisation)"}.get(
                        cls, "the sinusoids divided by the analytic H(2 pi i f)"
                             + (" and differentiated" if case["differentiate"] else ""))
            ok &= cmp(exp, f"C17:psd_preprocess:{cls}:analytic",
                      f"{c}: sinusoids periodic in the window, no taper, no padding: result differs "
                      f"from {what}")
            ctx.count("analytic_compared")
        if cls == "flat-response":
            # division by s*a of the mean-removed (tapered) series, up to the
            # constant that "mean removed" may refer to (0 ... mean of the tapered series)
            sa = self.resp["sensitivity"] * self.resp["normalization"]
            resid = [float(g) * sa - v for g, v in zip(got, y0)]
            m = math.fsum(y0) / L
            cst = math.fsum(resid) / L
            scale = max(max(abs(v) for v in y0), 1e-300)
            ctx.count("series_compared")
            flat = all(abs(v - cst) <= RTOL * scale for v in resid)
            inside = min(0.0, -m) - RTOL * scale <= cst <= max(0.0, -m) + RTOL * scale
            if det == "constant":
                inside = True           # the final detrend fixes the constant
            if not (flat and inside):
                ok = False
                self.viol("C17:psd_preprocess:flat-response:division-by-sensitivity", case,
                          expected=[(v - m) / sa for v in y0], observed=got,
                          detail=dict(where, input=x, s_times_a=sa, offset_found=cst,
                                      mean_of_tapered=m),
                          explanation=f"{c}: flat response: result*s*a minus the mean-removed (tapered) "
                                      "series is not a constant between 0 and minus its mean")
            if abs(m) > 1e-6 * scale and det != "constant":
                ctx.count("flat_offset_convention_matters")
        else:
            # two real-valued operations in sequence: response removal, then differentiation
            y = y0
            if self.resp is not None:
                y = RP.apply_gain_explicit(y, n, dt, RP.make_gain(False, self.resp))
            if case["differentiate"]:
                y = RP.apply_gain_explicit(y, n, dt, RP.make_gain(True, None))
            exp = self.finish(y, det)
            # response alone with a finite H(0): whether the 0 Hz bin of the (tapered) series is
            # dropped or divided by H(0) is not pinned by the statement - accept either constant
            free = 0.0
            if cls == "pole-zero":
                h0 = complex(RP.transfer_response(0.0, self.resp["poles"], self.resp["zeros"],
                                                  self.resp["sensitivity"], self.resp["normalization"]))
                if abs(h0) > 0.0 and math.isfinite(abs(h0)):
                    free = math.fsum(y0) * (1.0 / h0).real / n
            ok &= cmp(exp, f"C17:psd_preprocess:{cls}:explicit-dft",
                      f"{c}: result differs from the explicit DFT of the detrended, tapered, zero-padded "
                      f"(n = {n}) series multiplied by the transfer function(s) (0 Hz bin dropped; response "
                      "removal and differentiation applied one after the other, each returning L real samples)",
                      free_constant=free)
            ctx.count("explicit_compared")
        # non-vacuity: the untouched input must differ from the result
        if not close(got, self.finish(x, det), rtol=1e-6, atol=1e-6):
            ctx.count("variant_identity_differs")
        return ok


def run_root_b(root, ctx, tier):
    r = RootB(root, ctx)
    for case in sub_cases(SPACE_B, ROOT_DIMS_B, root["fixed"], root["k"]):
        r.case(case)


# ---------------------------------------------------------------------------
# runner interface

def _roots_of(space, root_dims, part, tier, k):
    out = []
    rs = {d: space[d] for d in root_dims}
    for fixed in product.deviations(rs, None):
        root = dict(part=part, tier=tier, k=k, fixed=fixed)
        if sub_cases(space, root_dims, fixed, k):
            out.append(root)
    return out


def roots(tier, seed):
    k = None if tier == "thorough" else K_QUICK
    return (_roots_of(tier_space(SPACE_A, tier), ROOT_DIMS_A, "A", tier, k)
            + _roots_of(SPACE_B, ROOT_DIMS_B, "B", tier, k))


def run_root(root, ctx, tier):
    if root["part"] == "A":
        run_root_a(root, ctx, tier)
    else:
        run_root_b(root, ctx, tier)


def warm():
    """Compile / load the numba kernels once in the parent."""
    from hvsrpy.smoothing import SMOOTHING_OPERATORS
    f = np.fft.rfftfreq(16, 0.01)
    for name, op in SMOOTHING_OPERATORS.items():
        bw = 5 if name == "savitzky_and_golay" else 1.0
        op(f, np.ones((2, len(f))), np.array([5.0, 10.0]), bw)
    ref_kernels()


NONVACUITY = ("variant_no_taper_norm_differs", "variant_div_n_differs",
              "variant_sum_not_mean_differs", "variant_identity_differs", "analytic_compared",
              "explicit_compared", "welch_compared", "scale_compared",
              "diffuse_scale_invariance_compared")


def finalize(ctx, tier):
    c = ctx.counters
    ctx.notes["ref_kernels_available"] = ref_kernels() is not None
    missing = [name for name in NONVACUITY if not c.get(name, 0)]
    if missing and not ctx.violation_counts:
        ctx.violation("C17:harness:vacuous-oracle", dict(tier=tier),
                      detail=dict(counters=dict(c)), observed=missing,
                      explanation="an oracle (or its deliberately wrong variant) was never exercised")


def describe(tier):
    k = None if tier == "thorough" else K_QUICK
    sa = tier_space(SPACE_A, tier)
    return dict(
        rule="two configuration spaces, each case executed on the real code: "
             "A = process() with PSD / diffuse-field settings over (L, dt, signal triple, window count, "
             "FFT request, Tukey width, output = unsmoothed | smoothed per operator | diffuse field per "
             "operator, amplitude scale); B = preprocess() with PSD settings over (L, dt, FFT request, "
             "Tukey width, response, signal, offset, differentiate, final detrend), two records x three "
             "components per call; "
             + ("every case within %d deviations from the first value of each dimension" % k if k
                else "the full product of both spaces")
             + "; a case is non-trivial/distinct by its (part, dimension values) and counted when every "
               "comparison of that case was made against the reference",
        bounds=dict(space_A={d: v for d, v in sa.items()}, space_B=SPACE_B,
                    deviation_bound=k, size_A=product.size(sa, k), size_B=product.size(SPACE_B, k),
                    rtol=RTOL),
        exhaustive=True,
        assumptions=[
            "n >= L (zero-padding) - prepare_fft_settings never yields a shorter transform for equal-length windows",
            "the FFT length used for the Parseval bookkeeping is the one hvsrpy reports in settings.fft_settings['n']; "
            "the returned grid must be k/(n dt), k = 0..n//2",
            "smoothed PSDs and (when ref.kernels is importable) the diffuse field are compared with "
            "hvmc.ref.kernels applied to hvsrpy's unsmoothed PSD of the same windows; centre frequencies "
            "whose kernel row is knife-edge are not compared; cases whose reference is undefined "
            "(0/0, negative Savitzky-Golay output) are skipped and counted",
            "flat response with a taper: 'mean removed' is accepted for any constant between 0 and the mean "
            "of the tapered series; with differentiation / poles and zeros under a taper or zero-padding the "
            "expected series is the explicit DFT of the detrended, tapered, padded series (Hermitian "
            "convention, 0 Hz bin dropped)",
            "orientation, filtering and window splitting are switched off in preprocessing (C10 covers them)",
            "amplitude scales 1e-12 .. 1e9: squares stay within 1e-24 .. 1e18 times the O(1) signal power, i.e. "
            "no underflow/overflow in double precision; every tolerance is relative to the power of the case, so "
            "an absolute floor or threshold in the PSD / diffuse-field path is a violation, not a tolerance",
        ])
