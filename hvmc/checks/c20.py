"""C20 - plots and summary tables are read-only and show the object's state.

E1: the state graphs of C05 (HvsrTraditional), C11 (HvsrAzimuthal) and a small
HvsrDiffuseField one are re-used.  In every reachable state each plotting /
summary function is called (Agg backend) for every option combination within k
deviations of its defaults; the object (and recordings) must be bit-identical
afterwards - also when the function raises - and the artists / the table must
carry the object's state.
"""
import copy
import io
import contextlib
import json
import math

import numpy as np
import matplotlib
matplotlib.use("Agg")
import matplotlib.pyplot as plt     # noqa: E402
from matplotlib.colors import to_rgba   # noqa: E402

import hvsrpy   # noqa: E402
import hvsrpy.postprocessing as PP  # noqa: E402
from hvsrpy.hvsr_traditional import HvsrTraditional    # noqa: E402
from hvsrpy.hvsr_azimuthal import HvsrAzimuthal    # noqa: E402
from hvsrpy.hvsr_diffuse_field import HvsrDiffuseField  # noqa: E402

from hvmc import alphabets as A     # noqa: E402
from hvmc.engine import explorer, product   # noqa: E402
from hvmc.engine.core import close, arr_digest, jsonable     # noqa: E402
from hvmc.ref import stats as RS    # noqa: E402
from hvmc.checks import c05, c11, c12   # noqa: E402
from hvmc.checks.c05 import _call, ACCESSORS   # noqa: E402

PROPERTY = "C20"
KW = PP.DEFAULT_KWARGS

SINGLE_PANEL_SPACE = dict(
    distribution_mc=["lognormal", "normal"],
    distribution_fn=["lognormal", "normal"],
    plot_valid_curves=[True, False],
    plot_invalid_curves=[False, True],
    plot_mean_curve=[True, False],
    plot_frequency_std=[True, False],
    plot_peak_mean_curve=[True, False],
    plot_peak_individual_valid_curves=[True, False],
    plot_peak_individual_invalid_curves=[False, True],
)


# ---------------------------------------------------------------------------
# snapshots

def _trads(o):
    if isinstance(o, HvsrTraditional):
        return [o]
    if isinstance(o, HvsrAzimuthal):
        return list(o.hvsrs)
    return []


def snapshot(o, recs=None):
    parts = []
    if isinstance(o, HvsrDiffuseField):
        parts.append(("diffuse", arr_digest(o.frequency, o.amplitude), _fe(o.peak_frequency), _fe(o.peak_amplitude),
                      repr(o._search_range_in_hz), repr(o._find_peaks_kwargs),
                      json.dumps(jsonable(o.meta), sort_keys=True)))
    for t in _trads(o):
        parts.append((arr_digest(t.frequency, t.amplitude),
                      tuple(np.asarray(t.valid_window_boolean_mask).tolist()),
                      tuple(np.asarray(t.valid_peak_boolean_mask).tolist()),
                      str(np.asarray(t.valid_window_boolean_mask).dtype),
                      tuple(_fe(v) for v in t._main_peak_frq), tuple(_fe(v) for v in t._main_peak_amp),
                      repr(t._search_range_in_hz), repr(t._find_peaks_kwargs),
                      json.dumps(jsonable(t.meta), sort_keys=True)))
    if isinstance(o, HvsrAzimuthal):
        parts.append((tuple(o.azimuths), json.dumps(jsonable(o.meta), sort_keys=True)))
    for r in recs or []:
        parts.append((arr_digest(r.ns.amplitude, r.ew.amplitude, r.vt.amplitude), r.ns.dt_in_seconds,
                      r.degrees_from_north, json.dumps(jsonable(r.meta), sort_keys=True)))
    return tuple(parts)


def _fe(v):
    if v is None:
        return "nan"
    v = float(v)
    return "nan" if math.isnan(v) else v


# ---------------------------------------------------------------------------
# artist introspection

def _is(line, style, keys):
    for k in keys:
        want = style.get(k)
        if k == "color":
            if to_rgba(line.get_color()) != to_rgba(want):
                return False
        elif k == "linewidth":
            if abs(line.get_linewidth() - want) > 1e-12:
                return False
        elif k == "linestyle":
            ls = line.get_linestyle()
            if want in ("", "None", None):
                if ls not in ("None", "", " "):
                    return False
            elif want == "--":
                if ls != "--":
                    return False
        elif k == "marker":
            if line.get_marker() != want:
                return False
        elif k == "markerfacecolor":
            if to_rgba(line.get_markerfacecolor()) != to_rgba(want):
                return False
    return True


def classify_lines(ax):
    out = dict(valid=[], invalid=[], mean=[], std=[], mc_peak=[], pk_valid=[], pk_invalid=[], other=[])
    for ln in ax.get_lines():
        mk = ln.get_marker()
        if mk in ("D",):
            out["mc_peak"].append(ln)
        elif mk == "o":
            if _is(ln, KW["peak_individual_valid_hvsr_curve"], ["markerfacecolor"]):
                out["pk_valid"].append(ln)
            elif _is(ln, KW["peak_individual_invalid_hvsr_curve"], ["markerfacecolor"]):
                out["pk_invalid"].append(ln)
            else:
                out["other"].append(ln)
        elif _is(ln, KW["individual_valid_hvsr_curve"], ["color", "linewidth"]):
            out["valid"].append(ln)
        elif _is(ln, KW["individual_invalid_hvsr_curve"], ["color", "linewidth"]):
            out["invalid"].append(ln)
        elif _is(ln, KW["nth_std_mean_hvsr_curve"], ["color", "linewidth"]) and ln.get_linestyle() == "--":
            out["std"].append(ln)
        elif _is(ln, KW["mean_hvsr_curve"], ["color", "linewidth"]) and ln.get_linestyle() == "-":
            out["mean"].append(ln)
        else:
            out["other"].append(ln)
    return out


def _rows_multiset(rows):
    return sorted(tuple(float(v) for v in r) for r in rows)


def judge_single_panel(ax, o, opts, ctx, root, detail, site, stats_ok=True):
    """Compare the artists on ax with the object's state."""
    L = classify_lines(ax)
    freq = np.asarray(o.frequency, dtype=float)
    trads = _trads(o)

    def bad(tag, text, expected=None, observed=None):
        ctx.violation(f"C20:{site}:{tag}", root, detail=detail, expected=expected, observed=observed,
                      explanation=text)
    acc = [row for t in trads for row in np.asarray(t.amplitude)[np.asarray(t.valid_window_boolean_mask, dtype=bool)]]
    rej = [row for t in trads for row in np.asarray(t.amplitude)[~np.asarray(t.valid_window_boolean_mask, dtype=bool)]]
    for name, rows, flag in (("valid", acc, opts["plot_valid_curves"]), ("invalid", rej, opts["plot_invalid_curves"])):
        want = _rows_multiset(rows) if flag else []
        got = _rows_multiset([ln.get_ydata() for ln in L[name]])
        if got != want:
            bad(f"{'accepted' if name == 'valid' else 'rejected'}-curves",
                f"{'accepted' if name == 'valid' else 'rejected'}-style lines are not exactly the "
                f"{'accepted' if name == 'valid' else 'rejected'} windows' curves",
                expected=dict(n=len(want)), observed=dict(n=len(got)))
        for ln in L[name]:
            if not np.array_equal(np.asarray(ln.get_xdata(), dtype=float), freq):
                bad("curve-x-data", "a window line is not drawn against the object's frequencies")
    if not stats_ok:
        return
    if opts["plot_mean_curve"]:
        mc = _call(o, "mean_curve", (), opts["distribution_mc"])
        if len(L["mean"]) != 1 or not close(L["mean"][0].get_ydata(), mc, rtol=1e-12):
            bad("mean-curve", "mean line is not mean_curve(distribution_mc)", expected=mc,
                observed=[list(map(float, ln.get_ydata())) for ln in L["mean"]])
        if not isinstance(o, HvsrDiffuseField):
            want = sorted([tuple(_call(o, "nth_std_curve", (s,), opts["distribution_mc"])) for s in (1, -1)])
            got = sorted(tuple(float(v) for v in ln.get_ydata()) for ln in L["std"])
            if len(got) != 2 or not close(got, want, rtol=1e-12):
                bad("std-curves", "dashed lines are not nth_std_curve(+-1, distribution_mc)", expected=want, observed=got)
    elif L["mean"] or L["std"]:
        bad("mean-curve-not-requested", "mean/std lines drawn although plot_mean_curve=False")
    if opts["plot_peak_mean_curve"]:
        pk = _call(o, "mean_curve_peak", (), opts["distribution_mc"])
        got = [(float(ln.get_xdata()[0]), float(ln.get_ydata()[0])) for ln in L["mc_peak"] if len(ln.get_xdata())]
        if not got or any(not close(g, pk, rtol=1e-12) for g in got):
            bad("mean-curve-peak-marker", "diamond marker is not mean_curve_peak(distribution_mc)", expected=pk,
                observed=got)
    if not isinstance(o, HvsrDiffuseField):
        for name, flag, inv in (("pk_valid", opts["plot_peak_individual_valid_curves"], False),
                                ("pk_invalid", opts["plot_peak_individual_invalid_curves"], True)):
            want = []
            if flag:
                for t in trads:
                    m = np.asarray(t.valid_peak_boolean_mask, dtype=bool)
                    m = ~m if inv else m
                    want += [(_fe(f), _fe(a)) for f, a in zip(np.asarray(t._main_peak_frq)[m],
                                                              np.asarray(t._main_peak_amp)[m])]
            got = [(_fe(x), _fe(y)) for ln in L[name] for x, y in zip(ln.get_xdata(), ln.get_ydata())]
            if sorted(map(str, got)) != sorted(map(str, want)):
                bad(f"{'rejected' if inv else 'accepted'}-peak-markers",
                    f"circle markers are not the {'rejected' if inv else 'accepted'} windows' peaks",
                    expected=want, observed=got)
        if opts["plot_frequency_std"]:
            lo = _call(o, "nth_std_fn_frequency", (-1,), opts["distribution_fn"])
            hi = _call(o, "nth_std_fn_frequency", (1,), opts["distribution_fn"])
            xs = sorted({float(x) for p in ax.patches for x in p.get_xy()[:, 0]})
            if not (len(xs) == 2 and close(xs, sorted([lo, hi]), rtol=1e-12)) and not (lo == hi and xs == [lo]):
                bad("fn-band", "shaded band edges are not nth_std_fn_frequency(-+1, distribution_fn)",
                    expected=[lo, hi], observed=xs)


# ---------------------------------------------------------------------------
# the functions under test

class _Fig:
    """One reusable figure per process."""
    fig = None

    @classmethod
    def ax(cls):
        if cls.fig is None:
            cls.fig = plt.figure(figsize=(3.75, 2.5), dpi=50)
        cls.fig.clf()
        return cls.fig.add_subplot(111)


def _guarded(fn, o, recs, ctx, root, detail, site):
    """Call fn(); the object must be unchanged afterwards even if it raises."""
    before = snapshot(o, recs)
    ctx.count("transitions")
    try:
        with contextlib.redirect_stdout(io.StringIO()), np.errstate(all="ignore"):
            res = fn()
        exc = None
    except Exception as e:      # noqa: BLE001
        res, exc = None, e
    after = snapshot(o, recs)
    if after != before:
        which = [i for i, (a, b) in enumerate(zip(before, after)) if a != b]
        ctx.violation(f"C20:{site}:object-modified:{'after-exception' if exc is not None else 'after-return'}", root,
                      detail=dict(detail, raised=None if exc is None else f"{type(exc).__name__}: {exc}"[:200],
                                  changed_parts=which),
                      explanation="the plotting/summary function changed the object or recordings it was given" +
                                  (" (it raised and left its temporary changes behind)" if exc is not None else ""))
        # restore so that later judgements see the real state
    return res, exc


def _axs3():
    fig = _Fig.fig or plt.figure()
    fig.clf()
    return fig.subplots(3, 1)


def refused_calls(o, recs, kind, ctx, root, hist):
    """Every function of the menu that takes a second argument tied to the HVSR object (recordings, a mask,
    the kind of result) is called on the LIVE object with an argument that does not fit it (recordings of
    another length, a mask of another length, the wrong number of axes, a result of the wrong kind).  Such a
    call may be refused; refused or not, the object and the recordings must be as they were."""
    trads = _trads(o)
    n = len(np.asarray(trads[0].valid_window_boolean_mask)) if trads else 1
    full = recs if recs is not None else c05.make_records([True] * n)
    cases = []
    if kind == "trad":
        live = o.valid_window_boolean_mask
        for name, sr in (("srecords-one-too-few", full[:-1]), ("srecords-one-too-many", full + [copy.deepcopy(full[0])]),
                         ("srecords-single-recording", full[0])):
            if name == "srecords-single-recording" and n == 1:
                continue
            cases.append(("plot_pre_and_post_rejection", name, sr,
                          lambda sr=sr: PP.plot_pre_and_post_rejection(sr, o)))
            cases.append(("plot_seismic_recordings_3c", name + "-with-the-objects-mask", sr,
                          lambda sr=sr: PP.plot_seismic_recordings_3c(sr, valid_window_boolean_mask=live, axs=_axs3())))
        cases.append(("plot_seismic_recordings_3c", "mask-one-too-short", full,
                      lambda: PP.plot_seismic_recordings_3c(full, valid_window_boolean_mask=live[:-1], axs=_axs3())))
        cases.append(("plot_seismic_recordings_3c", "two-axes", full,
                      lambda: PP.plot_seismic_recordings_3c(full, valid_window_boolean_mask=live,
                                                            axs=_axs3()[:2])))
    else:
        cases.append(("plot_pre_and_post_rejection", f"result-is-{kind}", full,
                      lambda: PP.plot_pre_and_post_rejection(full, o)))
    if kind != "azi":
        for fname in ("plot_azimuthal_contour_2d",):
            cases.append((fname, f"result-is-{kind}", None, lambda fname=fname: getattr(PP, fname)(o)))
    for fname, why, sr, fn in cases:
        masks = [(np.array(t.valid_window_boolean_mask), np.array(t.valid_peak_boolean_mask)) for t in trads]
        given = sr if isinstance(sr, list) else [sr] if sr is not None else None
        nfig = set(plt.get_fignums())
        res, exc = _guarded(fn, o, given, ctx, root, dict(hist=list(hist), call=fname, argument=why),
                            f"{fname}:refused:{why}")
        for num in set(plt.get_fignums()) - nfig:
            plt.close(num)
        ctx.count("unfit_argument_calls")
        ctx.count("unfit_argument_calls_refused" if exc is not None else "unfit_argument_calls_accepted")
        if any(not np.all(np.asarray(t.valid_window_boolean_mask)) or not np.all(np.asarray(t.valid_peak_boolean_mask))
               for t in trads):
            ctx.count("unfit_argument_calls_on_object_with_rejections")
        for t, (mw, mp) in zip(trads, masks):      # give the history its real state back (no-op unless a defect)
            if not np.array_equal(t.valid_window_boolean_mask, mw) or not np.array_equal(t.valid_peak_boolean_mask, mp):
                t.valid_window_boolean_mask, t.valid_peak_boolean_mask = mw, mp


def check_state(o, recs, kdev, ctx, root, hist):
    n_acc = [int(np.sum(t.valid_window_boolean_mask)) for t in _trads(o)]
    if isinstance(o, HvsrDiffuseField):
        pk = _call(o, "mean_curve_peak", (), "lognormal")
        judgeable = not (isinstance(pk, tuple) and pk and pk[0] == "raised")
    else:
        judgeable = all(n >= 2 for n in n_acc) and _stats_defined(o)
    kind = "diffuse" if isinstance(o, HvsrDiffuseField) else "trad" if isinstance(o, HvsrTraditional) else "azi"
    # ---- calls whose second argument does not fit the object (refused), on the LIVE object; everything
    #      below (and the rest of the history) continues from the object they leave behind
    refused_calls(o, recs, kind, ctx, root, hist)
    # ---- plot_single_panel_hvsr_curves --------------------------------------
    for oi, opts in enumerate(product.deviations(SINGLE_PANEL_SPACE, kdev)):
        ax = _Fig.ax()
        # the default combination is drawn from the LIVE object of the history (which has been drawn
        # before, see observe()); the others from deep copies
        work = o if oi == 0 else copy.deepcopy(o)
        detail = dict(hist=list(hist), options=opts)
        res, exc = _guarded(lambda: PP.plot_single_panel_hvsr_curves(work, ax=ax, **opts), work, None, ctx, root,
                            detail, f"plot_single_panel_hvsr_curves:{kind}")
        ctx.count("figures")
        if exc is None:
            # window curves are judged whenever the call returned; statistics only where defined
            ctx.count("validated")
            judge_single_panel(ax, work, opts, ctx, root, detail, f"plot_single_panel_hvsr_curves:{kind}",
                               stats_ok=judgeable)
            ctx.outcome((kind, len(ax.get_lines()), len(ax.patches)))
        elif exc is not None and judgeable and _needs_defined(opts, o):
            ctx.violation(f"C20:plot_single_panel_hvsr_curves:{kind}:raises", root, detail=detail,
                          observed=f"{type(exc).__name__}: {exc}"[:300],
                          explanation="the plot raised although every statistic it draws is defined")
    # ---- summary table ------------------------------------------------------------
    for dfn in ("lognormal", "normal"):
        for dmc in ("lognormal", "normal"):
            captured = []
            old = PP.display
            PP.display = captured.append
            work = copy.deepcopy(o)
            detail = dict(hist=list(hist), distribution_fn=dfn, distribution_mc=dmc)
            try:
                res, exc = _guarded(lambda: PP.summarize_hvsr_statistics(work, distribution_mc=dmc,
                                                                         distribution_fn=dfn),
                                    work, None, ctx, root, detail, f"summarize_hvsr_statistics:{kind}")
            finally:
                PP.display = old
            if exc is None and judgeable and kind != "diffuse":
                ctx.count("validated")
                judge_table(captured, work, dfn, ctx, root, detail, kind)
    # ---- recordings + pre/post rejection ---------------------------------------
    if kind == "trad" and recs is not None:
        for normalize in (True, False):
            for use_mask in (True, False):
                work = copy.deepcopy(o)
                wrecs = copy.deepcopy(recs)
                mask = np.asarray(work.valid_window_boolean_mask).tolist() if use_mask else None
                detail = dict(hist=list(hist), normalize=normalize, mask=mask)
                fig = _Fig.fig or plt.figure()
                fig.clf()
                axs = fig.subplots(3, 1)
                res, exc = _guarded(lambda: PP.plot_seismic_recordings_3c(wrecs, valid_window_boolean_mask=mask,
                                                                          axs=axs, normalize=normalize),
                                    work, wrecs, ctx, root, detail, "plot_seismic_recordings_3c")
                ctx.count("figures")
                if exc is None:
                    ctx.count("validated")
                    judge_recordings(axs, wrecs, mask, normalize, ctx, root, detail)
            # recordings with gaps (nan samples): drawing them must leave the caller's samples alone
            work = copy.deepcopy(o)
            wrecs = copy.deepcopy(recs)
            wrecs[0].ns.amplitude[1] = np.nan
            wrecs[-1].vt.amplitude[0] = np.nan
            fig = _Fig.fig or plt.figure()
            fig.clf()
            axs = fig.subplots(3, 1)
            _guarded(lambda: PP.plot_seismic_recordings_3c(wrecs, axs=axs, normalize=normalize), work, wrecs, ctx, root,
                     dict(hist=list(hist), normalize=normalize, recordings="two nan samples (gaps)"),
                     "plot_seismic_recordings_3c:recordings-with-gaps")
            ctx.count("figures")
            ctx.count("gap_recordings_drawn")
        for dmc in ("lognormal", "normal"):
            work = copy.deepcopy(o)
            wrecs = copy.deepcopy(recs)
            detail = dict(hist=list(hist), distribution_mc=dmc)
            nfig = set(plt.get_fignums())
            res, exc = _guarded(lambda: PP.plot_pre_and_post_rejection(wrecs, work, distribution_mc=dmc,
                                                                       distribution_fn=dmc),
                                work, wrecs, ctx, root, detail, "plot_pre_and_post_rejection")
            ctx.count("figures")
            if exc is None and judgeable:
                ctx.count("validated")
                fig, axs = res
                ax_pre, ax_post = axs[1], axs[3]
                post_opts = {k: v[0] for k, v in SINGLE_PANEL_SPACE.items()}
                post_opts.update(distribution_mc=dmc, distribution_fn=dmc, plot_invalid_curves=True,
                                 plot_peak_individual_invalid_curves=True)
                judge_single_panel(ax_post, work, post_opts, ctx, root, detail, "plot_pre_and_post_rejection:after-panel")
                pre = classify_lines(ax_pre)
                if _rows_multiset([ln.get_ydata() for ln in pre["valid"]]) != _rows_multiset(work.amplitude):
                    ctx.violation("C20:plot_pre_and_post_rejection:before-panel:curves", root, detail=detail,
                                  explanation="the before-rejection panel does not show every window's curve")
            for num in set(plt.get_fignums()) - nfig:
                plt.close(num)
        # ---- the figure is interrupted half-way (an error inside the drawing, or the user's Ctrl-C while the
        #      "before rejection" panel is drawn): the object must still be as it was
        for exc_type in (RuntimeError, KeyboardInterrupt):
            work = copy.deepcopy(o)
            wrecs = copy.deepcopy(recs)
            real = work.mean_curve
            calls = []

            def interrupted(*a, _real=real, _calls=calls, _exc=exc_type, **k):
                _calls.append(1)
                if len(_calls) == 1:
                    raise _exc("interrupted while drawing (injected by the harness)")
                return _real(*a, **k)
            work.mean_curve = interrupted
            before = snapshot(work, wrecs)
            nfig = set(plt.get_fignums())
            ctx.count("transitions")
            ctx.count("interrupted_figures")
            try:
                with contextlib.redirect_stdout(io.StringIO()), np.errstate(all="ignore"):
                    PP.plot_pre_and_post_rejection(wrecs, work, distribution_mc="lognormal", distribution_fn="lognormal")
            except BaseException as e:      # noqa: BLE001 - the injected interruption (or whatever it turned into)
                if not isinstance(e, (exc_type, Exception)):
                    raise
            if snapshot(work, wrecs) != before:
                ctx.violation(f"C20:plot_pre_and_post_rejection:object-modified:after-{exc_type.__name__}", root,
                              detail=dict(hist=list(hist), interruption=exc_type.__name__,
                                          at="first call of hvsr.mean_curve inside the function"),
                              explanation="the figure was interrupted while it had altered the masks and left the "
                                          "object changed")
            for num in set(plt.get_fignums()) - nfig:
                plt.close(num)
    # ---- azimuthal figures --------------------------------------------------------------
    if kind == "azi":
        for dmc in ("lognormal", "normal"):
            for pk in (True, False):
                work = copy.deepcopy(o)
                detail = dict(hist=list(hist), distribution_mc=dmc, plot_mean_curve_peak_by_azimuth=pk)
                nfig = set(plt.get_fignums())
                with _MeshSpy() as spy:
                    res, exc = _guarded(lambda: PP.plot_azimuthal_contour_2d(work, distribution_mc=dmc,
                                                                             plot_mean_curve_peak_by_azimuth=pk),
                                        work, None, ctx, root, detail, "plot_azimuthal_contour_2d")
                ctx.count("figures")
                if exc is None and judgeable:
                    judge_mesh(spy.meshes, work, dmc, ctx, root, detail, "plot_azimuthal_contour_2d")
                if exc is None and pk and judgeable:
                    ctx.count("validated")
                    fig, (ax, cax) = res
                    sq = [ln for ln in ax.get_lines() if ln.get_marker() == "s"]
                    try:
                        fpk, _ = work.mean_curve_peak_by_azimuth(distribution=dmc)
                        if len(sq) != 1 or not close(sq[0].get_xdata(), fpk, rtol=1e-12) or \
                                not close(sq[0].get_ydata(), work.azimuths, rtol=1e-12):
                            ctx.violation("C20:plot_azimuthal_contour_2d:peak-markers", root, detail=detail,
                                          expected=[list(map(float, fpk)), list(work.azimuths)],
                                          explanation="square markers are not mean_curve_peak_by_azimuth vs azimuth")
                    except Exception:   # noqa: BLE001
                        pass
                with _MeshSpy() as spy:
                    res, exc = _guarded(lambda: PP.plot_azimuthal_contour_3d(work, distribution_mc=dmc,
                                                                             plot_mean_curve_peak_by_azimuth=pk),
                                        work, None, ctx, root, detail, "plot_azimuthal_contour_3d")
                ctx.count("figures")
                if exc is None and judgeable:
                    judge_mesh(spy.meshes, work, dmc, ctx, root, detail, "plot_azimuthal_contour_3d")
                for num in set(plt.get_fignums()) - nfig:
                    plt.close(num)
            for dfn in ("lognormal", "normal"):     # the two distributions are independent options
                work = copy.deepcopy(o)
                detail = dict(hist=list(hist), distribution_mc=dmc, distribution_fn=dfn)
                nfig = set(plt.get_fignums())
                res, exc = _guarded(lambda: PP.plot_azimuthal_summary(work, distribution_mc=dmc, distribution_fn=dfn),
                                    work, None, ctx, root, detail, "plot_azimuthal_summary")
                ctx.count("figures")
                if exc is None and judgeable:
                    ctx.count("validated")
                    fig, axs = res
                    opts = {k: v[0] for k, v in SINGLE_PANEL_SPACE.items()}
                    opts.update(distribution_mc=dmc, distribution_fn=dfn)
                    judge_single_panel(axs[2], work, opts, ctx, root, detail, "plot_azimuthal_summary:curves-panel")
                for num in set(plt.get_fignums()) - nfig:
                    plt.close(num)


class _MeshSpy:
    """Records the (x, y, z) meshes handed to Axes.contourf / Axes3D.plot_surface while active."""

    def __enter__(self):
        import matplotlib.axes
        from mpl_toolkits.mplot3d import Axes3D
        self.meshes = []
        self._saved = [(matplotlib.axes.Axes, "contourf", matplotlib.axes.Axes.contourf),
                       (Axes3D, "plot_surface", Axes3D.plot_surface)]
        for cls, name, orig in self._saved:
            def spy(ax, *a, _orig=orig, **k):
                if len(a) >= 3:
                    self.meshes.append(tuple(np.array(v, dtype=float) for v in a[:3]))
                return _orig(ax, *a, **k)
            setattr(cls, name, spy)
        return self

    def __exit__(self, *exc):
        for cls, name, orig in self._saved:
            setattr(cls, name, orig)
        return False


def judge_mesh(meshes, o, dmc, ctx, root, detail, site):
    """Every azimuth of the object is drawn with ITS mean curve: for each (azimuth_i, mean curve_i) of the
    object the mesh has a row at that azimuth carrying that curve (a closing row at 180 degrees may be added)."""
    ctx.count("meshes_judged")
    try:
        curves = np.asarray(o.mean_curve_by_azimuth(distribution=dmc), dtype=float)
    except Exception:       # noqa: BLE001
        return
    if not meshes:
        ctx.violation(f"C20:{site}:mesh:nothing-drawn", root, detail=detail,
                      explanation="no mesh was handed to contourf / plot_surface")
        return
    _, azi, amp = meshes[-1]
    for i, a in enumerate(o.azimuths):
        rows = [r for r in range(azi.shape[0]) if np.all(azi[r] == float(a))]
        if not any(amp[r].shape == curves[i].shape and close(amp[r], curves[i], rtol=1e-12) for r in rows):
            ctx.violation(f"C20:{site}:mesh:azimuth-row-is-not-that-azimuths-curve", root,
                          detail=dict(detail, azimuths=[float(v) for v in o.azimuths], azimuth=float(a),
                                      mesh_azimuths=azi[:, 0].tolist()),
                          expected=curves[i].tolist(), observed=[amp[r].tolist() for r in rows],
                          explanation="the mesh row drawn at this azimuth is not the mean curve of this azimuth")
            return


def _stats_defined(o):
    for d in ("lognormal", "normal"):
        for name, args in (("mean_curve_peak", ()), ("std_curve", ()), ("nth_std_fn_frequency", (1,)),
                           ("std_fn_amplitude", ())):
            v = _call(o, name, args, d)
            if isinstance(v, tuple) and v and v[0] == "raised":
                return False
            if not np.all(np.isfinite(np.asarray(v, dtype=float))):
                return False
    return True


def _needs_defined(opts, o):
    return True


def judge_table(captured, o, dfn, ctx, root, detail, kind):
    if len(captured) != 1:
        ctx.violation(f"C20:summarize_hvsr_statistics:{kind}:no-table", root, detail=detail,
                      explanation="no table was handed to display()")
        return
    df = getattr(captured[0], "data", captured[0])
    vals = np.asarray(df.values, dtype=float)
    want_f = [_call(o, "mean_fn_frequency", (), dfn), _call(o, "std_fn_frequency", (), dfn),
              _call(o, "nth_std_fn_frequency", (-1,), dfn), _call(o, "nth_std_fn_frequency", (1,), dfn)]
    want_a = [_call(o, "mean_fn_amplitude", (), dfn), _call(o, "std_fn_amplitude", (), dfn),
              _call(o, "nth_std_fn_amplitude", (-1,), dfn), _call(o, "nth_std_fn_amplitude", (1,), dfn)]
    if not close(vals[0], want_f, rtol=1e-12):
        ctx.violation(f"C20:summarize_hvsr_statistics:{kind}:fn-row", root, detail=detail, expected=want_f,
                      observed=vals[0].tolist(), explanation="the fn row is not (mean, std, -1, +1) of the object")
    if not close(vals[2], want_a, rtol=1e-12):
        ctx.violation(f"C20:summarize_hvsr_statistics:{kind}:An-row", root, detail=detail, expected=want_a,
                      observed=vals[2].tolist(), explanation="the An row is not (mean, std, -1, +1) of the object")
    if dfn == "lognormal":
        # period row: lognormal median and log-std of the reciprocal accepted peak frequencies
        per, w = [], []
        trads = _trads(o)
        for t in trads:
            m = np.asarray(t.valid_peak_boolean_mask, dtype=bool)
            fs = [float(f) for f in np.asarray(t._main_peak_frq)[m] if not math.isnan(f)]
            if not fs or (kind == "azi" and len(fs) != int(m.sum())):
                # an azimuth without a valid peak, or an accepted window without a peak: the
                # Cheng-weighted statistics are outside their domain (C11's quantifier)
                ctx.count("period_row_outside_quantifier")
                return
            per += [1.0 / f for f in fs]
            w += [1.0 / (len(trads) * len(fs))] * len(fs)
        if len(per) >= 2:
            if kind == "trad":
                med, sd = RS.mean(per, "lognormal"), RS.std(per, "lognormal")
            else:
                med, sd = RS.wmean(per, w, "lognormal"), RS.wstd(per, w, "lognormal")
            if not close(vals[1][:2], [med, sd], rtol=1e-9):
                ctx.violation(f"C20:summarize_hvsr_statistics:{kind}:period-row", root, detail=detail,
                              expected=[med, sd], observed=vals[1][:2].tolist(),
                              explanation="the period row does not hold the lognormal median and log-standard "
                                          "deviation of the reciprocal peak frequencies")


def judge_recordings(axs, recs, mask, normalize, ctx, root, detail):
    norm = max(float(np.max(np.abs(getattr(r, c).amplitude))) for r in recs for c in ("ns", "ew", "vt")) \
        if normalize else 1.0
    mask = [True] * len(recs) if mask is None else mask
    for ax, comp in zip(axs, ("ns", "ew", "vt")):
        lines = ax.get_lines()
        if len(lines) != len(recs):
            ctx.violation("C20:plot_seismic_recordings_3c:line-count", root, detail=detail, expected=len(recs),
                          observed=len(lines), explanation="not one line per recording and component")
            continue
        for ln, r, ok in zip(lines, recs, mask):
            style = KW["individual_valid_hvsr_curve" if ok else "individual_invalid_hvsr_curve"]
            if not _is(ln, style, ["color"]):
                ctx.violation("C20:plot_seismic_recordings_3c:style-vs-mask", root, detail=dict(detail, component=comp),
                              explanation="a recording is drawn in the wrong accepted/rejected style")
            if not close(np.asarray(ln.get_ydata(), dtype=float) * norm, getattr(r, comp).amplitude, rtol=1e-12,
                         atol=1e-15):
                ctx.violation("C20:plot_seismic_recordings_3c:samples", root, detail=dict(detail, component=comp),
                              explanation="a drawn trace is not the recording's samples (over the common "
                                          "normalisation factor)")


# ---------------------------------------------------------------------------
# systems: the C05 / C11 graphs with the plotting invariant

class TradSystem(c05.System):
    def __init__(self, root, kdev):
        super().__init__(root)
        self.kdev = kdev
        keep = []
        for op in self.ops:     # reduced menu: the states matter here, not the transitions
            if op["op"] == "U" and (op["kw"] is None or "height" in op["kw"]):
                keep.append(op)         # incl. the peak options that exclude the tallest peaks
            elif op["op"] == "F" and op["dfn"] == op["dmc"] == "lognormal" and op["rng"] == [None, None]:
                keep.append(op)
            elif op["op"] in ("M", "T", "A", "X"):
                keep.append(op)
        self.ops = keep

    def initial(self, root):
        h = c05.Holder(HvsrTraditional(self.freq, self.curves, meta=c12.real_meta("trad")))
        for op in root.get("prefix", []):
            self.observe(h)
            self.apply(h, op)
        return h

    def observe(self, h):
        # "touch": read the statistics AND draw the live object (as a user would between steps);
        # states are merged on canon only
        for name, args in ACCESSORS:
            _call(h.obj, name, args, "lognormal")
        try:
            with contextlib.redirect_stdout(io.StringIO()), np.errstate(all="ignore"):
                PP.plot_single_panel_hvsr_curves(h.obj, ax=_Fig.ax())
        except Exception:       # noqa: BLE001 - undefined statistics in this state; judged elsewhere
            pass
        return None

    def invariant(self, h, hist, ctx, root):
        hist = tuple(root.get("prefix", [])) + tuple(hist)
        recs = c05.make_records([True] * self.W)
        check_state(h.obj, recs, self.kdev, ctx, root, hist)


class AziSystem(c11.System):
    def __init__(self, root, kdev):
        super().__init__(root)
        self.kdev = kdev
        self.ops = [op for op in self.ops if not (op["op"] == "F" and op["dfn"] == "normal")]
        if root.get("ops_subset") == "MX-same":
            self.ops = [op for op in self.ops if op["op"] == "M" or
                        (op["op"] == "X" and op["az"] == op["az2"] == 0)]

    def initial(self, root):
        h = super().initial(root)
        for op in root.get("prefix", []):
            self.observe(h)
            self.apply(h, op)
        return h

    def observe(self, h):
        # "touch": read the statistics AND draw the live object (as a user would between steps);
        # states are merged on canon only
        for name, args in ACCESSORS:
            _call(h.obj, name, args, "lognormal")
        try:
            with contextlib.redirect_stdout(io.StringIO()), np.errstate(all="ignore"):
                PP.plot_single_panel_hvsr_curves(h.obj, ax=_Fig.ax())
        except Exception:       # noqa: BLE001 - undefined statistics in this state; judged elsewhere
            pass
        return None

    def invariant(self, h, hist, ctx, root):
        check_state(h.obj, None, self.kdev, ctx, root, tuple(root.get("prefix", [])) + tuple(hist))


class DiffuseSystem(c12.DiffuseSystem):
    def __init__(self, root, kdev):
        super().__init__(root)
        self.kdev = kdev

    def invariant(self, h, hist, ctx, root):
        check_state(h.obj, None, self.kdev, ctx, root, hist)


def roots(tier, seed):
    """Base roots are split by first operation (root['prefix']) so that the expensive
    per-state work spreads over the worker processes; the union of the explored
    histories is exactly 'all histories up to depth d' of each base root."""
    out = []
    for b in _base_roots(tier):
        if b["depth"] == 0 or b["kind"] == "diffuse":
            out.append(b)
            continue
        cls = dict(trad=TradSystem, azi=AziSystem)[b["kind"]]
        out.append(dict(b, depth=0))
        for op in cls(b, b["kdev"]).ops:
            out.append(dict(b, prefix=[op], depth=b["depth"] - 1))
    return out


def _base_roots(tier):
    out = []
    if tier == "quick":
        out.append(dict(kind="trad", grid="lin", F=7, shapes=["p2", "p4", "twopk", "p3"], depth=1, kdev=1))
        # draw, change WHICH windows are accepted but not how many, draw again (same live object)
        out.append(dict(kind="trad", grid="lin", F=7, shapes=["p2", "p4", "p3"], depth=2, kdev=0, reaccept=True))
        out.append(dict(kind="trad", grid="lin", F=7, shapes=["p2", "p2", "steep_up"], depth=1, kdev=1))
        out.append(dict(kind="trad", grid="geo", F=7, shapes=["p1", "p5", "p3", "up"], depth=1, kdev=1))
        out.append(dict(kind="azi", grid="lin", F=7, shapes_by_az=[["p2", "p4", "p3"], ["p1", "twopk", "p5"]],
                        depth=1, kdev=1))
        # one accepted window 30 times stronger than the others: under the normal assumption the standard
        # deviation exceeds the mean and the -1 sigma curve is negative
        loud = [A.shape("p2", 7), [1.1 * v for v in A.shape("p2", 7)], [30.0 * v for v in A.shape("p3", 7)]]
        out.append(dict(kind="trad", grid="lin", F=7, shapes=["p2", "p2", "p3"], rows=loud, depth=0, kdev=1))
        out.append(dict(kind="azi", grid="lin", F=7, shapes_by_az=[["p2", "p2", "p3"], ["p2", "p3", "p2"]],
                        rows_by_az=[loud, [loud[0], loud[2], loud[1]]], depth=0, kdev=1))
        # every window has a high and a lower peak: peak options (height <= 3.6) that exclude the high one decide
        # which peak of the MEAN curve is marked
        out.append(dict(kind="trad", grid="lin", F=7, shapes=["twopk", "twopk", "twopk"], depth=1, kdev=0))
        # azimuths that are not stored in ascending order
        out.append(dict(kind="azi", grid="lin", F=7, shapes_by_az=[["p2", "p4", "p3"], ["p1", "twopk", "p5"],
                                                                   ["p3", "p3", "p4"]],
                        az_values=[90.0, 0.0, 45.0], depth=0, kdev=0))
        # draw, swap WHICH window of an azimuth is rejected (every count stays), draw the same object again
        out.append(dict(kind="azi", grid="lin", F=7, shapes_by_az=[["p2", "p4", "p3"], ["p1", "twopk", "p5"]],
                        depth=2, kdev=0, reaccept=True, swap_same_azimuth=True, ops_subset="MX-same"))
        out.append(dict(kind="diffuse", grid="lin", values=[1, 2, 3, 2, 1, 2, 1], depth=1, kdev=1))
        return out
    for s in (["p2", "p4", "twopk", "p3"], ["p2", "p2", "steep_up"], ["p1", "p5", "p3", "up"],
              ["plateau", "p2", "p3", "flat"], ["p3", "p3", "p4"]):
        out.append(dict(kind="trad", grid="lin", F=7, shapes=s, depth=2, kdev=1))
        out.append(dict(kind="trad", grid="lin", F=7, shapes=s, depth=1, kdev=2))
    out.append(dict(kind="trad", grid="lin", F=7, shapes=["p2", "p4", "p3", "p5"], depth=2, kdev=0, reaccept=True))
    out.append(dict(kind="azi", grid="lin", F=7, shapes_by_az=[["p2", "p4", "p3"], ["p1", "twopk", "p5"]],
                    depth=2, kdev=0, reaccept=True, ops_subset="MA"))
    for sh in ([["p2", "p4", "p3"], ["p1", "twopk", "p5"]], [["p2", "p4", "p3"]],
               [["p3", "p3", "p4"], ["q3", "p2", "tie"], ["p2", "p4", "p3"]]):
        out.append(dict(kind="azi", grid="lin", F=7, shapes_by_az=sh, depth=2 if len(sh) < 3 else 1, kdev=1))
    out.append(dict(kind="azi", grid="lin", F=7, shapes_by_az=[["p2", "p4", "p3"], ["p1", "twopk", "p5"],
                                                               ["p3", "p3", "p4"]],
                    az_values=[90.0, 0.0, 45.0], depth=1, kdev=0))
    out.append(dict(kind="trad", grid="lin", F=7, shapes=["twopk", "twopk", "twopk"], depth=2, kdev=1))
    loud = [A.shape("p2", 7), [1.1 * v for v in A.shape("p2", 7)], [30.0 * v for v in A.shape("p3", 7)]]
    out.append(dict(kind="trad", grid="lin", F=7, shapes=["p2", "p2", "p3"], rows=loud, depth=1, kdev=2))
    out.append(dict(kind="azi", grid="lin", F=7, shapes_by_az=[["p2", "p2", "p3"], ["p2", "p3", "p2"]],
                    rows_by_az=[loud, [loud[0], loud[2], loud[1]]], depth=1, kdev=1))
    out.append(dict(kind="azi", grid="lin", F=7, shapes_by_az=[["p2", "p4", "p3"], ["p1", "twopk", "p5"]],
                    depth=3, kdev=0, reaccept=True, swap_same_azimuth=True, ops_subset="MX-same"))
    for vals in ([1, 2, 3, 2, 1, 2, 1], [1, 2, 3, 4, 5, 6, 7], [3, 1, 2, 1, 3, 1, 2]):
        out.append(dict(kind="diffuse", grid="lin", values=vals, depth=2, kdev=2))
    return out


def run_root(root, ctx, tier):
    cls = dict(trad=TradSystem, azi=AziSystem, diffuse=DiffuseSystem)[root["kind"]]
    sysm = cls(root, root["kdev"])
    try:
        explorer.bfs(sysm, root, root["depth"], ctx, key_prefix="C20", touch=True)
    finally:
        plt.close("all")
        _Fig.fig = None
    ctx.nontrivial_case((root["kind"], root.get("shapes") or root.get("shapes_by_az") or root.get("values")))
    if len(ctx.samples) < 4:
        ctx.sample(dict(root=root, menu_size=len(sysm.ops), single_panel_option_cases=product.size(SINGLE_PANEL_SPACE,
                                                                                                 root["kdev"])))


def describe(tier):
    return dict(
        rule="roots: curve sets as HvsrTraditional (with matching recordings), HvsrAzimuthal and HvsrDiffuseField; the "
             "C05/C11 menus (range updates, frequency-domain / manual / time-domain rejections) are explored to the "
             "root's depth; in every state plot_single_panel_hvsr_curves is called for every option combination within "
             "k deviations of its defaults (9 options), summarize_hvsr_statistics for the 4 distribution pairs, "
             "plot_seismic_recordings_3c (+-mask, +-normalise), plot_pre_and_post_rejection and the three azimuthal "
             "figures; transitions = calls of the functions under test; non-trivial/distinct = (kind, shapes)",
        bounds=dict(depth="1 quick, 1-2 thorough", option_deviations="1 quick, 1-2 thorough"),
        exhaustive=True,
        assumptions=["Agg backend; artists are identified by the style constants of hvsrpy.postprocessing."
                     "DEFAULT_KWARGS and compared by data, not pixels",
                     "artists are judged only in states where every drawn statistic is defined (>= 2 accepted windows "
                     "per azimuth, mean-curve peak exists); read-only-ness is judged in every state, also when the "
                     "function raises",
                     "the -1/+1 columns of the period row and contour meshes are not pinned by the statement"])


_describe_base = describe


def describe(tier):     # noqa: F811 - the base description plus what later rounds added to the space
    d = _describe_base(tier)
    d["rule"] = d["rule"] + " " + "In every traditional state plot_pre_and_post_rejection is also run on an object whose mean_curve raises once (RuntimeError, KeyboardInterrupt): the object must be unchanged. The meshes handed to Axes.contourf / Axes3D.plot_surface are recorded and judged (for every azimuth of the object a row at that azimuth carrying that azimuth's mean curve); one root stores the azimuths as [90, 0, 45]; one root swaps which window of azimuth 0 is rejected between two drawings of the same live object. Further roots: one accepted window 30 times stronger than the others (traditional and azimuthal), three two-peak windows (range updates with peak options are in the menu). In every traditional state recordings with two nan samples are drawn (they must stay unchanged); the azimuthal summary is drawn for all four (distribution_mc, distribution_fn) pairs."
    d["rule"] += (" In every state, before anything else and on the LIVE object of the history, every function whose "
                  "second argument is tied to the object is called with an argument that does not fit it: "
                  "plot_pre_and_post_rejection with recordings one too few / one too many / a single recording, "
                  "and with an azimuthal / diffuse-field result; plot_seismic_recordings_3c with the object's own mask "
                  "and those recordings, with the mask one too short, with two axes; plot_azimuthal_contour_2d with a "
                  "traditional / diffuse-field result.  Refused or not, object and recordings must be bit-identical "
                  "(keys C20:<function>:refused:<argument>:object-modified:...); the history continues from that object. "
                  "Counters: unfit_argument_calls(_refused/_accepted/_on_object_with_rejections).")
    return d
