"""C19 - command-line batch output equals the library pipeline for each file.

E3: the real `hvsrpy.cli.cli` is invoked in-process (click, standalone_mode=False)
with `hvsrpy.cli.Pool` replaced by the virtual pool of engine/vpool.py.  For
every ordered batch of input files, every --nproc (or cpu_count answer) and
every chunk->worker assignment, each `<stem>.csv` written must be byte-identical
to the file produced by read -> preprocess -> process -> write for that file
alone in a fresh process with freshly loaded settings.  A few batches are also
run through the real multiprocessing.Pool (free-running) and must match one of
the enumerated schedules.

Settings files: both kinds of preprocessing settings the command line accepts
(HVSR-style and PSD-style; the latter writes an FFT length resolved from the whole
recording into the PREprocessing settings object and uses it to differentiate)
and the processing settings kinds, with every shape of the nested fft_settings entry a settings file can
carry: null, an EMPTY dict, {"n": null} and {"n": <int>}.

Input names: the name is what `read` receives and records under "file name(s)" in the CSV header, so the CSV is
compared byte for byte - header included - with the library pipeline given THE SAME NAME AS TYPED on the command
line.  Besides absolute normal names the batch files are spelled relative to the working directory, with a
leading "./", with a doubled separator, with an inner "/./" and through "..".
"""
import hashlib
import itertools
import json
import os
import shutil
import sys
import tempfile
import uuid

import numpy as np

from hvmc.engine import vpool

PROPERTY = "C19"
MAX_JOBS = 16

HERE = os.path.dirname(os.path.abspath(__file__))
VERIF = os.path.dirname(os.path.dirname(HERE))

FILES = {   # stem -> (sampling rate, seconds, seed)
    "A100": (100.0, 170, 1),
    "B500": (500.0, 170, 2),
    "C100": (100.0, 250, 3),
    "D050": (50.0, 200, 4),
    # two legitimate high sampling rates whose time steps differ by 5.9e-6 s (< any 1e-5 tolerance);
    # only used with the short-window preprocessing settings
    "E4000": (4000.0, 6, 5),
    "F4096": (4096.0, 6, 6),
}
HI = ("E4000", "F4096")
FCS = [0.5, 0.8, 1.3, 2.1, 3.4, 5.5, 8.9, 14.4]
PRE = {
    "pre_plain": dict(window_length_in_seconds=80.0, detrend="linear",
                      filter_corner_frequencies_in_hz=[None, None], orient_to_degrees_from_north=0.0),
    "pre_filt": dict(window_length_in_seconds=80.0, detrend="constant",
                     filter_corner_frequencies_in_hz=[0.3, 20.0], orient_to_degrees_from_north=30.0),
    "pre_short": dict(window_length_in_seconds=2.5, detrend="linear",
                      filter_corner_frequencies_in_hz=[None, None], orient_to_degrees_from_north=0.0),
}
# PSD-style preprocessing settings files are accepted by the command line as well.  psd_preprocess() WRITES
# the FFT length resolved from the whole recording into its settings object (prepare_fft_settings) and
# uses it when `differentiate` is set: state in the PREprocessing settings object shared by a chunk.
# (An instrument transfer function cannot be stored in a settings file, so it is not reachable here.)
PRE_PSD = {
    "pre_psd_diff": dict(window_length_in_seconds=80.0, detrend="linear", differentiate=True,
                         filter_corner_frequencies_in_hz=[None, None], orient_to_degrees_from_north=0.0),
    # explicit (nested, mutable) fft_settings dict in the preprocessing settings + filter + rotation
    "pre_psd_diff_fftn": dict(window_length_in_seconds=80.0, detrend="constant", differentiate=True,
                              filter_corner_frequencies_in_hz=[0.3, 20.0], orient_to_degrees_from_north=30.0,
                              fft_settings={"n": 1024}),
    # an EMPTY fft_settings dict ("no keyword arguments for the FFT"): falsy, yet a mutable object into which
    # the resolved length is written; and {"n": null} ("FFT as long as the longest record, not padded")
    "pre_psd_diff_fft0": dict(window_length_in_seconds=80.0, detrend="linear", differentiate=True,
                              filter_corner_frequencies_in_hz=[None, None], orient_to_degrees_from_north=0.0,
                              fft_settings={}),
    "pre_psd_diff_fftnull": dict(window_length_in_seconds=80.0, detrend="linear", differentiate=True,
                                 filter_corner_frequencies_in_hz=[None, None], orient_to_degrees_from_north=0.0,
                                 fft_settings={"n": None}),
    # the resolved length is written into the settings but never used
    "pre_psd_nodiff": dict(window_length_in_seconds=80.0, detrend="linear", differentiate=False,
                           filter_corner_frequencies_in_hz=[None, None], orient_to_degrees_from_north=0.0),
}
PROC = {
    "trad": ("HvsrTraditionalProcessingSettings", dict(method_to_combine_horizontals="geometric_mean")),
    "azi": ("HvsrAzimuthalProcessingSettings", dict(azimuths_in_degrees=[0.0, 60.0, 120.0])),
    "diffuse": ("HvsrDiffuseFieldProcessingSettings", dict()),
    # an explicit (nested, mutable) fft_settings dict: process() writes the resolved length INTO it
    "trad_fftn": ("HvsrTraditionalProcessingSettings", dict(method_to_combine_horizontals="squared_average",
                                                            fft_settings={"n": 1024})),
    # the other two shapes of the entry: an empty dict (falsy, mutable) and {"n": null}
    "trad_fft0": ("HvsrTraditionalProcessingSettings", dict(method_to_combine_horizontals="geometric_mean",
                                                            fft_settings={})),
    "trad_fftnull": ("HvsrTraditionalProcessingSettings", dict(method_to_combine_horizontals="geometric_mean",
                                                               fft_settings={"n": None})),
}
# shape of the fft_settings entry of each settings file (None = the file carries null)
FFT_SHAPE = {"trad_fftn": "int-n", "trad_fft0": "empty-dict", "trad_fftnull": "null-n",
             "pre_psd_diff_fftn": "int-n", "pre_psd_diff_fft0": "empty-dict", "pre_psd_diff_fftnull": "null-n"}
# settings combinations that only differ from an already enumerated one in the SHAPE of an fft_settings entry.
# The settings objects are pickled once per chunk, so the shape can only matter between files of one chunk:
# the quick tier runs these on every batch with --nproc 1 (one chunk holding the whole batch).
PROC_BASE = ["trad", "azi", "diffuse", "trad_fftn"]
SHAPE_COMBOS = [("pre_plain", "trad_fft0"), ("pre_psd_diff_fft0", "trad"),
                ("pre_plain", "trad_fftnull"), ("pre_psd_diff_fftnull", "trad")]

# spellings of an input name on the command line (default: absolute and normal).  `read` records the name
# it is given in the metadata and `write` puts it into the CSV header: part of the result.
SPELLINGS = ["rel", "dot-rel", "double-sep", "inner-dot", "dotdot"]
SP_STEMS = ("A100", "D050")

DISTS_MIXED = [["normal", "lognormal"], ["lognormal", "normal"], ["normal", "normal"]]   # (mc, fn)

_DATA = None        # directory with inputs, settings and references (set by warm())
_CONFORMANCE = []   # filled by warm(), reported by finalize()


def _data_dir():
    src = json.dumps([FILES, FCS, PRE, {k: list(v) for k, v in PROC.items()}, PRE_PSD], sort_keys=True,
                     default=str)
    tag = hashlib.sha256(src.encode()).hexdigest()[:12]
    return os.path.join(VERIF, ".cache", "c19", tag)


def _make_inputs(d):
    import obspy
    import hvsrpy
    os.makedirs(d, exist_ok=True)
    for stem, (fs, secs, seed) in FILES.items():
        path = os.path.join(d, stem + ".mseed")
        if os.path.exists(path):
            continue
        n = int(fs * secs) + 1
        rng = np.random.Generator(np.random.PCG64(seed))
        t = np.arange(n) / fs
        traces = []
        for ci, ch in enumerate(("BHN", "BHE", "BHZ")):
            x = rng.standard_normal(n) + (2.0 - ci * 0.5) * np.sin(2 * np.pi * (1.0 + 0.7 * ci) * t)
            tr = obspy.Trace(data=x.astype(np.float32),
                             header=dict(sampling_rate=fs, channel=ch, station="HVMC", network="XX"))
            traces.append(tr)
        tmp = path + f".{os.getpid()}.tmp"
        obspy.Stream(traces).write(tmp, format="MSEED")
        os.replace(tmp, path)
    smoothing = dict(operator="konno_and_ohmachi", bandwidth=40, center_frequencies_in_hz=FCS)
    for name, kw in PRE.items():
        p = os.path.join(d, name + ".json")
        if not os.path.exists(p):
            hvsrpy.HvsrPreProcessingSettings(**kw).save(p)
    for name, kw in PRE_PSD.items():
        p = os.path.join(d, name + ".json")
        if not os.path.exists(p):
            hvsrpy.settings.PsdPreProcessingSettings(**kw).save(p)
    for name, (cls, kw) in PROC.items():
        p = os.path.join(d, name + ".json")
        if not os.path.exists(p):
            getattr(hvsrpy, cls)(smoothing=smoothing, **kw).save(p)


def _in_child(fn):
    """Run fn() in a forked child with stdout silenced; return its exit status."""
    pid = os.fork()
    if pid == 0:
        try:
            dn = os.open(os.devnull, os.O_WRONLY)
            os.dup2(dn, 1)
            fn()
            os._exit(0)
        except BaseException:       # noqa: BLE001
            import traceback
            traceback.print_exc()
            os._exit(3)
    return pid


def _spelled(d, stem, spell, cwd):
    """The name of input `stem` as typed on the command line by somebody whose working directory is cwd."""
    base = stem + ".mseed"
    if spell in (None, "abs"):
        return os.path.join(d, base)
    if spell == "rel":
        return os.path.join(os.path.relpath(d, cwd), base)
    if spell == "dot-rel":
        return "./" + os.path.join(os.path.relpath(d, cwd), base)
    if spell == "double-sep":
        return d + "//" + base
    if spell == "inner-dot":
        return d + "/./" + base
    if spell == "dotdot":
        return os.path.join(d, "..", os.path.basename(d), base)
    raise ValueError(spell)


def _spell_tag(spell):
    return "" if spell in (None, "abs") else f"__name-{spell}"


def _dist_tag(dist):
    return "" if not dist or list(dist) == ["lognormal", "lognormal"] else f"__{dist[0]}-{dist[1]}"


def _reference_job(d, stem, pre, proc, dist=None, spell=None):
    """read -> preprocess -> process -> write for one file alone, fresh settings; the file is named as it
    is on the command line (relative spellings: from a working directory that is a sibling of the ones the
    command line runs in, so that the relative name is the same string)."""
    dist = list(dist or ["lognormal", "lognormal"])

    def job():
        import hvsrpy
        from hvsrpy.object_io import read_settings_object_from_file
        out = os.path.join(d, "ref", f"{pre}__{proc}{_dist_tag(dist)}{_spell_tag(spell)}")
        os.makedirs(out, exist_ok=True)
        ps = read_settings_object_from_file(os.path.join(d, pre + ".json"))
        pr = read_settings_object_from_file(os.path.join(d, proc + ".json"))
        cwd = tempfile.mkdtemp(prefix="c19-refcwd-")
        try:
            os.chdir(cwd)
            fname = _spelled(d, stem, spell, cwd)
            recs = hvsrpy.read([[fname]])
            recs = hvsrpy.preprocess(recs, ps)
            hv = hvsrpy.process(recs, pr)
            tmp = os.path.join(out, f"{stem}.{os.getpid()}.tmp")
            hvsrpy.write_hvsr_object_to_file(hv, tmp, distribution_mc=dist[0], distribution_fn=dist[1])
            os.replace(tmp, os.path.join(out, stem + ".csv"))
            with open(tmp, "w") as f:
                f.write(fname)
            os.replace(tmp, os.path.join(out, stem + ".name"))
        finally:
            os.chdir(d)
            shutil.rmtree(cwd, ignore_errors=True)
    return job


def _control_job(d):
    """Non-vacuity control: A100 alone with the PSD-style differentiating settings, but with the FFT length
    its settings object would inherit from B500 (131072).  Must differ from the reference."""
    def job():
        import hvsrpy
        from hvsrpy.object_io import read_settings_object_from_file
        out = os.path.join(d, "ref", "control")
        os.makedirs(out, exist_ok=True)
        ps = read_settings_object_from_file(os.path.join(d, "pre_psd_diff.json"))
        ps.fft_settings = dict(n=_pow2(_npts("B500")))
        pr = read_settings_object_from_file(os.path.join(d, "trad.json"))
        recs = hvsrpy.read([[os.path.join(d, "A100.mseed")]])
        recs = hvsrpy.preprocess(recs, ps)
        hv = hvsrpy.process(recs, pr)
        tmp = os.path.join(out, f"A100.{os.getpid()}.tmp")
        hvsrpy.write_hvsr_object_to_file(hv, tmp, distribution_mc="lognormal", distribution_fn="lognormal")
        os.replace(tmp, os.path.join(out, "A100.csv"))
    return job


def _combos(tier):
    if tier == "quick":
        return [("pre_plain", "trad"), ("pre_filt", "azi"), ("pre_plain", "trad_fftn"),
                ("pre_psd_diff", "trad"), ("pre_psd_diff_fftn", "trad")]
    return ([(a, b) for a in PRE for b in PROC_BASE] +
            [("pre_psd_diff", b) for b in PROC_BASE] +
            [("pre_psd_diff_fftn", "trad"), ("pre_psd_nodiff", "trad")])


def _shape_combos(tier):
    # thorough: also both settings files with an empty dict at once
    return SHAPE_COMBOS + ([] if tier == "quick" else [("pre_psd_diff_fft0", "trad_fft0")])


def _ref_combos(tier):
    return _combos(tier) + _shape_combos(tier)


def _stems(tier):
    # quick: A100 and D050 share the padded FFT length but not the sampling rate (state keyed by the
    # FFT length alone), B500 needs the longer FFT; thorough adds C100 (same rate as A100, other length)
    return ["A100", "B500", "D050"] if tier == "quick" else [f for f in FILES if f not in HI]


def warm(tier="quick"):
    """Build inputs, settings files and per-file references (each in its own
    fresh forked process), warm the JIT, then run the real-pool conformance."""
    global _DATA
    d = _data_dir()
    base = os.path.dirname(d)
    if os.path.isdir(base):
        for other in os.listdir(base):          # input sets of earlier versions of this check
            if os.path.join(base, other) != d:
                shutil.rmtree(os.path.join(base, other), ignore_errors=True)
    # references depend on /repo's code: always recomputed (inputs are kept).
    shutil.rmtree(os.path.join(d, "ref"), ignore_errors=True)
    _make_inputs(d)
    _DATA = d
    import hvsrpy  # noqa: F401
    from hvmc import setup as _s  # noqa: F401  (kernels are cached by setup; compile if not)
    from hvsrpy.smoothing import SMOOTHING_OPERATORS
    f = np.fft.rfftfreq(16, 0.01)
    SMOOTHING_OPERATORS["konno_and_ohmachi"](f, np.ones((2, len(f))), np.array([5.0]), 40)
    pids = []
    jobs = [(stem, pre, proc, None, None) for (pre, proc) in _ref_combos(tier) for stem in _stems(tier)]
    jobs += [(stem, "pre_short", "trad", None, None) for stem in HI]
    jobs += [(stem, "pre_plain", proc, dist, None) for stem in ("A100",) for proc in ("trad", "azi")
             for dist in DISTS_MIXED]
    jobs += [(stem, "pre_plain", "trad", None, spell) for stem in SP_STEMS for spell in SPELLINGS]
    for (stem, pre, proc, dist, spell) in jobs:
            pids.append(_in_child(_reference_job(d, stem, pre, proc, dist, spell)))
            if len(pids) >= 12:
                os.waitpid(pids.pop(0), 0)
    pids.append(_in_child(_control_job(d)))
    for p in pids:
        os.waitpid(p, 0)
    _conformance(tier)


# ---------------------------------------------------------------------------
# running the CLI

def _cli_args(d, files, nproc, pre, proc, dist=None, spell=None, cwd=None):
    spell = spell or [None] * len(files)
    args = [_spelled(d, s, sp, cwd or os.getcwd()) for s, sp in zip(files, spell)]
    if dist:
        args += ["--distribution_mc", dist[0], "--distribution_fn", dist[1]]
    args += ["--preprocessing_settings_file", os.path.join(d, pre + ".json"),
             "--processing_settings_file", os.path.join(d, proc + ".json"), "--no_figure"]
    if nproc is not None:
        args += ["--nproc", str(nproc)]
    return args


def _invoke(args, pool_cls, cpu=None):
    import hvsrpy.cli as C
    old_pool, old_cpu = C.Pool, os.cpu_count
    C.Pool = pool_cls
    if cpu is not None:
        os.cpu_count = lambda: cpu
    try:
        C.cli.main(args=args, standalone_mode=False)
    finally:
        C.Pool = old_pool
        os.cpu_count = old_cpu


def _probe(d, root):
    vpool.VirtualPool.mode = "probe"
    try:
        _invoke(_cli_args(d, root["files"], root["nproc"], root["pre"], root["proc"], root.get("dist"),
                          root.get("spell")),
                vpool.VirtualPool, cpu=root.get("cpu"))
    except vpool.ProbeDone:
        pass
    finally:
        vpool.VirtualPool.mode = "run"
    return vpool.VirtualPool.last


def _run_schedule(d, root, assignment):
    """Run the CLI under one schedule in a fresh directory; return
    (outputs {stem: bytes}, files_by_chunk, error)."""
    work = tempfile.mkdtemp(prefix="c19-")
    cwd = os.getcwd()
    by_chunk = {}
    seen = set()

    def done(ci, w):
        now = set(os.listdir(work))
        by_chunk[ci] = (w, sorted(now - seen))
        seen.update(now)
    err = None
    try:
        os.chdir(work)
        vpool.VirtualPool.assignment = tuple(assignment)
        vpool.VirtualPool.on_chunk_done = done
        devnull = open(os.devnull, "w")
        old = sys.stdout
        sys.stdout = devnull
        try:
            _invoke(_cli_args(d, root["files"], root["nproc"], root["pre"], root["proc"], root.get("dist"),
                              root.get("spell"), work),
                    vpool.VirtualPool, cpu=root.get("cpu"))
        except Exception as e:      # noqa: BLE001
            err = f"{type(e).__name__}: {e}"[-1500:]
        finally:
            sys.stdout = old
            devnull.close()
        outs = {}
        for fn in os.listdir(work):
            with open(os.path.join(work, fn), "rb") as f:
                outs[fn] = f.read()
    finally:
        os.chdir(cwd)
        vpool.VirtualPool.assignment = None
        vpool.VirtualPool.on_chunk_done = None
        shutil.rmtree(work, ignore_errors=True)
    return outs, by_chunk, err


def _ref_bytes(d, stem, pre, proc, dist=None, spell=None):
    p = os.path.join(d, "ref", f"{pre}__{proc}{_dist_tag(dist)}{_spell_tag(spell)}", stem + ".csv")
    with open(p, "rb") as f:
        return f.read()


def _ref_name(d, stem, pre, proc, dist=None, spell=None):
    p = os.path.join(d, "ref", f"{pre}__{proc}{_dist_tag(dist)}{_spell_tag(spell)}", stem + ".name")
    with open(p) as f:
        return f.read()


_NAME_LINE = b'"file name(s)"'


def _without_name_field(b):
    """The CSV without the header line(s) carrying the recorded input name."""
    return b"\n".join(ln for ln in b.split(b"\n") if _NAME_LINE not in ln)


def _shape_class(root):
    """Input class suffix: the shape of the fft_settings entries of the settings files (if not null)."""
    out = ""
    if root["proc"] in FFT_SHAPE and FFT_SHAPE[root["proc"]] != "int-n":
        out += ":processing-fft_settings-" + FFT_SHAPE[root["proc"]]
    if root["pre"] in FFT_SHAPE and FFT_SHAPE[root["pre"]] != "int-n":
        out += ":preprocessing-fft_settings-" + FFT_SHAPE[root["pre"]]
    return out


def _first_diff(a, b):
    la, lb = a.decode(errors="replace").splitlines(), b.decode(errors="replace").splitlines()
    for i, (x, y) in enumerate(zip(la, lb)):
        if x != y:
            return dict(line=i + 1, reference=x[:160], cli=y[:160])
    return dict(line=min(len(la), len(lb)) + 1, reference=f"{len(la)} lines", cli=f"{len(lb)} lines")


def _npts(stem):
    fs, secs, _ = FILES[stem]
    return int(fs * secs) + 1


def _pow2(n):
    p = 2 ** 15
    while p <= n:
        p *= 2
    return p


def _classify(root, chunks, stem):
    """Input class of a differing file, for the finding key: what precedes it in its chunk."""
    for ch in chunks:
        stems = [os.path.splitext(os.path.basename(t[0]))[0] for t in ch]
        if stem in stems:
            before = stems[:stems.index(stem)]
            if not before:
                return ("psd-preprocessing-settings:first-in-chunk" if root["pre"] in PRE_PSD else
                        "first-in-chunk")
            fs = FILES[stem][0]
            if stem in HI:
                return "after-other-file-in-same-chunk"
            if root["pre"] in PRE_PSD:
                # PSD-style preprocessing resolves an FFT length from the WHOLE recording
                longer = [b for b in before if _pow2(_npts(b)) > _pow2(_npts(stem))]
                return ("psd-preprocessing-settings:after-longer-recording-in-same-chunk" if longer else
                        "psd-preprocessing-settings:after-other-file-in-same-chunk")
            longer = [b for b in before if FILES[b][0] * 80 + 1 > 32768 >= fs * 80 + 1]
            return "after-file-needing-longer-fft-in-same-chunk" if longer else "after-other-file-in-same-chunk"
    return "not-in-any-chunk"


def run_root(root, ctx, tier):
    d = _DATA or _data_dir()
    info = _probe(d, root)
    W, chunks = info["processes"], info["chunks"]
    n_chunks = len(chunks)
    flat = [os.path.splitext(os.path.basename(t[0]))[0] for ch in chunks for t in ch]
    if flat != list(root["files"]):
        ctx.violation("C19:cli:tasks-do-not-cover-the-batch", root, expected=root["files"], observed=flat,
                      explanation="the chunks handed to the pool are not the command-line files in order")
    for assignment in vpool.restricted_growth_strings(n_chunks, W):
        ctx.count("states")
        ctx.count("transitions", n_chunks)
        outs, by_chunk, err = _run_schedule(d, root, assignment)
        sched = dict(assignment=list(assignment), processes=W,
                     chunks=[[os.path.basename(t[0]) for t in ch] for ch in chunks])
        if len(ctx.samples) < 4:
            ctx.sample(dict(root=root, schedule=sched))
        if err:
            ctx.violation("C19:cli:raises", root, detail=sched, observed=err,
                          explanation="the command line raised for this schedule")
            continue
        ctx.count("validated")
        if root["pre"] in PRE_PSD:
            ctx.count("psd_preprocessing_schedules")
            if PRE_PSD[root["pre"]].get("differentiate"):
                for ch in chunks:
                    st = [os.path.splitext(os.path.basename(t[0]))[0] for t in ch]
                    if any(_pow2(_npts(a)) > _pow2(_npts(b)) for i, b in enumerate(st) for a in st[:i]):
                        ctx.count("psd_differentiate_longer_recording_first_in_chunk")
                    if any(_pow2(_npts(a)) < _pow2(_npts(b)) for i, b in enumerate(st) for a in st[:i]):
                        ctx.count("psd_differentiate_shorter_recording_first_in_chunk")
        # independence: files written by different chunks/workers are disjoint
        owners = {}
        for ci, (w, files) in by_chunk.items():
            for fn in files:
                if fn in owners:
                    ctx.violation("C19:cli:file-written-by-two-chunks", root, detail=dict(sched, file=fn),
                                  explanation="two chunks wrote the same output file")
                owners[fn] = (ci, w)
        want = {s + ".csv" for s in root["files"]}
        if set(outs) != want:
            ctx.violation("C19:cli:output-file-set", root, detail=sched, expected=sorted(want),
                          observed=sorted(outs), explanation="the set of files written differs from one csv per input")
        # settings files whose fft_settings entry is an empty dict / {"n": null}: which chunk orders were seen
        for (name, kind) in ((root["proc"], "processing"), (root["pre"], "preprocessing")):
            shape = FFT_SHAPE.get(name)
            if shape in ("empty-dict", "null-n"):
                # the length each file resolves: from the whole recording (PSD-style preprocessing) or from
                # its 80 s windows (processing); padded to a power of two unless the file says "n": null
                pad = _pow2 if shape == "empty-dict" else (lambda n: n)
                size = ((lambda st: pad(_npts(st))) if kind == "preprocessing" else
                        (lambda st: pad(int(FILES[st][0] * 80) + 1)))
                for ch in chunks:
                    st = [os.path.splitext(os.path.basename(t[0]))[0] for t in ch]
                    if any(size(a) > size(b) for i, b in enumerate(st) for a in st[:i]):
                        ctx.count(f"{kind}_fft_settings_{shape}_longer_first_in_chunk".replace("-", "_"))
        spells = root.get("spell") or [None] * len(root["files"])
        for s, spell in zip(root["files"], spells):
            got = outs.get(s + ".csv")
            if got is None:
                continue
            ref = _ref_bytes(d, s, root["pre"], root["proc"], root.get("dist"), spell)
            ctx.count("files_compared")
            ctx.outcome((s, root["pre"], root["proc"], hashlib.sha256(got).hexdigest()[:12]))
            if spell is not None:
                # the reference must have been given the very string the command line was given
                typed = _spelled(d, s, spell, os.path.join(tempfile.gettempdir(), "c19-x"))
                named = _ref_name(d, s, root["pre"], root["proc"], root.get("dist"), spell)
                if typed != named:
                    ctx.violation("C19:harness:reference-pipeline-was-given-another-name", root,
                                  expected=typed, observed=named,
                                  explanation="harness: the per-file reference was not computed for the name the "
                                              "command line receives")
                    continue
                ctx.count("spelled_name_files_compared")
                ctx.count("spelled_name_files_compared:" + spell)
                if typed.encode() not in ref:
                    ctx.violation("C19:harness:vacuous:typed-name-not-in-reference-csv", root,
                                  expected=typed, observed=ref[:400].decode(errors="replace"),
                                  explanation="harness: the reference CSV does not carry the name as typed")
                if got != ref and _without_name_field(got) == _without_name_field(ref):
                    ctx.violation("C19:cli:csv-file-name-field-differs-from-pipeline-given-the-typed-name",
                                  root, detail=dict(sched, file=s, spelling=spell, typed_name=typed,
                                                    first_difference=_first_diff(ref, got)),
                                  expected=typed,
                                  explanation=f"{s}.csv written by the command line for the input typed as "
                                              f"'{typed}' equals the pipeline's CSV in every number but records "
                                              f"another input name than read/preprocess/process/write given that "
                                              f"same name")
                    continue
            if got != ref:
                cls = _classify(root, chunks, s) + _shape_class(root)
                ctx.violation(f"C19:cli:csv-differs-from-single-file-pipeline:{cls}", root,
                              detail=dict(sched, file=s, first_difference=_first_diff(ref, got)),
                              explanation=f"{s}.csv written by the batch differs from the pipeline run for "
                                          f"that file alone ({cls})")
    ctx.nontrivial_case((tuple(root["files"]), root["nproc"], root.get("cpu"), root["pre"], root["proc"],
                         tuple(root.get("dist") or ()), tuple(root.get("spell") or ())))


# ---------------------------------------------------------------------------
# conformance of the virtual pool with the real one (parent process only)

def _recording_wrapper():
    import hvsrpy.cli as C
    real = C._process_hvsr

    def _process_hvsr(fname, preprocessing_settings, processing_settings, settings):
        tok = getattr(processing_settings, "_hvmc_chunk", None)
        if tok is None:
            tok = uuid.uuid4().hex
            processing_settings._hvmc_chunk = tok
        with open(os.path.join(os.environ["HVMC_C19_LOG"], f"{os.getpid()}-{uuid.uuid4().hex}"), "w") as f:
            json.dump(dict(fname=fname, pid=os.getpid(), chunk=tok), f)
        return real(fname, preprocessing_settings, processing_settings, settings)
    _process_hvsr.__module__ = real.__module__
    _process_hvsr.__qualname__ = real.__qualname__
    return real, _process_hvsr


def _conformance(tier):
    import multiprocessing
    import hvsrpy.cli as C
    d = _DATA
    cases = [dict(files=["A100", "B500", "D050"], nproc=2, pre="pre_plain", proc="trad"),
             dict(files=["B500", "A100"], nproc=1, pre="pre_plain", proc="trad"),
             dict(files=["D050", "B500", "A100"], nproc=3, pre="pre_plain", proc="trad")]
    if tier != "quick":
        cases.append(dict(files=["B500", "A100", "D050", "C100"], nproc=2, pre="pre_filt", proc="azi"))
    del _CONFORMANCE[:]
    for root in cases:
        info = _probe(d, root)
        work = tempfile.mkdtemp(prefix="c19-real-")
        log = tempfile.mkdtemp(prefix="c19-log-")
        cwd = os.getcwd()
        real, wrapper = _recording_wrapper()
        res = dict(root=root)
        try:
            os.chdir(work)
            os.environ["HVMC_C19_LOG"] = log
            C._process_hvsr = wrapper
            devnull = open(os.devnull, "w")
            old = sys.stdout
            sys.stdout = devnull
            try:
                _invoke(_cli_args(d, root["files"], root["nproc"], root["pre"], root["proc"]),
                        multiprocessing.get_context("fork").Pool)
            finally:
                sys.stdout = old
                devnull.close()
                C._process_hvsr = real
            recs = []
            for fn in os.listdir(log):
                with open(os.path.join(log, fn)) as f:
                    recs.append(json.load(f))
            outs = {}
            for fn in os.listdir(work):
                with open(os.path.join(work, fn), "rb") as f:
                    outs[fn] = f.read()
        except Exception as e:      # noqa: BLE001
            res["error"] = f"{type(e).__name__}: {e}"
            _CONFORMANCE.append(res)
            continue
        finally:
            os.chdir(cwd)
            shutil.rmtree(work, ignore_errors=True)
            shutil.rmtree(log, ignore_errors=True)
        # observed chunking and chunk -> pid assignment
        order = {os.path.join(d, s + ".mseed"): i for i, s in enumerate(root["files"])}
        recs.sort(key=lambda r: order[r["fname"]])
        obs_chunks, pids = [], []
        for r in recs:
            if obs_chunks and obs_chunks[-1][0] == r["chunk"]:
                obs_chunks[-1][1].append(os.path.basename(r["fname"]))
            else:
                obs_chunks.append((r["chunk"], [os.path.basename(r["fname"])]))
                pids.append(r["pid"])
        names = {}
        assignment = tuple(names.setdefault(p, len(names)) for p in pids)
        res["observed_chunks"] = [c[1] for c in obs_chunks]
        res["virtual_chunks"] = [[os.path.basename(t[0]) for t in ch] for ch in info["chunks"]]
        res["assignment"] = list(assignment)
        res["in_schedule_space"] = (res["observed_chunks"] == res["virtual_chunks"] and
                                    assignment in set(vpool.restricted_growth_strings(len(info["chunks"]),
                                                                                      info["processes"])))
        if res["in_schedule_space"]:
            vouts, _, err = _run_schedule(d, root, assignment)
            res["virtual_error"] = err
            res["outputs_identical"] = (err is None and vouts == outs)
        _CONFORMANCE.append(res)


NON_VACUITY = ["psd_preprocessing_schedules", "psd_differentiate_longer_recording_first_in_chunk",
               "psd_differentiate_shorter_recording_first_in_chunk",
               "processing_fft_settings_empty_dict_longer_first_in_chunk",
               "processing_fft_settings_null_n_longer_first_in_chunk",
               "preprocessing_fft_settings_empty_dict_longer_first_in_chunk",
               "preprocessing_fft_settings_null_n_longer_first_in_chunk",
               "spelled_name_files_compared"] + ["spelled_name_files_compared:" + sp for sp in SPELLINGS]


def finalize(ctx, tier):
    if ctx.counters.get("roots", 0) >= len(roots(tier, 0)):      # complete run (not a replay)
        for name in NON_VACUITY:
            if not ctx.counters.get(name, 0):
                ctx.violation("C19:harness:vacuous:" + name, dict(part="finalize"), observed=dict(ctx.counters),
                              explanation=f"no executed schedule exercised '{name}'")
        # `differentiate` must be visible in the reference output, or the PSD-style settings add nothing
        d = _DATA or _data_dir()
        try:
            same = _ref_bytes(d, "A100", "pre_psd_diff", "trad") == _ref_bytes(d, "A100", "pre_plain", "trad")
        except OSError as e:
            same = f"{type(e).__name__}: {e}"
        if same is not False:
            ctx.violation("C19:harness:vacuous:psd-differentiate-reference-equals-plain-reference",
                          dict(part="finalize"), observed=same,
                          explanation="the reference CSV with PSD-style differentiating preprocessing settings does "
                                      "not differ from the one with plain settings")
        else:
            ctx.count("psd_reference_differs_from_plain")
        # ... and the FFT length left in a shared preprocessing settings object must be visible in the CSV
        try:
            with open(os.path.join(d, "ref", "control", "A100.csv"), "rb") as f:
                same = f.read() == _ref_bytes(d, "A100", "pre_psd_diff", "trad")
        except OSError as e:
            same = f"{type(e).__name__}: {e}"
        if same is not False:
            ctx.violation("C19:harness:vacuous:psd-differentiate-fft-length-not-visible", dict(part="finalize"),
                          observed=same,
                          explanation="A100 differentiated with the FFT length of B500 gives the same CSV as with "
                                      "its own: an inherited length could not be seen")
        else:
            ctx.count("psd_inherited_fft_length_visible")
        # the settings files must really carry the shapes they are named after (save/load could drop them)
        for name, shape in FFT_SHAPE.items():
            try:
                with open(os.path.join(d, name + ".json")) as f:
                    entry = json.load(f).get("fft_settings", "absent")
            except (OSError, ValueError) as e:
                entry = f"{type(e).__name__}: {e}"
            ok = ((shape == "empty-dict" and entry == {}) or (shape == "null-n" and entry == {"n": None}) or
                  (shape == "int-n" and isinstance(entry, dict) and isinstance(entry.get("n"), int)))
            if not ok:
                ctx.violation("C19:harness:vacuous:settings-file-fft_settings-shape", dict(part="finalize", file=name),
                              expected=shape, observed=entry,
                              explanation="the settings file does not carry the fft_settings entry it stands for")
            else:
                ctx.count("settings_file_fft_settings_shape_confirmed")
        # the typed name must be visible in the CSV: references of two spellings of one file differ, and
        # only in the name field
        try:
            a, b = (_ref_bytes(d, "A100", "pre_plain", "trad"),
                    _ref_bytes(d, "A100", "pre_plain", "trad", None, "dot-rel"))
            same = (a == b) or (_without_name_field(a) != _without_name_field(b))
        except OSError as e:
            same = f"{type(e).__name__}: {e}"
        if same is not False:
            ctx.violation("C19:harness:vacuous:typed-name-not-visible-in-reference", dict(part="finalize"),
                          observed=same,
                          explanation="the reference CSVs for two spellings of one input name are equal, or differ "
                                      "in more than the name field")
        else:
            ctx.count("typed_name_visible_in_reference")
    for res in _CONFORMANCE:
        ctx.count("real_pool_runs")
        if res.get("error"):
            ctx.violation("C19:conformance:real-pool-run-failed", res["root"], observed=res["error"],
                          explanation="running the CLI through the real multiprocessing.Pool raised")
            continue
        if not res["in_schedule_space"]:
            ctx.violation("C19:conformance:real-schedule-not-enumerated", res["root"], detail=res,
                          explanation="the real pool's chunking / chunk->process assignment is not among the "
                                      "schedules the virtual pool enumerates (harness model wrong)")
            continue
        if not res["outputs_identical"]:
            ctx.violation("C19:conformance:real-vs-virtual-output", res["root"], detail=res,
                          explanation="output files of the real pool differ from the virtual pool under the "
                                      "same schedule (harness model wrong)")
            continue
        ctx.count("validated")
        ctx.count("real_pool_runs_matched")
    ctx.notes["conformance"] = [dict(files=r["root"]["files"], nproc=r["root"]["nproc"],
                                     observed_chunks=r.get("observed_chunks"), assignment=r.get("assignment"))
                                for r in _CONFORMANCE]


# ---------------------------------------------------------------------------

def roots(tier, seed):
    out = []
    stems = _stems(tier)
    if tier == "quick":
        nprocs = [(1, None), (2, None), (3, None), (None, 2)]
        maxlen = 3
    else:
        nprocs = [(1, None), (2, None), (3, None), (4, None), (5, None), (None, 2), (None, 16)]
        maxlen = 4
        # (--nproc 5 and cpu_count 16 induce the same chunking as --nproc 4 for <= 4 files; they are
        #  kept for batches of <= 2 files only, where they exercise the option parsing cheaply)
    combos = _combos(tier)
    for L in range(1, maxlen + 1):
        for batch in itertools.permutations(stems, L):
            for (nproc, cpu) in nprocs:
                if tier == "quick":
                    sel = [combos[0]] if (L < 3 and nproc != 1) else combos
                    if L == 2 and nproc == 1:
                        sel = combos
                else:
                    if L > 2 and (nproc == 5 or cpu == 16):
                        continue
                    # every settings combination on the batches that contain the 500 Hz file (the
                    # only ones where an FFT length can leak); plain traditional everywhere.
                    sel = [c for c in combos if c == ("pre_plain", "trad") or "B500" in batch]
                for (pre, proc) in sel:
                    out.append(dict(files=list(batch), nproc=nproc, cpu=cpu, pre=pre, proc=proc))
    # every shape of the fft_settings entry of a settings file (empty dict, {"n": null})
    if tier == "quick":
        for L in range(1, maxlen + 1):
            for batch in itertools.permutations(stems, L):
                for (pre, proc) in SHAPE_COMBOS:
                    out.append(dict(files=list(batch), nproc=1, cpu=None, pre=pre, proc=proc))
    else:
        for (pre, proc) in _shape_combos(tier):
            for L in range(1, maxlen + 1):
                for batch in itertools.permutations(stems, L):
                    for nproc in (1, 2):
                        if "B500" in batch and not (L == 1 and nproc == 2):
                            out.append(dict(files=list(batch), nproc=nproc, cpu=None, pre=pre, proc=proc))
    # spellings of the input names on the command line
    for spell in SPELLINGS:
        for L in (1, 2):
            for batch in itertools.permutations(SP_STEMS, L):
                for nproc in ((1,) if L == 1 else (1, 2)):
                    out.append(dict(files=list(batch), nproc=nproc, cpu=None, pre="pre_plain", proc="trad",
                                    spell=[spell] * L))
    if tier != "quick":     # every ordered pair of spellings (the default one included) in one batch
        for s1 in ["abs"] + SPELLINGS:
            for s2 in ["abs"] + SPELLINGS:
                if s1 != s2:
                    for nproc in (1, 2):
                        out.append(dict(files=list(SP_STEMS), nproc=nproc, cpu=None, pre="pre_plain", proc="trad",
                                        spell=[s1, s2]))
    # two high sampling rates whose time steps are closer than 1e-5 s, sharing one padded FFT length
    for L in (1, 2):
        for batch in itertools.permutations(HI, L):
            for nproc in ((1, 2) if tier == "quick" else (1, 2, 3)):
                out.append(dict(files=list(batch), nproc=nproc, cpu=None, pre="pre_short", proc="trad"))
    # --distribution_mc / --distribution_fn with different values
    for dist in DISTS_MIXED:
        for proc in ("trad", "azi"):
            out.append(dict(files=["A100"], nproc=1, cpu=None, pre="pre_plain", proc=proc, dist=dist))
    return out


def describe(tier):
    return dict(
        rule="root = (ordered batch of distinct input files, --nproc or cpu_count answer, settings files); under "
             "each root every chunk->worker assignment (restricted-growth strings over the chunks produced by "
             "CPython's own chunker, at most min(ntasks, nproc) workers) is executed with real forked workers; "
             "states = schedules, transitions = chunk executions; a root is non-trivial/distinct by "
             "(batch, nproc, cpu, settings)",
        bounds=dict(files="A100,B500,D050 (quick) + C100 (thorough)", batch_length="<=3 quick, <=4 thorough",
                    nproc="1..3,+omitted(cpu=2) quick; 1..5,+omitted(cpu=2,16) thorough",
                    settings="quick: " + ", ".join("+".join(c) for c in _combos("quick")) +
                             "; thorough: every HVSR-style preprocessing x every processing settings file, "
                             "PSD-style preprocessing with differentiate x every processing settings file, "
                             "PSD-style with a nested fft_settings dict x trad, PSD-style without "
                             "differentiate x trad; thorough, on batches containing B500 with --nproc 1,2: " +
                             ", ".join("+".join(c) for c in _shape_combos("thorough")) +
                             "; quick, on every batch with --nproc 1 (one chunk): " +
                             ", ".join("+".join(c) for c in _shape_combos("quick")),
                    fft_settings_entry="every shape a settings file can carry: null, {} (empty dict), "
                                       "{\"n\": null}, {\"n\": 1024}; in the processing settings file and in "
                                       "the PSD-style preprocessing settings file",
                    input_names="absolute normal names everywhere; for files " + ",".join(SP_STEMS) + " with "
                                "pre_plain+trad also the spellings " + ", ".join(SPELLINGS) + " (relative to the "
                                "working directory, leading './', doubled separator, inner '/./', through '..'): "
                                "single files and both ordered pairs with one spelling, --nproc 1,2; thorough adds "
                                "every ordered pair of different spellings in one batch",
                    preprocessing_kinds="both kinds read_settings_object_from_file accepts: 'hvsr' and 'psd' "
                                        "(B500's whole recording, 85001 samples, resolves a 131072-point FFT "
                                        "for the PSD-style differentiation, every other file 32768)"),
        exhaustive=True,
        assumptions=["the result for a file includes the input name `read` records (CSV header field 'file "
                     "name(s)'): the command line's CSV is compared with the pipeline given the name exactly as "
                     "typed; names that cannot be opened (trailing separator) are not enumerated",
                     "interleavings between workers are reduced by the checked independence argument (disjoint "
                     "output files), not enumerated",
                     "fork start method; input files have distinct stems",
                     "miniSEED input written/read by obspy",
                     "PSD-style preprocessing settings without an instrument transfer function (it cannot be "
                     "stored in a settings file, so the command line cannot receive one)"])
