"""C07 - readers put the stored samples on the right components for every format.

E2: for every supported format a file generator (hvmc.ref.formats) and a space
of file configurations x read options, enumerated completely within k
deviations from a default (product.deviations).  Every case writes real files
from known samples, calls the real ``hvsrpy.read_single`` / ``hvsrpy.read`` and
compares ns / ew / vt, the time step and ``degrees_from_north`` with what was
written.  Inside every file configuration ALL 6 orders of the three traces in
the file / of the three files in the list (SAF: all 6 column layouts) are run.
The file names are handed over as str / Path / tuple and, where the readers
take them, as in-memory files (``pathtype = memory``: io.BytesIO for miniSEED,
SAC, GCF, io.StringIO for SAF, MiniShark, PEER, loaded from the files written);
the same stream objects are then read a second time where the reader rewinds
them itself (SAC, SAF, MiniShark, PEER).

Families (one root = one file configuration of one family, or one malformed
variant, or one list of recordings handed to ``read``):

  mseed1     one miniSEED file with three traces
  mseed3     three miniSEED files with one trace each
  sac        three SAC files, little / big / mixed endian
  gcf        one GCF file with three traces
  saf        SESAME ASCII, 6 column layouts, NORTH_ROT
  minishark  MiniShark text, gain and conversion factor
  peer       three PEER text files, numeric azimuth codes and letter codes
  malformed  files that must be refused (count mismatch, missing / duplicated
             component, empty file, unrecognised bytes)
  read       read(fnames, obspy_read_kwargs, degrees_from_north) for all shape
             combinations of {None, one value, per-recording list}; the
             per-recording values also as tuple / ndarray / one-shot iterables
             (generator, iter(list), map); lists that mix the formats (a PEER or
             SAC recording before a miniSEED / GCF one) with the options given
             once as ONE dict; and read_single called for one recording after
             the other with one and the same options dict
             the other; per-recording degrees_from_north lists in which some
             (or all) entries are None (= that file's own orientation), all
             2**m - 1 such lists per list of m recordings
  mixed-rates  one recording whose three traces / files differ in time step
             (miniSEED one / three files, SAC, GCF, PEER), all 6 orders: refusal
             accepted, a returned recording judged per component, the outcome
             must not depend on the order
  observe    inputs the statement does not pin (counted, never judged)
  history    sequences at ONE set of file names inside one process: the files are
             written, read, overwritten (well-formed X / Y / Z that differ in
             samples, length, rate and metadata; malformed contents) and read
             again; ALL sequences of a fixed length over that step alphabet,
             every step judged for what the files hold at that moment (reading
             must not depend on earlier reads of the same path)
  examples   the repository's own example files (not written by us), expected
             values from obspy (binary formats) or a naive str.split parser
             (SAF, PEER); anchors the reference writers to real files
"""
import io
import itertools
import os
import pathlib
import shutil
import tempfile

import numpy as np

from hvsrpy import data_wrangler as DW

from hvmc.engine import product
from hvmc.engine.core import arr_digest
from hvmc.ref import formats as F

PROPERTY = "C07"
MAX_JOBS = 16

COMPS = ("vt", "ns", "ew")
LETTER = {"vt": "Z", "ns": "N", "ew": "E"}
ORDERS = [tuple(p) for p in itertools.permutations(COMPS)]      # all 6
F32_RTOL = 2.0 ** -22       # "to single precision": three float32 roundings at most
T0 = (2020, 1, 1)           # start time the obspy writers stamp on every trace


# ---------------------------------------------------------------------------
# spaces (first value = default).  ``file`` dimensions define the bytes on
# disk, ``read`` dimensions the arguments of the call.

DFN = [None, 0, 33, 400, -45]
N_SAMPLES = [17, 2, 1, 1000]

SPACES = {
    "mseed1": dict(
        file=dict(payload=["int32-steim2", "int32-steim1", "int32-extreme", "float32", "float64",
                           "float64-wide"],
                  n=N_SAMPLES, rate=[100, 50, 250, 512],
                  naming=["BH", "HH", "EH", "", "HN"], byteorder=["default", "little"]),
        read=dict(dfn=DFN, kwargs=["none", "empty", "format"], pathtype=["str", "path", "memory"])),
    "mseed3": dict(
        file=dict(payload=["int32-steim2", "int32-steim1", "int32-extreme", "float32", "float64",
                           "float64-wide"],
                  n=N_SAMPLES, rate=[100, 50, 250, 512],
                  naming=["BH", "HH", "EH", "", "HN"], byteorder=["default", "little"]),
        read=dict(dfn=DFN, kwargs=["none", "empty", "format"], pathtype=["str", "path", "tuple", "memory"])),
    "sac": dict(
        file=dict(payload=["ramp", "inexact", "wide"], n=N_SAMPLES, rate=[100, 50, 250, 512],
                  naming=["BH", "HH", "EH", "", "HN"], endian=["little", "big", "mixed"]),
        read=dict(dfn=DFN, kwargs=["none", "empty", "format"], pathtype=["str", "path", "tuple", "memory"])),
    "gcf": dict(
        file=dict(payload=["ramp", "extreme", "smallstep"], n=N_SAMPLES, rate=[100, 50, 250, 500],
                  naming=["BH", ""]),
        read=dict(dfn=DFN, kwargs=["none", "empty", "format"], pathtype=["str", "path", "memory"])),
    "saf": dict(
        file=dict(payload=["ramp", "extreme", "inexact"], n=N_SAMPLES, rate=[100, 50, 250, 512, 62.5],
                  north_rot=[0, 15, 90, 350, None, 15.5], newline=["\n", "\r\n"], padded=[True, False]),
        read=dict(dfn=DFN, kwargs=["none", "empty"], pathtype=["str", "path", "memory"])),
    "minishark": dict(
        file=dict(payload=["ramp", "extreme", "inexact"], n=N_SAMPLES, rate=[250, 50, 100, 512],
                  gain=[1, 2, 64], conversion=[1, 2, 64], newline=["\n", "\r\n"]),
        read=dict(dfn=DFN, kwargs=["none", "empty"], pathtype=["str", "path", "memory"])),
    "peer": dict(
        file=dict(payload=["ramp", "mixed", "zeros"], style=["fortran", "c", "int2", "int4"], n=N_SAMPLES,
                  dt=[".0200", ".0050", "0.0100"],
                  codes=["UP,360,90", "UP,0,90", "VER,360,90", "UP,000,090", "UP,90,360",
                         "UP,20,110", "UP,90,180", "UP,315,45", "UP,45,315", "VER,315,45",
                         "HNZ,HNN,HNE", "BHZ,BHN,BHE", "EHZ,EHN,EHE", "HLZ,HLN,HLE"],
                  newline=["\n", "\r\n"]),
        read=dict(dfn=DFN, kwargs=["none", "empty"], pathtype=["str", "path", "tuple", "memory"])),
}

# number of deviations from the default case that are enumerated completely
K = {
    "quick": dict(mseed1=2, mseed3=2, sac=2, gcf=2, saf=2, minishark=2, peer=2),
    "thorough": dict(mseed1=3, mseed3=3, sac=3, gcf=None, saf=4, minishark=None, peer=3),   # None = full product
}

MALFORMED = {
    "saf": ["ndat+1", "ndat-1", "ndat+1000", "ndat-zero", "missing-component", "duplicated-component",
            "row-missing-column", "empty-file", "random-bytes", "text-garbage", "no-version-line",
            "no-ndat"],
    "minishark": ["ndat+1", "ndat-1", "ndat+1000", "row-missing-column", "empty-file", "random-bytes",
                  "text-garbage", "no-gain"],
    "peer": ["ndat+1", "ndat-1", "missing-horizontal", "missing-vertical", "duplicated-horizontal",
             "duplicated-horizontal-mod360", "duplicated-vertical", "duplicated-letter-horizontal", "empty-file", "random-bytes",
             "single-file"],
    "mseed1": ["two-traces", "four-traces", "duplicated-component", "all-same-component",
               "empty-file", "random-bytes", "text-garbage"],
    "mseed3": ["two-files", "four-files", "duplicated-component", "empty-file", "random-bytes",
               "one-file-three-traces"],
    "sac": ["two-files", "duplicated-component", "empty-file", "random-bytes", "single-file"],
    "gcf": ["two-traces", "four-traces", "duplicated-component", "empty-file", "random-bytes"],
}

# not judged, only counted: a file with surplus traces inside a three-file list
# is neither a missing nor a duplicated component in the sense of the statement
# (today the miniSEED branch refuses it, the SAC branch - reached with
# obspy_read_kwargs={} - silently takes the file's first trace).
OBSERVE_ONLY = {("mseed3", "one-file-three-traces")}

READ_POOL = {"quick": ["mseed1", "sac3", "saf", "gcf1"],
             "thorough": ["mseed1", "sac3", "saf", "gcf1", "peer3", "mseed3"]}
KW_SHAPES = ["none", "empty", "headonly", "trim", "list-format", "list-trim"]
DFN_SHAPES = ["none", "scalar", "list"]
DFN_LIST = [10, 20, 400, -45]
# containers of the per-recording values (first = default); the last three are one-shot iterables
KW_CONTAINERS = ["list", "tuple", "generator", "iter", "map"]
DFN_CONTAINERS = ["list", "tuple", "ndarray", "generator", "iter", "map"]
# lists that mix the formats, with a PEER / SAC recording in front of a miniSEED / GCF one
# (the quick pool holds no PEER recording); the thorough pool yields all lists up to length
# three by itself, the two of length four are added
READ_MIXED = {
    "quick": [["peer3", "mseed1"], ["mseed1", "peer3"], ["peer3", "gcf1"], ["gcf1", "peer3"], ["peer3", "mseed3"],
              ["peer3", "sac3"], ["sac3", "peer3"], ["peer3", "saf"], ["peer3", "peer3"], ["sac3", "mseed3"],
              ["mseed3", "sac3"],
              ["peer3", "mseed1", "gcf1"], ["mseed1", "peer3", "gcf1"], ["peer3", "sac3", "mseed1"],
              ["sac3", "peer3", "mseed3"], ["peer3", "mseed1", "peer3"]],
    "thorough": [["peer3", "sac3", "mseed1", "gcf1"], ["sac3", "peer3", "gcf1", "mseed3"]],
}
DFN_SCALAR = 33


# ---------------------------------------------------------------------------
# expected recordings

def _f64(x):
    return np.asarray(x, dtype=np.float64)


def _mod360(x):
    return float(x) % 360.0


class Expected:
    """What a correct reader must return.

    alts      list of alternatives dict(ns, ew, vt, dfn_file); dfn_file is the
              list of orientations acceptable when no explicit one is given
    mode      'exact' or 'f32'
    dt        expected time step, compared with relative tolerance dt_rtol
    may_refuse  raising is acceptable when degrees_from_north is not given
    """
    def __init__(self, alts, mode, dt, dt_rtol=1e-12, tie=False, may_refuse=False):
        self.alts, self.mode, self.dt, self.dt_rtol = alts, mode, dt, dt_rtol
        self.tie, self.may_refuse = tie, may_refuse


def _same(got, want, mode):
    got, want = np.asarray(got), np.asarray(want)
    if got.shape != want.shape or got.dtype != np.float64:
        return False
    if mode == "exact":
        return bool(np.array_equal(got, want))
    return bool(np.allclose(got, want, rtol=F32_RTOL, atol=0.0))


def _obs(rec):
    return dict(ns=np.array(rec.ns.amplitude), ew=np.array(rec.ew.amplitude),
                vt=np.array(rec.vt.amplitude),
                dt=(rec.ns.dt_in_seconds, rec.ew.dt_in_seconds, rec.vt.dt_in_seconds),
                dfn=rec.degrees_from_north)


def _obs_digest(o):
    return (arr_digest(o["ns"], o["ew"], o["vt"]), tuple(float(d) for d in o["dt"]), float(o["dfn"]))


def _head(a, m=4):
    return [float(v) for v in np.asarray(a).ravel()[:m]]


def _short(o):
    return dict(ns=_head(o["ns"]), ew=_head(o["ew"]), vt=_head(o["vt"]), n=[len(o["ns"]), len(o["ew"]), len(o["vt"])],
                dt=list(o["dt"]), degrees_from_north=o["dfn"])


def _short_exp(exp, dfn_arg):
    out = []
    for a in exp.alts:
        out.append(dict(ns=_head(a["ns"]), ew=_head(a["ew"]), vt=_head(a["vt"]), n=len(a["ns"]), dt=exp.dt,
                        degrees_from_north=(a["dfn_file"] if dfn_arg is None else _mod360(dfn_arg)),
                        precision=exp.mode))
    return out


def _call_single(fnames, kwargs, dfn):
    try:
        rec = DW.read_single(fnames, obspy_read_kwargs=kwargs, degrees_from_north=dfn)
    except Exception as e:          # noqa: BLE001 - the outcome is what is judged
        return ("raised", type(e).__name__, str(e)[:300])
    return rec


def judge_single(ctx, root, fam, detail, exp, res, dfn_arg, cls="well-formed", cls_dfn=None, refusal_ok=None):
    """Compare one read_single outcome with the expectation; report; return digest.

    ``cls`` names the input class in the violation keys.  ``refusal_ok``: name
    of a counter; raising is then accepted and counted there (a way of handing
    the input over that the statement does not pin), a recording that IS
    returned is judged as usual."""
    ctx.count("validated")
    if isinstance(res, tuple) and res and res[0] == "raised":
        ctx.outcome(("raised", fam, res[1]))
        if exp.may_refuse and dfn_arg is None:
            ctx.count("refused_nonstandard_layout")
            return None
        if refusal_ok:
            ctx.count(refusal_ok)
            return None
        ctx.violation(f"C07:read_single:{fam}:{cls}:raised", root, detail=detail,
                      expected=_short_exp(exp, dfn_arg), observed=list(res),
                      explanation=f"read_single raised {res[1]} on a well-formed {fam} input")
        return None
    o = _obs(res)
    dig = _obs_digest(o)
    ctx.outcome((fam,) + dig)
    a0 = exp.alts[0]
    if not _same(a0["ns"], a0["ew"], "exact"):
        ctx.count("swap_visible")
    # --- samples -----------------------------------------------------------
    hits = [a for a in exp.alts if all(_same(o[c], a[c], exp.mode) for c in ("ns", "ew", "vt"))]
    if not hits:
        a = exp.alts[0]
        src = {}
        for c in ("ns", "ew", "vt"):
            src[c] = [w for w in ("ns", "ew", "vt") if _same(o[c], a[w], exp.mode)]
        if exp.tie and _same(o["ns"], o["ew"], "exact") and src["ns"] and src["vt"] == ["vt"]:
            ctx.violation(f"C07:read_single:{fam}:codes-equidistant-from-north:same-file-on-ns-and-ew", root,
                          detail=detail, expected=_short_exp(exp, dfn_arg), observed=_short(o),
                          explanation="the two horizontal azimuth codes are equally far from north; "
                                      "ns and ew both hold the samples of the SAME file, the other "
                                      "horizontal file is dropped")
        else:
            ctx.violation(f"C07:read_single:{fam}:{cls}:samples", root, detail=detail,
                          expected=_short_exp(exp, dfn_arg), observed=_short(o),
                          explanation="returned components do not hold the samples written for them; "
                                      f"returned component -> written component it equals: {src}")
        return dig
    # --- time step -----------------------------------------------------------
    if not all(abs(d - exp.dt) <= exp.dt_rtol * exp.dt for d in o["dt"]):
        ctx.violation(f"C07:read_single:{fam}:{cls}:dt", root, detail=detail,
                      expected=exp.dt, observed=list(o["dt"]),
                      explanation="dt_in_seconds is not the file's time step")
    # --- orientation -----------------------------------------------------------
    want = [_mod360(dfn_arg)] if dfn_arg is not None else [_mod360(v) for a in hits for v in a["dfn_file"]]
    if not any(abs(o["dfn"] - w) <= 1e-9 for w in want):
        src = "explicit" if dfn_arg is not None else "from-file"
        ctx.violation(f"C07:read_single:{fam}:{cls_dfn or cls}:degrees_from_north-{src}", root, detail=detail,
                      expected=want, observed=o["dfn"],
                      explanation="degrees_from_north is neither the explicit argument modulo 360 nor "
                                  "the orientation stored in the file (0 when there is none)")
    return dig


# ---------------------------------------------------------------------------
# file builders.  Each returns a list of variants
#   dict(label=<order>, fnames=<str or list of str>, exp=Expected)

def _chan(naming, comp):
    return naming + LETTER[comp]


MSEED_PAYLOADS = {
    "int32-steim2": ("int", "ramp", np.int32, "STEIM2"),
    "int32-steim1": ("int", "smallstep", np.int32, "STEIM1"),
    "int32-extreme": ("int", "extreme", np.int32, "INT32"),
    "float32": ("float", "inexact", np.float32, "FLOAT32"),
    "float64": ("float", "inexact", np.float64, "FLOAT64"),
    "float64-wide": ("float", "wide", np.float64, "FLOAT64"),
}


def _binary_samples(kind, name, dtype, n):
    if kind == "int":
        s = F.int_samples(name, n)
        return {c: np.array(s[c], dtype=dtype) for c in COMPS}
    return F.float_samples(name, n, dtype)


def _exact_expected(data, rate, dt_rtol=1e-12):
    alt = dict(ns=_f64(data["ns"]), ew=_f64(data["ew"]), vt=_f64(data["vt"]), dfn_file=[0.0])
    return Expected([alt], "exact", 1.0 / rate, dt_rtol)


def build_mseed1(wd, cfg):
    kind, name, dtype, enc = MSEED_PAYLOADS[cfg["payload"]]
    data = _binary_samples(kind, name, dtype, cfg["n"])
    bo = None if cfg["byteorder"] == "default" else 0
    out = []
    for oi, order in enumerate(ORDERS):
        p = os.path.join(wd, f"rec_{oi}.mseed")
        F.write_mseed(p, [(_chan(cfg["naming"], c), data[c]) for c in order], cfg["rate"],
                      encoding=enc, byteorder=bo)
        out.append(dict(label="-".join(order), fnames=p, exp=_exact_expected(data, cfg["rate"])))
    return out


def build_mseed3(wd, cfg):
    kind, name, dtype, enc = MSEED_PAYLOADS[cfg["payload"]]
    data = _binary_samples(kind, name, dtype, cfg["n"])
    bo = None if cfg["byteorder"] == "default" else 0
    paths = {}
    for c in COMPS:
        paths[c] = os.path.join(wd, f"rec_{c}.mseed")
        F.write_mseed(paths[c], [(_chan(cfg["naming"], c), data[c])], cfg["rate"], encoding=enc, byteorder=bo)
    exp = _exact_expected(data, cfg["rate"])
    return [dict(label="-".join(order), fnames=[paths[c] for c in order], exp=exp) for order in ORDERS]


def build_sac(wd, cfg):
    data = F.float_samples(cfg["payload"], cfg["n"], np.float32)
    paths = {}
    for c in COMPS:
        endian = cfg["endian"]
        if endian == "mixed":
            endian = "big" if c == "vt" else "little"
        paths[c] = os.path.join(wd, f"rec_{c}.sac")
        F.write_sac(paths[c], _chan(cfg["naming"], c), data[c], cfg["rate"], endian)
    # the SAC header stores the time step in single precision and obspy rounds
    # it to microseconds: the file's time step is 1/rate to ~1e-4 relative only.
    exp = _exact_expected(data, cfg["rate"], dt_rtol=1e-4)
    return [dict(label="-".join(order), fnames=[paths[c] for c in order], exp=exp) for order in ORDERS]


def build_gcf(wd, cfg):
    s = F.int_samples(cfg["payload"], cfg["n"])
    data = {c: np.array(s[c], dtype=np.int32) for c in COMPS}
    out = []
    for oi, order in enumerate(ORDERS):
        p = os.path.join(wd, f"rec_{oi}.gcf")
        F.write_gcf(p, [(_chan(cfg["naming"], c), data[c]) for c in order], cfg["rate"])
        out.append(dict(label="-".join(order), fnames=p, exp=_exact_expected(data, cfg["rate"])))
    return out


SAF_LAYOUTS = ["".join(p) for p in itertools.permutations("VNE")]      # 'VNE' first
LETTER_TO_COMP = {"V": "vt", "N": "ns", "E": "ew"}


def _saf_dfn_file(layout, north_rot):
    """Orientations acceptable when degrees_from_north is not given.

    NORTH_ROT is the azimuth of channel 1.  CH1 = N: that is the answer.
    CH1 = E: the statement does not pin whether north is 90 degrees before or
    after that axis (hvsrpy documents +90) - both are accepted.  CH1 = V is
    not a standard SAF layout: refusal or any of the three is accepted.
    """
    if north_rot is None:
        return [0.0], False
    if layout[1] == "N":
        return [north_rot], False
    if layout[1] == "E":
        return [north_rot + 90.0, north_rot - 90.0], False
    return [north_rot, north_rot + 90.0, north_rot - 90.0], True


def build_saf(wd, cfg, **wkw):
    """``wkw``: overrides handed to the writer (history family: malformed content at the same paths)."""
    s = F.int_samples(cfg["payload"], cfg["n"])
    out = []
    for li, layout in enumerate(SAF_LAYOUTS):
        p = os.path.join(wd, f"rec_{li}.saf")
        cols = [s[LETTER_TO_COMP[ch]] for ch in layout]
        F.write_saf(p, cols, layout, cfg["rate"], north_rot=cfg["north_rot"], newline=cfg["newline"],
                    padded=cfg["padded"], **wkw)
        dfn_file, may_refuse = _saf_dfn_file(layout, cfg["north_rot"])
        alt = dict(ns=_f64(s["ns"]), ew=_f64(s["ew"]), vt=_f64(s["vt"]), dfn_file=dfn_file)
        out.append(dict(label=layout, fnames=p,
                        exp=Expected([alt], "f32", 1.0 / cfg["rate"], may_refuse=may_refuse)))
    return out


def build_minishark(wd, cfg, **wkw):
    s = F.int_samples(cfg["payload"], cfg["n"])
    p = os.path.join(wd, "rec.minishark")
    F.write_minishark(p, s["vt"], s["ns"], s["ew"], cfg["rate"], cfg["gain"], cfg["conversion"],
                      newline=cfg["newline"], **wkw)
    scale = float(cfg["gain"] * cfg["conversion"])
    alt = {c: _f64([v / scale for v in s[c]]) for c in COMPS}
    alt["dfn_file"] = [0.0]
    return [dict(label="vt-ns-ew", fnames=p, exp=Expected([alt], "f32", 1.0 / cfg["rate"]))]


def _north_distance(code):
    a = int(code) % 360
    return min(a, 360 - a)


def peer_expected(codes, vals, dt):
    """codes = (vertical, h1, h2); file h1 holds vals['ns'], file h2 holds vals['ew']."""
    vcode, h1, h2 = codes
    a = dict(ns=vals["ns"], ew=vals["ew"], vt=vals["vt"])       # h1 is north
    b = dict(ns=vals["ew"], ew=vals["ns"], vt=vals["vt"])       # h2 is north
    if h1.isdigit():
        a["dfn_file"], b["dfn_file"] = [float(int(h1) % 360)], [float(int(h2) % 360)]
        d1, d2 = _north_distance(h1), _north_distance(h2)
        if d1 < d2:
            return Expected([a], "exact", dt)
        if d2 < d1:
            return Expected([b], "exact", dt)
        return Expected([a, b], "exact", dt, tie=True)
    a["dfn_file"] = [0.0]
    assert h1[-1] == "N" and h2[-1] == "E"
    return Expected([a], "exact", dt)


def build_peer(wd, cfg, npts=None):
    """``npts``: {component: NPTS value written in that file's header} (default: the true count)."""
    toks = F.peer_tokens(cfg["payload"], cfg["n"], cfg["style"])
    vals = {c: _f64([float(t) for t in toks[c]]) for c in COMPS}
    codes = tuple(cfg["codes"].split(","))
    paths = {}
    for c, code in zip(COMPS, codes):
        paths[c] = os.path.join(wd, f"rec_{c}.vt2")
        F.write_peer(paths[c], toks[c], code, cfg["dt"], npts=(npts or {}).get(c), newline=cfg["newline"])
    exp = peer_expected(codes, vals, float(cfg["dt"]))
    return [dict(label="-".join(order), fnames=[paths[c] for c in order], exp=exp) for order in ORDERS]


BUILDERS = dict(mseed1=build_mseed1, mseed3=build_mseed3, sac=build_sac, gcf=build_gcf, saf=build_saf,
                minishark=build_minishark, peer=build_peer)
FORMAT_KW = dict(mseed1="MSEED", mseed3="MSEED", sac="SAC", gcf="GCF")


def _kwargs(fam, name):
    """A FRESH dict per call (the SAC reader writes into the dict it is given)."""
    if name == "none":
        return None
    if name == "empty":
        return {}
    if name == "format":
        return {"format": FORMAT_KW[fam]}
    raise KeyError(name)


def _stream(path, fam):
    """The file's content as the in-memory object the readers of ``fam`` take:
    io.StringIO (text as ``open(path).read()`` gives it) for SAF / MiniShark /
    PEER, io.BytesIO for miniSEED / SAC / GCF; positioned at the start."""
    if fam in TEXT_FAMS:
        with open(path, "r") as f:
            return io.StringIO(f.read())
    with open(path, "rb") as f:
        return io.BytesIO(f.read())


# readers that rewind an in-memory file themselves before every attempt: the
# same stream objects can be read again.  The miniSEED and GCF readers leave
# the stream where obspy stopped (a second read of the same object is refused
# today) - that second read is only counted.
REWINDING = ("sac", "saf", "minishark", "peer")


def _paths(fnames, pathtype, fam=None):
    if pathtype == "memory":
        if isinstance(fnames, (list, tuple)):
            return [_stream(f, fam) for f in fnames]
        return _stream(fnames, fam)
    conv = pathlib.Path if pathtype == "path" else str
    if isinstance(fnames, (list, tuple)):
        seq = [conv(f) for f in fnames]
        return tuple(seq) if pathtype == "tuple" else seq
    return conv(fnames)


# ---------------------------------------------------------------------------
# well-formed families

def _input_class(fam, cfg):
    """Input class named in the violation keys.  Real-valued SAF header entries
    (the SESAME standard defines SAMP_FREQ and NORTH_ROT as real numbers) are
    kept apart from the integer-valued ones of the example file."""
    if fam == "saf":
        tags = []
        if float(cfg["rate"]) != int(cfg["rate"]):
            tags.append("fractional-SAMP_FREQ")
        if cfg["north_rot"] is not None and float(cfg["north_rot"]) != int(cfg["north_rot"]):
            tags.append("fractional-NORTH_ROT")
        if tags:
            # (class for raised/samples/dt, class for the orientation)
            return tags[0], tags[-1]
    return "well-formed", "well-formed"


def run_family(root, ctx, tier):
    fam = root["family"]
    cfg = root["file"]
    wd = tempfile.mkdtemp(prefix="hvmc-c07-")
    try:
        variants = BUILDERS[fam](wd, cfg)
        for rd in root["reads"]:
            digests = {}
            for var in variants:
                detail = dict(family=fam, file=cfg, order=var["label"], read=rd,
                              files=[os.path.basename(str(f)) for f in
                                     (var["fnames"] if isinstance(var["fnames"], list) else [var["fnames"]])],
                              how="hvmc.checks.c07.BUILDERS[family](tmpdir, file) writes the files; "
                                  "read_single(files in this order, kwargs, degrees_from_north)")
                ctx.count("states")
                ctx.nontrivial_case((fam, cfg, var["label"], rd))
                ctx.count("transitions")
                mem = rd["pathtype"] == "memory"
                arg = _paths(var["fnames"], rd["pathtype"], fam)
                res = _call_single(arg, _kwargs(fam, rd["kwargs"]), rd["dfn"])
                cls, cls_dfn = _input_class(fam, cfg)
                refusal_ok = None
                if mem:
                    detail["how"] += ("; pathtype 'memory': every file is loaded into an io.StringIO (SAF, MiniShark, "
                                      "PEER; text as open(path).read() returns it) / io.BytesIO (miniSEED, SAC, GCF) "
                                      "and the stream objects are handed over in place of the names")
                    cls = "in-memory" if cls == "well-formed" else cls + "-in-memory"
                    cls_dfn = "in-memory" if cls_dfn == "well-formed" else cls_dfn + "-in-memory"
                    ctx.count("in_memory_reads")
                    if fam == "gcf" and rd["kwargs"] == "none":
                        # read_single tries the miniSEED reader first, which leaves the stream in the
                        # middle; the GCF reader does not rewind: refused today.  Not pinned by the
                        # statement: counted, a recording that is returned is judged.
                        refusal_ok = "observed_in_memory_gcf_default_options_refused"
                dig = judge_single(ctx, root, fam, detail, var["exp"], res, rd["dfn"], cls=cls, cls_dfn=cls_dfn,
                                   refusal_ok=refusal_ok)
                if dig is not None:
                    digests[var["label"]] = dig
                if mem:
                    # the SAME stream objects once more: the second read must give the same recording
                    ctx.count("states")
                    ctx.nontrivial_case((fam, cfg, var["label"], rd, "second-read"))
                    ctx.count("transitions")
                    res2 = _call_single(arg, _kwargs(fam, rd["kwargs"]), rd["dfn"])
                    detail2 = dict(detail, how=detail["how"] + "; the same stream objects are read a SECOND time, "
                                                               "the outcome of the second read is judged here")
                    if fam in REWINDING:
                        ctx.count("in_memory_second_reads")
                        refusal2 = None
                    else:
                        refusal2 = refusal_ok or "observed_in_memory_second_read_of_unrewound_stream_refused"
                    judge_single(ctx, root, fam, detail2, var["exp"], res2, rd["dfn"],
                                 cls=cls + "-second-read", cls_dfn=cls_dfn + "-second-read", refusal_ok=refusal2)
                if len(ctx.samples) < 2 and var is variants[-1]:
                    ctx.sample(dict(detail, expected=_short_exp(var["exp"], rd["dfn"]),
                                    observed=list(res) if isinstance(res, tuple) else _short(_obs(res))))
            # independence of the order, stated on its own (bit for bit)
            exp0 = variants[0]["exp"]
            if len(set(digests.values())) > 1 and not exp0.tie:
                by = {}
                for lab, dg in digests.items():
                    by.setdefault(dg, []).append(lab)
                if fam == "saf" and rd["dfn"] is None:
                    # the orientation legitimately depends on which channel is CH1
                    if len({dg[:2] for dg in digests.values()}) == 1:
                        continue
                ctx.violation(f"C07:read_single:{fam}:well-formed:order-dependent", root,
                              detail=dict(family=fam, file=cfg, read=rd),
                              observed=[v for v in by.values()],
                              explanation="the recording depends on the order of the traces / files "
                                          "(groups of orders with identical results listed)")
    finally:
        shutil.rmtree(wd, ignore_errors=True)


# ---------------------------------------------------------------------------
# malformed inputs: every one must raise

def _std(n=17):
    s = F.int_samples("ramp", n)
    return s, {c: np.array(s[c], dtype=np.int32) for c in COMPS}


def _garbage_text(path):
    with open(path, "w") as f:
        f.write("this is not a seismic recording\n1 2\nthree, four\n")


def build_malformed(wd, fmt, variant):
    """Return list of (label, fnames)."""
    n = 17
    s, d32 = _std(n)
    j = lambda name: os.path.join(wd, name)       # noqa: E731
    ndat = {"ndat+1": n + 1, "ndat-1": n - 1, "ndat+1000": n + 1000, "ndat-zero": 0}
    out = []
    if variant == "empty-file" or variant == "random-bytes" or variant == "text-garbage":
        bad = j("bad.bin")
        if variant == "empty-file":
            open(bad, "wb").close()
        elif variant == "random-bytes":
            with open(bad, "wb") as f:
                f.write(F.lcg_bytes(4096))
        else:
            _garbage_text(bad)
        if fmt in ("saf", "minishark", "mseed1", "gcf"):
            return [("alone", bad)]
        good = _good_triplet(wd, fmt, s, d32)
        for pos in range(3):
            lst = list(good)
            lst[pos] = bad
            out.append((f"position-{pos}", lst))
        out.append(("all-three", [bad, bad, bad]))
        return out

    if fmt == "saf":
        cols = [s["vt"], s["ns"], s["ew"]]
        p = j("bad.saf")
        if variant in ndat:
            F.write_saf(p, cols, "VNE", 100, ndat=ndat[variant])
        elif variant == "missing-component":
            F.write_saf(p, cols, "VNE", 100, drop_lines=("CH2_ID",))
        elif variant == "duplicated-component":
            F.write_saf(p, cols, "VNN", 100)
        elif variant == "row-missing-column":
            F.write_saf(p, cols, "VNE", 100, ndat=n + 1, extra_rows=("5 6",))
        elif variant == "no-version-line":
            F.write_saf(p, cols, "VNE", 100, drop_lines=("SESAME ASCII",))
        elif variant == "no-ndat":
            F.write_saf(p, cols, "VNE", 100, drop_lines=("NDAT",))
        return [("alone", p)]
    if fmt == "minishark":
        p = j("bad.minishark")
        if variant in ndat:
            F.write_minishark(p, s["vt"], s["ns"], s["ew"], 250, 2, 1, nsamples=ndat[variant])
        elif variant == "row-missing-column":
            F.write_minishark(p, s["vt"], s["ns"], s["ew"], 250, 2, 1, nsamples=n + 1, extra_rows=("5\t6",))
        elif variant == "no-gain":
            F.write_minishark(p, s["vt"], s["ns"], s["ew"], 250, 2, 1)
            with open(p) as f:
                text = f.read()
            with open(p, "w") as f:
                f.write("".join(ln for ln in text.splitlines(True) if not ln.startswith("#Gain")))
        return [("alone", p)]
    if fmt == "peer":
        toks = F.peer_tokens("ramp", n)
        extra = F.peer_tokens("mixed", n)

        def wr(name, comp, code, npts=None, tk=None):
            p = j(name)
            F.write_peer(p, (tk or toks)[comp], code, ".0200", npts=npts)
            return p
        up, h0, h90 = wr("up.vt2", "vt", "UP"), wr("h360.vt2", "ns", "360"), wr("h90.vt2", "ew", "90")
        if variant in ("ndat+1", "ndat-1"):
            for pos, (comp, code) in enumerate((("vt", "UP"), ("ns", "360"), ("ew", "90"))):
                bad = wr(f"bad{pos}.vt2", comp, code, npts=ndat[variant])
                lst = [up, h0, h90]
                lst[pos] = bad
                out.append((f"position-{pos}", lst))
            return out
        if variant == "missing-horizontal":
            return [("UP,90", [up, h90]), ("90,UP", [h90, up]), ("UP,360", [up, h0])]
        if variant == "missing-vertical":
            return [("360,90", [h0, h90]), ("90,360", [h90, h0])]
        if variant == "duplicated-horizontal":
            h90b = wr("h90b.vt2", "ns", "90", tk=extra)
            h0b = wr("h360b.vt2", "ew", "360", tk=extra)
            return [("-".join(k), [dict(UP=up, a=h90, b=h90b)[x] for x in k])
                    for k in (("UP", "a", "b"), ("a", "UP", "b"), ("b", "a", "UP"))] + \
                   [("UP,360,360", [up, h0, h0b]), ("same-file-twice", [up, h90, h90])]
        if variant == "duplicated-horizontal-mod360":
            # two horizontals whose numeric codes differ as text / integers but name the same direction:
            # every pair of spellings of north in {0, 00, 000, 360} that are different integers, both ways
            # round, x three positions of the vertical; the two files hold different samples
            for ca, cb in (("360", "0"), ("0", "360"), ("360", "000"), ("000", "360"), ("360", "00")):
                ha = wr(f"m{ca}_a.vt2", "ns", ca)
                hb = wr(f"m{cb}_b.vt2", "ew", cb, tk=extra)
                for k in (("UP", "a", "b"), ("a", "UP", "b"), ("a", "b", "UP")):
                    out.append((f"{ca},{cb}:" + "-".join(k), [dict(UP=up, a=ha, b=hb)[x] for x in k]))
            return out
        if variant == "duplicated-vertical":
            upb = wr("upb.vt2", "vt", "UP", tk=extra)
            return [("UP,UP,90", [up, upb, h90]), ("90,UP,UP", [h90, up, upb]), ("UP,90,UP", [up, h90, upb])]
        if variant == "duplicated-letter-horizontal":
            z, nn, e = wr("z.vt2", "vt", "HNZ"), wr("n.vt2", "ns", "HNN"), wr("e.vt2", "ew", "HNE")
            nb = wr("nb.vt2", "ns", "HNN", tk=extra)
            eb = wr("eb.vt2", "ew", "HNE", tk=extra)
            return [("Z,N,N", [z, nn, nb]), ("N,Z,N", [nn, z, nb]), ("Z,E,E", [z, e, eb]), ("E,E,Z", [e, eb, z])]
        if variant == "single-file":
            return [("UP", up), ("90", h90)]
    if fmt == "mseed1":
        for oi, order in enumerate(_dup_orders(variant)):
            q = j(f"bad_{oi}.mseed")
            F.write_mseed(q, [(_chan("BH", c[:2]), d32[c[:2]] + 5 * len(c[2:])) for c in order], 100)
            out.append(("-".join(order), q))
        return out
    if fmt == "gcf":
        for oi, order in enumerate(_dup_orders(variant)):
            q = j(f"bad_{oi}.gcf")
            F.write_gcf(q, [(_chan("BH", c[:2]), d32[c[:2]] + 5 * len(c[2:])) for c in order], 100)
            out.append(("-".join(order), q))
        return out
    if fmt in ("mseed3", "sac"):
        good = dict(zip(COMPS, _good_triplet(wd, fmt, s, d32)))
        if variant == "two-files":
            return [("-".join(o), [good[c] for c in o]) for o in itertools.permutations(COMPS, 2)]
        if variant == "four-files":
            return [("vt,ns,ew,vt", [good["vt"], good["ns"], good["ew"], good["vt"]]),
                    ("ew,ew,ns,vt", [good["ew"], good["ew"], good["ns"], good["vt"]])]
        if variant == "duplicated-component":
            return [("-".join(o), [good[c] for c in o])
                    for o in sorted(set(itertools.permutations(["ew", "ns", "ns"])) |
                                    set(itertools.permutations(["vt", "vt", "ew"])))]
        if variant == "single-file":
            return [(c, good[c]) for c in COMPS]
        if variant == "one-file-three-traces":
            q = j("three.mseed")
            F.write_mseed(q, [(_chan("BH", c), d32[c]) for c in COMPS], 100)
            return [("three,ns,ew", [q, good["ns"], good["ew"]]), ("vt,ns,three", [good["vt"], good["ns"], q]),
                    ("three,three,three", [q, q, q])]
    raise KeyError((fmt, variant))


def _dup_orders(variant):
    """Trace lists of the malformed multi-trace files; a name with a trailing
    '+' is a second trace of that component holding DIFFERENT samples (+5), so
    that no reader can take the two for one trace written twice."""
    tr = {"two-traces": ["ns", "vt"], "four-traces": ["ew", "ns", "vt", "vt+"],
          "duplicated-component": ["ew", "ns", "ns+"], "all-same-component": ["vt", "vt+", "vt++"]}[variant]
    return sorted(set(itertools.permutations(tr)))[:6]


def _good_triplet(wd, fmt, s, d32):
    """Three well-formed single-component files (vt, ns, ew) of a list format."""
    out = []
    if fmt == "peer":
        toks = F.peer_tokens("ramp", len(s["vt"]))
        for c, code in zip(COMPS, ("UP", "360", "90")):
            p = os.path.join(wd, f"good_{c}.vt2")
            F.write_peer(p, toks[c], code, ".0200")
            out.append(p)
    elif fmt == "mseed3":
        for c in COMPS:
            p = os.path.join(wd, f"good_{c}.mseed")
            F.write_mseed(p, [(_chan("BH", c), d32[c])], 100)
            out.append(p)
    elif fmt == "sac":
        for c in COMPS:
            p = os.path.join(wd, f"good_{c}.sac")
            F.write_sac(p, _chan("BH", c), d32[c].astype(np.float32), 100, "big" if c == "ns" else "little")
            out.append(p)
    else:
        raise KeyError(fmt)
    return out


def run_malformed(root, ctx, tier):
    fmt, variant = root["fmt"], root["variant"]
    wd = tempfile.mkdtemp(prefix="hvmc-c07-")
    try:
        for label, fnames in build_malformed(wd, fmt, variant):
            for kw in ("none", "empty"):
                for dfn in (None, 33):
                    ctx.count("states")
                    ctx.count("transitions")
                    ctx.nontrivial_case(("malformed", fmt, variant, label, kw, dfn))
                    res = _call_single(fnames, _kwargs(fmt, kw), dfn)
                    ctx.count("validated")
                    detail = dict(family="malformed", fmt=fmt, variant=variant, files=label, kwargs=kw,
                                  degrees_from_north=dfn,
                                  how="hvmc.checks.c07.build_malformed(tmpdir, fmt, variant) writes the files")
                    if isinstance(res, tuple) and res and res[0] == "raised":
                        ctx.outcome(("refused", fmt, variant, res[1]))
                        ctx.count("refused")
                        if len(ctx.samples) < 3 and kw == "none" and dfn is None:
                            ctx.sample(dict(detail, expected="an exception", observed=list(res)))
                        continue
                    o = _obs(res)
                    ctx.outcome(("accepted", fmt, variant) + _obs_digest(o))
                    if (fmt, variant) in OBSERVE_ONLY:
                        ctx.count("surplus_traces_accepted")
                        continue
                    ctx.violation(f"C07:read_single:{fmt}:malformed-{variant}:no-raise", root, detail=detail,
                                  expected="an exception", observed=_short(o),
                                  explanation=f"a {fmt} input with defect '{variant}' yields a recording "
                                              "instead of raising")
    finally:
        shutil.rmtree(wd, ignore_errors=True)


# ---------------------------------------------------------------------------
# read(): routing of per-recording arguments

def _utc(offset_s):
    import obspy
    return obspy.UTCDateTime(*T0) + offset_s


def build_pool_entry(wd, label, slot):
    """Write one recording; returns dict(fnames=<as handed to read()>, single=<for read_single>,
    fmt=<obspy format or None>, exp=Expected, obspy=<bool>)."""
    n, rate = 17, 100
    s, d32 = _std(n)
    j = lambda name: os.path.join(wd, f"s{slot}_{name}")      # noqa: E731
    if label == "mseed1":
        p = j("a.mseed")
        F.write_mseed(p, [(_chan("BH", c), d32[c]) for c in ("ew", "vt", "ns")], rate)
        return dict(fnames=p, single=p, fmt="MSEED", exp=_exact_expected(d32, rate))
    if label == "mseed3":
        ps = []
        for c in ("ns", "vt", "ew"):
            q = j(f"{c}.mseed")
            F.write_mseed(q, [(_chan("HH", c), d32[c])], rate)
            ps.append(pathlib.Path(q))
        return dict(fnames=tuple(ps), single=tuple(ps), fmt="MSEED", exp=_exact_expected(d32, rate))
    if label == "sac3":
        data = F.float_samples("inexact", n, np.float32)
        ps = []
        for c in ("ew", "vt", "ns"):
            q = j(f"{c}.sac")
            F.write_sac(q, _chan("BH", c), data[c], rate, "little")
            ps.append(q)
        return dict(fnames=ps, single=ps, fmt="SAC", exp=_exact_expected(data, rate, dt_rtol=1e-4))
    if label == "gcf1":
        p = j("a.gcf")
        F.write_gcf(p, [(_chan("BH", c), d32[c]) for c in ("ns", "ew", "vt")], rate)
        return dict(fnames=[p], single=p, fmt="GCF", exp=_exact_expected(d32, rate))      # list of one: read() unwraps
    if label == "saf":
        p = j("a.saf")
        F.write_saf(p, [s["vt"], s["ns"], s["ew"]], "VNE", rate, north_rot=15)
        alt = dict(ns=_f64(s["ns"]), ew=_f64(s["ew"]), vt=_f64(s["vt"]), dfn_file=[15.0])
        return dict(fnames=p, single=p, fmt=None, exp=Expected([alt], "f32", 1.0 / rate))
    if label == "peer3":
        toks = F.peer_tokens("ramp", n)
        vals = {c: _f64([float(t) for t in toks[c]]) for c in COMPS}
        ps = []
        for c, code in (("ew", "110"), ("vt", "UP"), ("ns", "20")):
            q = j(f"{c}.vt2")
            F.write_peer(q, toks[c], code, ".0100")
            ps.append(q)
        return dict(fnames=ps, single=ps, fmt=None, exp=peer_expected(("UP", "20", "110"), vals, 0.01))
    raise KeyError(label)


def _trim_expected(exp, drop):
    alts = [dict(ns=a["ns"][drop:], ew=a["ew"][drop:], vt=a["vt"][drop:], dfn_file=a["dfn_file"])
            for a in exp.alts]
    return Expected(alts, exp.mode, exp.dt, exp.dt_rtol)


def _kw_for(shape, entries, i):
    """(kwargs for recording i, samples dropped at the front for obspy formats)."""
    e = entries[i]
    if shape == "none":
        return None, 0
    if shape == "empty":
        return {}, 0
    if shape == "headonly":                 # one dict for all, without a 'format' entry
        return {"headonly": False}, 0
    if shape == "trim":                     # one dict for all: starts 2.5 samples in
        return {"starttime": _utc(2.5 / 100)}, (3 if e["fmt"] else 0)
    if shape == "list-format":
        return ({"format": e["fmt"]} if e["fmt"] else {}), 0
    if shape == "list-trim":                # position dependent
        return {"starttime": _utc((i + 0.5) / 100)}, ((i + 1) if e["fmt"] else 0)
    raise KeyError(shape)


def _contain(values, how):
    """The per-recording values in the container named ``how`` (a NEW object per call)."""
    values = list(values)
    if how == "list":
        return values
    if how == "tuple":
        return tuple(values)
    if how == "ndarray":
        if any(v is None for v in values):
            return np.array(values, dtype=object)       # dtype=float would turn None into nan in the harness
        return np.array(values, dtype=float)
    if how == "generator":
        return (v for v in values)
    if how == "iter":
        return iter(values)
    if how == "map":
        return map(lambda v: v, values)
    raise KeyError(how)


def _read_cases(tier, labels):
    """(kshape, dshape, container of the per-recording kwargs, of the per-recording
    degrees_from_north, of fnames).  All shape combinations with plain lists;
    the other containers within one deviation from that (quick: paired with a
    subset of the shapes of the other argument, plus three cases in which both
    are not lists; on lists of three only when the three recordings differ) or
    in full product (thorough; fnames as a tuple in six of the cases)."""
    klist = [k for k in KW_SHAPES if k.startswith("list")]
    cases = [(k, d, "list", "list", "list") for k in KW_SHAPES for d in DFN_SHAPES]
    cases.append(("list-trim", "list", "list", "list", "tuple"))
    cases.append(("none", "none", "list", "list", "tuple"))
    # per-recording degrees_from_north lists that hold None for some recordings: ALL lists over
    # {a number, None} of the length of fnames
    m = len(labels)
    masks, alt = _none_masks(m), _alternating_mask(m)
    comp = f"list-none-{(2 ** m - 1) ^ int(alt.rsplit('-', 1)[1])}"
    if tier == "quick":
        cases += [("none", d, "list", "list", "list") for d in masks]
        cases += [("list-format", d, "list", "list", "list") for d in dict.fromkeys([alt, comp]) if d in masks]
        if not (m >= 3 and len(set(labels)) < m):
            cases += [("none", alt, "list", "tuple", "list"), ("list-trim", alt, "list", "generator", "list")]
    else:
        cases += [(k, d, "list", "list", "list") for k in KW_SHAPES for d in masks]
        cases += [(k, alt, "list", dc, "list") for k in ("none", "list-trim") for dc in DFN_CONTAINERS[1:]]
        cases += [("list-format", comp, "tuple", "tuple", "tuple")] if comp in masks else []
    if tier == "quick" and len(labels) >= 3 and len(set(labels)) < len(labels):
        pass
    elif tier == "quick":
        for k in klist:
            for kc in KW_CONTAINERS[1:]:
                cases += [(k, d, kc, "list", "list") for d in ("none", "list")]
        for dc in DFN_CONTAINERS[1:]:
            cases += [(k, "list", "list", dc, "list") for k in ("none", "trim", "list-trim")]
        cases += [("list-trim", "list", "generator", "generator", "list"),
                  ("list-trim", "list", "iter", "map", "list"),
                  ("list-format", "list", "tuple", "ndarray", "tuple")]
    else:
        for k in KW_SHAPES:
            for d in DFN_SHAPES:
                for kc in (KW_CONTAINERS if k in klist else ["list"]):
                    for dc in (DFN_CONTAINERS if d == "list" else ["list"]):
                        c = (k, d, kc, dc, "list")
                        if c not in cases:
                            cases.append(c)
        cases += [("list-trim", "list", "generator", "generator", "tuple"),
                  ("list-format", "list", "tuple", "ndarray", "tuple"),
                  ("list-trim", "none", "iter", "list", "tuple"),
                  ("trim", "list", "list", "map", "tuple")]
    return cases


def run_read(root, ctx, tier):
    labels = root["recs"]
    wd = tempfile.mkdtemp(prefix="hvmc-c07-")
    try:
        entries = [build_pool_entry(wd, lab, i) for i, lab in enumerate(labels)]
        m = len(entries)
        refs = {}
        for (kshape, dshape, kcont, dcont, fcont) in _read_cases(tier, labels):
            plain = (kcont, dcont, fcont) == ("list", "list", "list")
            for bare in ([False, True] if (plain and m == 1 and not isinstance(entries[0]["fnames"], (list, tuple)))
                         else [False]):
                _one_read(root, ctx, entries, labels, kshape, dshape, bare, kcont, dcont, fcont, refs)
        for kshape in KW_SHAPES:
            if not kshape.startswith("list") and kshape != "none":
                _shared_dict_sequence(root, ctx, entries, labels, kshape, refs)
    finally:
        shutil.rmtree(wd, ignore_errors=True)


def _none_masks(m):
    """Names of all per-recording degrees_from_north lists of length m over {a number, None} that hold at
    least one None: 'list-none-<k>', bit i of k set = recording i gets None."""
    return [f"list-none-{k}" for k in range(1, 2 ** m)]


def _alternating_mask(m):
    """[None, number, None] cut to length m."""
    return f"list-none-{5 & (2 ** m - 1)}"


def _dfn_each(dshape, m):
    if dshape == "none":
        return [None] * m
    if dshape == "scalar":
        return [DFN_SCALAR] * m
    if dshape.startswith("list-none-"):
        k = int(dshape.rsplit("-", 1)[1])
        return [None if (k >> i) & 1 else DFN_LIST[i] for i in range(m)]
    return list(DFN_LIST[:m])


def _references(root, ctx, entries, labels, kshape, dshape, detail, refs):
    """read_single per element with its OWN arguments (fresh dicts), judged against
    the written samples; once per (kwargs shape, degrees_from_north shape) and root."""
    if (kshape, dshape) in refs:
        return refs[(kshape, dshape)]
    m = len(entries)
    d_each = _dfn_each(dshape, m)
    if dshape.startswith("list-none-"):
        # the same read_single calls as in the all-None and the all-numbers references
        r_none = _references(root, ctx, entries, labels, kshape, "none", detail, refs)
        r_list = _references(root, ctx, entries, labels, kshape, "list", detail, refs)
        refs[(kshape, dshape)] = [r_none[i] if d_each[i] is None else r_list[i] for i in range(m)]
        return refs[(kshape, dshape)]
    out = []
    for i, e in enumerate(entries):
        ctx.count("transitions")
        kw, drop = _kw_for(kshape, entries, i)
        r = _call_single(e["single"], kw, d_each[i])
        exp = _trim_expected(e["exp"], drop) if drop else e["exp"]
        judge_single(ctx, root, "read-element:" + labels[i], dict(detail, element=i), exp, r, d_each[i])
        out.append(r)
    refs[(kshape, dshape)] = out
    return out


def _one_read(root, ctx, entries, labels, kshape, dshape, bare, kcont="list", dcont="list", fcont="list", refs=None):
    m = len(entries)
    refs = {} if refs is None else refs
    klist, dlist = kshape.startswith("list"), dshape.startswith("list")
    with_none = dshape.startswith("list-none-")
    if klist:
        kw_arg = _contain([_kw_for(kshape, entries, i)[0] for i in range(m)], kcont)
    else:
        kw_arg = _kw_for(kshape, entries, 0)[0]
    kw_before = dict(kw_arg) if isinstance(kw_arg, dict) else None
    d_each = _dfn_each(dshape, m)
    if dshape == "none":
        d_arg = None
    elif dshape == "scalar":
        d_arg = DFN_SCALAR
    else:
        d_arg = _contain(d_each, dcont)
    if bare:
        fn_arg = entries[0]["fnames"]
    else:
        fn_arg = [e["fnames"] for e in entries]
        fn_arg = tuple(fn_arg) if fcont == "tuple" else fn_arg
    plain = (kcont, dcont, fcont) == ("list", "list", "list")
    detail = dict(family="read", recordings=labels, kwargs_shape=kshape,
                  degrees_from_north=(d_each if dlist else d_arg),
                  fnames_not_in_a_list=bare,
                  how="hvmc.checks.c07.build_pool_entry writes each recording; kwargs per _kw_for()")
    if not plain:
        detail.update(per_recording_kwargs_given_as=(kcont if klist else "one value"),
                      per_recording_degrees_from_north_given_as=(dcont if dlist else "one value"),
                      fnames_given_as=fcont,
                      how=detail["how"] + "; containers per hvmc.checks.c07._contain() (generator = (v for v in "
                                          "values), iter = iter(values), map = map(identity, values), ndarray = "
                                          "numpy float array)")
    kclass = "list" if klist else "scalar"
    dclass = "list" if dlist else "scalar"
    if with_none:
        # a None entry of a per-recording list means what None given once means: use the file's own
        # orientation metadata (0 when there is none) for THAT recording
        ctx.count("read_dfn_lists_with_none")
        key_base = ("C07:read():per-recording-degrees_from_north-with-None-entries:kwargs-" +
                    (kshape if plain else f"{kshape}-as-{kcont}:dfn-as-{dcont}:fnames-as-{fcont}"))
        suffix = True
    elif not plain:
        key_base = ("C07:read():container:kwargs-as-" + (kcont if klist else "one-value") +
                    ":dfn-as-" + (dcont if dlist else "one-value") + ":fnames-as-" + fcont)
        suffix = True
    elif kclass != dclass:
        key_base = "C07:read():degrees_from_north-broadcast-follows-shape-of-obspy_read_kwargs"
        suffix = False
    else:
        key_base = f"C07:read():kwargs-{kshape}:dfn-{dshape}"
        suffix = True
    ctx.count("states")
    ctx.nontrivial_case(("read", labels, kshape, dshape, bare, kcont, dcont, fcont))
    if not plain:
        ctx.count("read_container_cases")
    if len(set(e["fmt"] or labels[i] for i, e in enumerate(entries))) > 1 and isinstance(kw_arg, dict):
        ctx.count("read_mixed_formats_one_dict")
    ctx.count("transitions")
    try:
        got = DW.read(fn_arg, obspy_read_kwargs=kw_arg, degrees_from_north=d_arg)
    except Exception as e:      # noqa: BLE001
        got = ("raised", type(e).__name__, str(e)[:300])
    if kw_before is not None and kw_arg != kw_before:
        # not pinned by the statement (the SAC reader records the byte order it tries in the dict
        # it is given, today): counted only
        ctx.count("observed_callers_options_dict_changed_by_read")
    rf = _references(root, ctx, entries, labels, kshape, dshape, detail, refs)
    ctx.count("validated")
    if any(isinstance(r, tuple) for r in rf):
        return
    failed = (isinstance(got, tuple) or not isinstance(got, list) or len(got) != m or
              any(_obs_digest(_obs(g)) != _obs_digest(_obs(r)) for g, r in zip(got, rf)))
    if failed and kw_before is not None and m > 1 and not bare:
        # options given once as ONE dict: does every recording read correctly by a read() call of
        # its own (same argument shapes, a fresh copy of the dict)?  Then the failure needs the
        # recordings handled earlier in the same call, and is keyed as that.
        solo_ok = True
        for i, e in enumerate(entries):
            ctx.count("transitions")
            try:
                one = DW.read([e["fnames"]], obspy_read_kwargs=dict(kw_before),
                              degrees_from_north=(_contain([d_each[i]], dcont) if dlist else d_arg))
                solo_ok = solo_ok and len(one) == 1 and _obs_digest(_obs(one[0])) == _obs_digest(_obs(rf[i]))
            except Exception:       # noqa: BLE001
                solo_ok = False
        detail["every_recording_reads_correctly_in_a_read_call_of_its_own"] = solo_ok
        if solo_ok:
            key_base, suffix = "C07:read():one-options-dict-for-all:outcome-depends-on-earlier-recordings", True
    if isinstance(got, tuple) and got and got[0] == "raised":
        ctx.outcome(("read-raised", kshape, dshape, got[1]))
        ctx.violation(key_base + (":raised" if suffix else ""), root, detail=detail,
                      expected=[_short(_obs(r)) for r in rf], observed=list(got),
                      explanation=f"read() raised {got[1]} although read_single() succeeds on every "
                                  "entry with its own arguments")
        return
    if not isinstance(got, list) or len(got) != m:
        ctx.violation(key_base + (":length" if suffix else ""), root, detail=detail,
                      expected=m, observed=(len(got) if hasattr(got, "__len__") else repr(got)),
                      explanation="read() did not return one recording per entry")
        return
    if len(ctx.samples) < 4 and plain:
        ctx.sample(dict(detail, observed=[_short(_obs(g)) for g in got]))
    for i, (g, r) in enumerate(zip(got, rf)):
        og, orf = _obs(g), _obs(r)
        ctx.outcome(("read", labels[i]) + _obs_digest(og))
        if _obs_digest(og) != _obs_digest(orf):
            ctx.violation(key_base + (":element-differs" if suffix else ""), root,
                          detail=dict(detail, element=i), expected=_short(orf), observed=_short(og),
                          explanation=f"read()[{i}] differs from read_single(fnames[{i}], kwargs_{i}, "
                                      f"degrees_from_north_{i})")


def _shared_dict_sequence(root, ctx, entries, labels, kshape, refs):
    """read_single for one recording after the other, all calls given ONE and the
    same options dict; every call must return what it returns with a dict of its own."""
    m = len(entries)
    shared = _kw_for(kshape, entries, 0)[0]
    before = dict(shared)
    detail = dict(family="read", recordings=labels, kwargs_shape=kshape, degrees_from_north=None,
                  how="hvmc.checks.c07.build_pool_entry writes each recording; options = ONE dict per _kw_for(shape, "
                      "entries, 0); read_single(recording_i, options, None) for i = 0, 1, ... in turn, the same dict "
                      "object in every call")
    rf = _references(root, ctx, entries, labels, kshape, "none", detail, refs)
    key_base = f"C07:read_single:successive-calls-sharing-one-options-dict:kwargs-{kshape}"
    for i, e in enumerate(entries):
        ctx.count("states")
        ctx.nontrivial_case(("shared-dict", labels, kshape, i))
        ctx.count("transitions")
        ctx.count("shared_dict_calls")
        got = _call_single(e["single"], shared, None)
        ctx.count("validated")
        r = rf[i]
        if isinstance(r, tuple):
            continue
        if isinstance(got, tuple):
            ctx.outcome(("shared-dict-raised", labels[i], got[1]))
            ctx.violation(key_base + ":raised", root, detail=dict(detail, element=i),
                          expected=_short(_obs(r)), observed=list(got),
                          explanation=f"call {i} raised {got[1]} although the same call with an options dict of its "
                                      f"own succeeds; the dict held {before} before the first call and holds "
                                      f"{ {k: str(v) for k, v in shared.items()} } now")
            continue
        og, orf = _obs(got), _obs(r)
        ctx.outcome(("shared-dict", labels[i]) + _obs_digest(og))
        if _obs_digest(og) != _obs_digest(orf):
            ctx.violation(key_base + ":element-differs", root, detail=dict(detail, element=i),
                          expected=_short(orf), observed=_short(og),
                          explanation=f"call {i} returns another recording than the same call with an options dict "
                                      "of its own")
    if shared != before:
        ctx.count("observed_callers_options_dict_changed_by_read_single")


# ---------------------------------------------------------------------------
# histories at ONE path: the same file name(s) are written, read, overwritten
# and read again inside one process.  Every read is judged for what the
# file(s) hold AT THAT MOMENT: a well-formed content with the per-format
# oracle above, a malformed one must raise.

TEXT_FAMS = ("saf", "minishark", "peer")

# well-formed contents X, Y, Z per format: other samples, other length, other
# rate / time step, other orientation metadata and header scaling
HIST_GOOD = {
    "saf": dict(
        X=dict(payload="ramp", n=17, rate=100, north_rot=0, newline="\n", padded=True),
        Y=dict(payload="inexact", n=40, rate=250, north_rot=15, newline="\r\n", padded=False),
        Z=dict(payload="extreme", n=2, rate=50, north_rot=350, newline="\n", padded=True)),
    "minishark": dict(
        X=dict(payload="ramp", n=17, rate=250, gain=1, conversion=1, newline="\n"),
        Y=dict(payload="inexact", n=40, rate=100, gain=2, conversion=64, newline="\r\n"),
        Z=dict(payload="extreme", n=2, rate=50, gain=64, conversion=1, newline="\n")),
    "peer": dict(
        X=dict(payload="ramp", style="fortran", n=17, dt=".0200", codes="UP,360,90", newline="\n"),
        Y=dict(payload="mixed", style="c", n=40, dt=".0050", codes="UP,90,360", newline="\r\n"),
        Z=dict(payload="zeros", style="fortran", n=2, dt="0.0100", codes="HNZ,HNN,HNE", newline="\n")),
    "mseed1": dict(
        X=dict(payload="int32-steim2", n=17, rate=100, naming="BH", byteorder="default"),
        Y=dict(payload="float64", n=40, rate=250, naming="HH", byteorder="little"),
        Z=dict(payload="float32", n=2, rate=50, naming="", byteorder="default")),
    "mseed3": dict(
        X=dict(payload="int32-steim2", n=17, rate=100, naming="BH", byteorder="default"),
        Y=dict(payload="float64", n=40, rate=250, naming="HH", byteorder="little"),
        Z=dict(payload="float32", n=2, rate=50, naming="", byteorder="default")),
    "sac": dict(
        X=dict(payload="ramp", n=17, rate=100, naming="BH", endian="little"),
        Y=dict(payload="inexact", n=40, rate=250, naming="HH", endian="big"),
        Z=dict(payload="wide", n=2, rate=50, naming="", endian="mixed")),
    "gcf": dict(
        X=dict(payload="ramp", n=17, rate=100, naming="BH"),
        Y=dict(payload="smallstep", n=40, rate=250, naming=""),
        Z=dict(payload="extreme", n=2, rate=500, naming="BH")),
}

# malformed contents (all of kinds the 'malformed' family shows to be refused);
# the i-th kind is derived from the i-th well-formed content, so that two
# different malformed steps also differ in samples, length and rate
HIST_BAD = {
    "saf": ["ndat+1", "text-garbage", "missing-component", "empty-file"],
    "minishark": ["ndat-1", "text-garbage", "no-gain", "empty-file"],
    "peer": ["ndat+1@ns", "text-garbage@vt", "ndat-1@ew", "empty-file@ns"],
    "mseed1": ["two-traces", "random-bytes", "empty-file"],
    "mseed3": ["random-bytes@ns", "duplicated-component", "empty-file@vt"],
    "sac": ["random-bytes@ns", "duplicated-component", "empty-file@vt"],
    "gcf": ["two-traces", "random-bytes", "empty-file"],
}

# size of the step alphabet (first g well-formed + first b malformed contents)
# and length of the histories; ALL sequences of that length are run and every
# step of every sequence is judged
HIST = {
    "quick": dict(text=dict(good=2, bad=2, depth=3, prefix=1), binary=dict(good=2, bad=2, depth=3, prefix=1)),
    "thorough": dict(text=dict(good=3, bad=2, depth=4, prefix=2), binary=dict(good=3, bad=2, depth=3, prefix=1)),
}
HIST_READS = {
    "quick": [dict(dfn=None, kwargs="none", pathtype="str")],
    "thorough": [dict(dfn=None, kwargs="none", pathtype="str"), dict(dfn=33, kwargs="empty", pathtype="path")],
}


def _hist_alphabet(fam, tier):
    h = HIST[tier]["text" if fam in TEXT_FAMS else "binary"]
    return ([f"good:{g}" for g in list(HIST_GOOD[fam])[:h["good"]]] +
            [f"bad:{b}" for b in HIST_BAD[fam][:h["bad"]]]), h


def _spoil(path, how):
    """Overwrite ``path`` with content no format recognises."""
    if how == "empty-file":
        open(path, "wb").close()
    elif how == "random-bytes":
        with open(path, "wb") as f:
            f.write(F.lcg_bytes(4096))
    elif how == "text-garbage":
        _garbage_text(path)
    else:
        raise KeyError(how)


def hist_write(wd, fam, sym):
    """Write the content named by ``sym`` ('good:<X|Y|Z>' or 'bad:<kind>') to the
    family's fixed file names inside ``wd`` (overwriting what is there).
    Returns the variants [dict(label, fnames, exp)]; exp is None for a content
    that must be refused."""
    what, name = sym.split(":", 1)
    if what == "good":
        return BUILDERS[fam](wd, HIST_GOOD[fam][name])
    kinds = HIST_BAD[fam]
    goods = list(HIST_GOOD[fam].values())
    cfg = goods[kinds.index(name) % len(goods)]
    kind, _, where = name.partition("@")
    n = cfg["n"]
    ndat = {"ndat+1": n + 1, "ndat-1": n - 1}
    if fam == "saf":
        if kind in ndat:
            variants = build_saf(wd, cfg, ndat=ndat[kind])
        elif kind == "missing-component":
            variants = build_saf(wd, cfg, drop_lines=("CH2_ID",))
        else:
            variants = build_saf(wd, cfg)
            for v in variants:
                _spoil(v["fnames"], kind)
    elif fam == "minishark":
        if kind in ndat:
            variants = build_minishark(wd, cfg, nsamples=ndat[kind])
        else:
            variants = build_minishark(wd, cfg)
            p = variants[0]["fnames"]
            if kind == "no-gain":
                with open(p, "rb") as f:
                    text = f.read().decode("ascii")
                with open(p, "wb") as f:
                    f.write("".join(ln for ln in text.splitlines(True) if not ln.startswith("#Gain")).encode("ascii"))
            else:
                _spoil(p, kind)
    elif fam == "peer":
        if kind in ndat:
            variants = build_peer(wd, cfg, npts={where: ndat[kind]})
        else:
            variants = build_peer(wd, cfg)
            _spoil(os.path.join(wd, f"rec_{where}.vt2"), kind)
    elif fam in ("mseed1", "gcf"):
        variants = BUILDERS[fam](wd, cfg)
        if kind == "two-traces":
            if fam == "mseed1":
                kd, nm, dtype, enc = MSEED_PAYLOADS[cfg["payload"]]
                data = _binary_samples(kd, nm, dtype, n)
            else:
                s = F.int_samples(cfg["payload"], n)
                data = {c: np.array(s[c], dtype=np.int32) for c in COMPS}
            for order, v in zip(ORDERS, variants):
                traces = [(_chan(cfg["naming"], c), data[c]) for c in order[:2]]
                if fam == "mseed1":
                    F.write_mseed(v["fnames"], traces, cfg["rate"], encoding=enc)
                else:
                    F.write_gcf(v["fnames"], traces, cfg["rate"])
        else:
            for v in variants:
                _spoil(v["fnames"], kind)
    elif fam in ("mseed3", "sac"):
        variants = BUILDERS[fam](wd, cfg)
        ext = "mseed" if fam == "mseed3" else "sac"
        if kind == "duplicated-component":
            # the east file now holds a second north trace (other samples)
            p = os.path.join(wd, f"rec_ew.{ext}")
            if fam == "mseed3":
                kd, nm, dtype, enc = MSEED_PAYLOADS[cfg["payload"]]
                data = _binary_samples(kd, nm, dtype, n)
                F.write_mseed(p, [(_chan(cfg["naming"], "ns"), data["ew"])], cfg["rate"], encoding=enc)
            else:
                data = F.float_samples(cfg["payload"], n, np.float32)
                F.write_sac(p, _chan(cfg["naming"], "ns"), data["ew"], cfg["rate"], "little")
        else:
            _spoil(os.path.join(wd, f"rec_{where}.{ext}"), kind)
    else:
        raise KeyError(fam)
    return [dict(v, exp=None) for v in variants]


class _Probe:
    """Stand-in for ctx that only records the oracle names of the violations."""
    def __init__(self):
        self.failed = set()
        self.samples = []

    def count(self, *a, **k):
        pass

    outcome = nontrivial_case = sample = count

    def violation(self, key, *a, **k):
        self.failed.add(key.rsplit(":", 1)[-1])


def _failed_oracles(fam, exp, res, dfn):
    """Names of the oracles a read outcome fails ('raised', 'samples', 'dt', 'no-raise', ...)."""
    if exp is None:
        return set() if isinstance(res, tuple) else {"no-raise"}
    probe = _Probe()
    judge_single(probe, None, fam, None, exp, res, dfn)
    return probe.failed


def _control(fam, sym, label, rd):
    """The same content under FRESH file names (a new directory), read once."""
    wd = tempfile.mkdtemp(prefix="hvmc-c07-")
    try:
        var = [v for v in hist_write(wd, fam, sym) if v["label"] == label][0]
        return _call_single(_paths(var["fnames"], rd["pathtype"]), _kwargs(fam, rd["kwargs"]), rd["dfn"])
    finally:
        shutil.rmtree(wd, ignore_errors=True)


def run_history(root, ctx, tier):
    fam, rd, prefix, alphabet = root["fmt"], root["read"], list(root["prefix"]), list(root["alphabet"])
    seen = set()
    for tail in itertools.product(alphabet, repeat=root["depth"] - len(prefix)):
        seq = prefix + list(tail)
        wd = tempfile.mkdtemp(prefix="hvmc-c07-")
        try:
            # what the previous read of the same file name(s) in the same order did (observed, per order)
            before = {}
            for si, sym in enumerate(seq):
                variants = hist_write(wd, fam, sym)
                good = sym.startswith("good:")
                kind = sym.split(":", 1)[1].partition("@")[0]
                # a history prefix is one case; it is counted by the root / sequence that owns it
                hist = tuple(seq[:si + 1])
                own = hist not in seen and all(x == alphabet[0] for x in prefix[si + 1:])
                seen.add(hist)
                for var in variants:
                    if own:
                        ctx.count("states")
                        ctx.nontrivial_case(("history", fam, hist, var["label"], rd))
                    ctx.count("transitions")
                    res = _call_single(_paths(var["fnames"], rd["pathtype"]), _kwargs(fam, rd["kwargs"]), rd["dfn"])
                    prev = before.get(var["label"], "first-read")
                    before[var["label"]] = ("rewritten-after-failed-read" if isinstance(res, tuple)
                                            else "rewritten-after-successful-read")
                    detail = dict(family="history", fmt=fam, history=list(hist), step=si, order=var["label"], read=rd,
                                  files=[os.path.basename(str(f)) for f in
                                         (var["fnames"] if isinstance(var["fnames"], list) else [var["fnames"]])],
                                  how="in ONE fresh directory and ONE process, for each entry of 'history' in turn: "
                                      "hvmc.checks.c07.hist_write(tmpdir, fmt, entry) (over)writes the same file "
                                      "name(s), then read_single(files in this order, kwargs, degrees_from_north); "
                                      "the outcome of the LAST entry is the one judged here")
                    ctx.count("history_" + ("good_" if good else "bad_") + prev.replace("-", "_"))
                    if good and si and seq[si - 1].startswith("bad:"):
                        ctx.count("history_wellformed_over_malformed")
                    if good and si and seq[si - 1].startswith("good:") and seq[si - 1] != sym:
                        ctx.count("history_wellformed_over_other_wellformed")
                    # input class of the keys: a failure that the same content also shows under fresh
                    # file names does not depend on the history and is reported under the keys of the
                    # one-read families; only a failure that needs the history gets the history class
                    cls = "well-formed" if good else f"malformed-{kind}"
                    failed = _failed_oracles(fam, var["exp"], res, rd["dfn"])
                    if failed and prev != "first-read":
                        ctx.count("transitions")
                        ctl = _control(fam, sym, var["label"], rd)
                        detail["same_content_under_fresh_names"] = (list(ctl) if isinstance(ctl, tuple)
                                                                    else _short(_obs(ctl)))
                        if not failed <= _failed_oracles(fam, var["exp"], ctl, rd["dfn"]):
                            cls = prev if good else f"malformed-{kind}-{prev}"
                    if good:
                        judge_single(ctx, root, fam, detail, var["exp"], res, rd["dfn"], cls=cls)
                        if prev == "rewritten-after-failed-read" and len(ctx.samples) < 5 and var is variants[-1]:
                            ctx.sample(dict(detail, expected=_short_exp(var["exp"], rd["dfn"]),
                                            observed=list(res) if isinstance(res, tuple) else _short(_obs(res))))
                        continue
                    ctx.count("validated")
                    if isinstance(res, tuple) and res and res[0] == "raised":
                        ctx.outcome(("refused", fam, sym, res[1]))
                        ctx.count("refused")
                        continue
                    o = _obs(res)
                    ctx.outcome(("accepted", fam, sym) + _obs_digest(o))
                    ctx.violation(f"C07:read_single:{fam}:{cls}:no-raise", root,
                                  detail=detail, expected="an exception", observed=_short(o),
                                  explanation=f"the {fam} file(s) hold a malformed content ('{sym[4:]}') at the moment "
                                              f"of this read ({prev}); a recording is returned instead of raising")
        finally:
            shutil.rmtree(wd, ignore_errors=True)


def _history_roots(tier):
    out = []
    for fam in SPACES:
        alphabet, h = _hist_alphabet(fam, tier)
        for rd in HIST_READS[tier]:
            for pre in itertools.product(alphabet, repeat=h["prefix"]):
                out.append(dict(family="history", fmt=fam, prefix=list(pre), depth=h["depth"], alphabet=alphabet,
                                read=rd))
    return out


# ---------------------------------------------------------------------------
# traces / files of ONE recording that do not share one time step.  The statement lists the inputs that
# must be refused (sample count against the header, missing / duplicated component, unrecognised file);
# traces with different sampling rates are not among them, so refusing such an input is ACCEPTED (and
# counted) but not demanded.  What the statement does demand of every recording that IS returned:
# every component holds exactly the samples stored for its channel "with the file's time step" - the
# time step stored for THAT channel -, "whatever the order of the traces in the file or of the files in
# the list".  So: a returned recording is judged component by component (samples, dt of its own trace),
# and the outcome (refused / the recording) must be the same for all 6 orders.

MIXED_FAMS = ["mseed1", "mseed3", "sac", "gcf", "peer"]
# (rate a, rate b): every assignment of {a, b} to (vt, ns, ew) in which not all three are equal
MIXED_RATE_PAIRS = {"quick": [(100, 50)], "thorough": [(100, 50), (250, 100), (512, 500)]}
MIXED_N = {"quick": [17], "thorough": [17, 2, 1000]}
# same-count: all traces hold n samples (different durations); same-duration: the trace with the higher
# rate holds proportionally more samples (PEER: same-count only - the PEER reader documents that it trims
# files of different lengths to the shortest)
MIXED_LENGTHS = ["same-count", "same-duration"]
MIXED_READS = {
    "quick": [dict(kwargs="none", pathtype="str"), dict(kwargs="empty", pathtype="str")],
    "thorough": [dict(kwargs="none", pathtype="str"), dict(kwargs="empty", pathtype="path"),
                 dict(kwargs="format", pathtype="str"), dict(kwargs="none", pathtype="memory")],
}
MIXED_DFN = {"quick": [None], "thorough": [None, 33]}


def _peer_dt_str(rate):
    t = f"{1.0 / rate:.4f}"
    assert abs(float(t) - 1.0 / rate) < 1e-15, rate
    return t[1:]


def build_mixed_rates(wd, fam, rates, lengths, n):
    """Write one recording whose components are sampled at ``rates`` = {component: rate}.
    Returns variants dict(label=<order>, fnames, want={component: (samples as float64, dt)}, dt_rtol)."""
    slow = min(rates.values())
    n_of = {c: (n if lengths == "same-count" else int(round(n * rates[c] / slow))) for c in COMPS}
    dt_rtol = 1e-4 if fam == "sac" else 1e-12
    if fam == "peer":
        vals, toks = {}, {}
        for c in COMPS:
            toks[c] = F.peer_tokens("ramp", n_of[c])[c]
            vals[c] = _f64([float(t) for t in toks[c]])
    elif fam == "sac":
        vals = {c: F.float_samples("ramp", n_of[c], np.float32)[c] for c in COMPS}
    else:
        vals = {c: np.array(F.int_samples("ramp", n_of[c])[c], dtype=np.int32) for c in COMPS}
    want = {c: (_f64(vals[c]), (float(_peer_dt_str(rates[c])) if fam == "peer" else 1.0 / rates[c])) for c in COMPS}
    out = []
    if fam in ("mseed1", "gcf"):
        for oi, order in enumerate(ORDERS):
            p = os.path.join(wd, f"rec_{oi}.{'mseed' if fam == 'mseed1' else 'gcf'}")
            traces = [(_chan("BH", c), vals[c], rates[c]) for c in order]
            (F.write_mseed_own_rates if fam == "mseed1" else F.write_gcf_own_rates)(p, traces)
            out.append(dict(label="-".join(order), fnames=p, want=want, dt_rtol=dt_rtol))
        return out
    paths = {}
    for c, code in zip(COMPS, ("UP", "360", "90")):
        if fam == "mseed3":
            paths[c] = os.path.join(wd, f"rec_{c}.mseed")
            F.write_mseed(paths[c], [(_chan("BH", c), vals[c])], rates[c])
        elif fam == "sac":
            paths[c] = os.path.join(wd, f"rec_{c}.sac")
            F.write_sac(paths[c], _chan("BH", c), vals[c], rates[c], "big" if c == "ns" else "little")
        else:
            paths[c] = os.path.join(wd, f"rec_{c}.vt2")
            F.write_peer(paths[c], toks[c], code, _peer_dt_str(rates[c]))
    return [dict(label="-".join(order), fnames=[paths[c] for c in order], want=want, dt_rtol=dt_rtol)
            for order in ORDERS]


def run_mixed_rates(root, ctx, tier):
    fam, rates, lengths, n = root["fmt"], root["rates"], root["lengths"], root["n"]
    key = f"C07:read_single:{fam}:traces-of-one-recording-with-different-time-steps"
    wd = tempfile.mkdtemp(prefix="hvmc-c07-")
    try:
        variants = build_mixed_rates(wd, fam, rates, lengths, n)
        for rd in root["reads"]:
            outcomes = {}
            for var in variants:
                detail = dict(family="mixed-rates", fmt=fam, sampling_rate_of_each_component=rates, lengths=lengths,
                              n=n, order=var["label"], read=rd,
                              files=[os.path.basename(str(f)) for f in
                                     (var["fnames"] if isinstance(var["fnames"], list) else [var["fnames"]])],
                              how="hvmc.checks.c07.build_mixed_rates(tmpdir, fmt, rates, lengths, n) writes the "
                                  "files; read_single(files in this order, kwargs, degrees_from_north)")
                ctx.count("states")
                ctx.nontrivial_case(("mixed-rates", fam, rates, lengths, n, var["label"], rd))
                ctx.count("transitions")
                ctx.count("mixed_rate_reads")
                res = _call_single(_paths(var["fnames"], rd["pathtype"], fam), _kwargs(fam, rd["kwargs"]), rd["dfn"])
                ctx.count("validated")
                if isinstance(res, tuple) and res and res[0] == "raised":
                    ctx.outcome(("mixed-rates-refused", fam, res[1]))
                    ctx.count("mixed_rate_inputs_refused")
                    outcomes[var["label"]] = "refused"
                    continue
                o = _obs(res)
                ctx.count("mixed_rate_inputs_accepted")
                ctx.outcome(("mixed-rates", fam) + _obs_digest(o))
                outcomes[var["label"]] = _obs_digest(o)
                expected = {c: dict(samples=_head(var["want"][c][0]), n=len(var["want"][c][0]), dt=var["want"][c][1])
                            for c in ("ns", "ew", "vt")}
                if not all(_same(o[c], var["want"][c][0], "exact") for c in ("ns", "ew", "vt")):
                    ctx.violation(key + ":samples", root, detail=detail, expected=expected, observed=_short(o),
                                  explanation="a recording is returned whose components do not hold the samples "
                                              "stored for their channels")
                    continue
                bad = [c for c, d in zip(("ns", "ew", "vt"), o["dt"])
                       if abs(d - var["want"][c][1]) > var["dt_rtol"] * var["want"][c][1]]
                if bad:
                    ctx.violation(key + ":dt", root, detail=detail, expected=expected, observed=_short(o),
                                  explanation=f"a recording is returned in which {bad} carry a time step other than "
                                              "the one stored for that channel (refusing the input would have been "
                                              "accepted)")
                want_dfn = _mod360(rd["dfn"]) if rd["dfn"] is not None else 0.0
                if abs(o["dfn"] - want_dfn) > 1e-9:
                    ctx.violation(key + ":degrees_from_north", root, detail=detail, expected=want_dfn,
                                  observed=o["dfn"], explanation="degrees_from_north is neither the explicit value "
                                                                 "modulo 360 nor the file's orientation (0)")
            if len(set(outcomes.values())) > 1:
                by = {}
                for lab, oc in outcomes.items():
                    by.setdefault(oc, []).append(lab)
                ctx.violation(key + ":order-dependent", root,
                              detail=dict(family="mixed-rates", fmt=fam, sampling_rate_of_each_component=rates,
                                          lengths=lengths, n=n, read=rd),
                              observed=[dict(outcome=("refused" if oc == "refused" else
                                                      dict(dt=list(oc[1]), degrees_from_north=oc[2])), orders=labs)
                                        for oc, labs in by.items()],
                              explanation="whether the input is refused / which recording is returned depends on the "
                                          "order of the traces / files")
    finally:
        shutil.rmtree(wd, ignore_errors=True)


def _mixed_rate_roots(tier):
    out = []
    for fam in MIXED_FAMS:
        reads = [dict(rd, dfn=d) for rd in MIXED_READS[tier] for d in MIXED_DFN[tier]
                 if not (fam == "peer" and rd["kwargs"] == "format")
                 and not (fam == "gcf" and rd["pathtype"] == "memory")]
        for (a, b) in MIXED_RATE_PAIRS[tier]:
            if fam in ("peer", "gcf") and (a, b) == (512, 500):
                continue        # 1/512 s is not a four-decimal PEER DT; obspy's GCF writer does not take 512 Hz
            for pattern in itertools.product((a, b), repeat=3):
                if len(set(pattern)) == 1:
                    continue
                for lengths in MIXED_LENGTHS:
                    if fam == "peer" and lengths != "same-count":
                        continue
                    for n in MIXED_N[tier]:
                        out.append(dict(family="mixed-rates", fmt=fam, rates=dict(zip(COMPS, pattern)),
                                        lengths=lengths, n=n, reads=reads))
    return out


# ---------------------------------------------------------------------------
# the repository's own example files

EXAMPLE_DIR = "/repo/test/data/input"
EXAMPLES = {
    "mseed_combined": ("MSEED", ["mseed_combined/ut.stn11.a2_c50.mseed"]),
    "mseed_individual": ("MSEED", ["mseed_individual/ut.stn11.a2_c50_bh%s.mseed" % c for c in "zne"]),
    "sac_little_endian": ("SAC", ["sac_little_endian/ut.stn11.a2_c50_%s.sac" % c for c in "zne"]),
    "sac_big_endian": ("SAC", ["sac_big_endian/ut.stn11.a2_c50_%s.sac" % c for c in "zne"]),
    "gcf": ("GCF", ["gcf/sample.gcf"]),
    "saf": (None, ["saf/mt_20211122_133110.saf"]),
    "peer": (None, ["peer/rsn942_northr_alh%s.vt2" % c for c in ("-up", "360", "090")]),
}


def example_expected(name, paths):
    fmt = EXAMPLES[name][0]
    if fmt is not None:
        import obspy
        traces = []
        for p in paths:
            traces += list(obspy.read(p, format=fmt))
        if len(traces) != 3:
            return None
        by = {t.stats.channel[-1]: t for t in traces}
        if sorted(by) != ["E", "N", "Z"]:
            return None
        alt = dict(ns=_f64(by["N"].data), ew=_f64(by["E"].data), vt=_f64(by["Z"].data), dfn_file=[0.0])
        return Expected([alt], "exact", float(by["Z"].stats.delta), 0.0)
    if name == "saf":
        head, rows = F.parse_saf_naive(paths[0])
        col = {head[f"CH{i}_ID"]: i for i in range(3)}
        if len(rows) != int(head["NDAT"]):
            return None
        alt = {c: _f64([r[col[ch]] for r in rows]) for ch, c in LETTER_TO_COMP.items()}
        layout = "".join(head[f"CH{i}_ID"] for i in range(3))
        alt["dfn_file"], _ = _saf_dfn_file(layout, float(head["NORTH_ROT"]) if "NORTH_ROT" in head else None)
        return Expected([alt], "f32", 1.0 / float(head["SAMP_FREQ"]))
    if name == "peer":
        parsed = [F.parse_peer_naive(p) for p in paths]
        if any(len(v) != n for (_, n, _, v) in parsed):
            return None
        codes = [c for (c, _, _, _) in parsed]
        vals = dict(vt=_f64(parsed[0][3]), ns=_f64(parsed[1][3]), ew=_f64(parsed[2][3]))
        return peer_expected(tuple(codes), vals, parsed[0][2])
    raise KeyError(name)


def run_example(root, ctx, tier):
    name = root["name"]
    paths = [os.path.join(EXAMPLE_DIR, rel) for rel in EXAMPLES[name][1]]
    if not all(os.path.isfile(p) and os.path.getsize(p) > 0 for p in paths):
        ctx.count("example_files_unavailable")
        return
    exp = example_expected(name, paths)
    if exp is None:
        ctx.count("example_files_not_three_component")
        return
    orders = list(itertools.permutations(range(3))) if len(paths) == 3 else [None]
    for order in orders:
        fn = paths[0] if order is None else [paths[i] for i in order]
        for dfn in (None, 33):
            for pathtype in ("str", "path"):
                ctx.count("states")
                ctx.count("transitions")
                ctx.nontrivial_case(("example", name, order, dfn, pathtype))
                res = _call_single(_paths(fn, pathtype), None, dfn)
                detail = dict(family="examples", name=name,
                              files=[os.path.relpath(str(f), EXAMPLE_DIR) for f in (fn if order else [fn])],
                              degrees_from_north=dfn, pathtype=pathtype)
                judge_single(ctx, root, "example-" + name, detail, exp, res, dfn)


# ---------------------------------------------------------------------------
# observed only: ways of calling read() that the statement does not pin.  What
# happens today is counted (evidence), nothing here can produce a violation.

def run_observe(root, ctx, tier):
    import collections
    import decimal
    import fractions
    import types
    wd = tempfile.mkdtemp(prefix="hvmc-c07-")
    try:
        labels = ["mseed1", "saf", "gcf1"]
        entries = [build_pool_entry(wd, lab, i) for i, lab in enumerate(labels)]
        fn = [e["fnames"] for e in entries]
        cases = {
            "dfn_once_numpy_float64": dict(degrees_from_north=np.float64(33)),
            "dfn_once_numpy_float32": dict(degrees_from_north=np.float32(33)),
            "dfn_once_numpy_int64": dict(degrees_from_north=np.int64(33)),
            "dfn_once_0d_array": dict(degrees_from_north=np.array(33.0)),
            "dfn_once_fraction": dict(degrees_from_north=fractions.Fraction(33)),
            "dfn_once_decimal": dict(degrees_from_north=decimal.Decimal(33)),
            "dfn_once_str": dict(degrees_from_north="33"),
            "dfn_list_shorter_than_fnames": dict(degrees_from_north=[10, 20]),
            "dfn_list_longer_than_fnames": dict(degrees_from_north=[10, 20, 400, 50]),
            "dfn_deque": dict(degrees_from_north=collections.deque([10, 20, 400])),
            "kwargs_list_shorter_than_fnames": dict(obspy_read_kwargs=[{}, {}]),
            "kwargs_once_mappingproxy": dict(obspy_read_kwargs=types.MappingProxyType({})),
            "fnames_generator": dict(fnames=(f for f in fn)),
            "fnames_ndarray": dict(fnames=np.array(fn, dtype=object)),
        }
        for name, kw in cases.items():
            kw = dict(dict(fnames=list(fn)), **kw)
            ctx.count("states")
            ctx.count("transitions")
            got = None
            try:
                got = DW.read(**kw)
                how = (f"returned_{len(got)}_of_3_recordings")
            except Exception as e:      # noqa: BLE001
                how = "raised_" + type(e).__name__
            ctx.count(f"observed_read_{name}_{how}")
            ctx.outcome(("observe", name, how))
            # JUDGED: one real number "given once" must reach every recording, whatever its number type
            if name in ("dfn_once_numpy_float64", "dfn_once_numpy_float32", "dfn_once_numpy_int64",
                        "dfn_once_0d_array", "dfn_once_fraction"):
                ctx.count("validated")
                ok = got is not None and len(got) == 3 and all(abs(float(r.degrees_from_north) - 33.0) < 1e-9
                                                               for r in got)
                if not ok:
                    ctx.violation("C07:read():degrees_from_north-given-once-as-non-builtin-real-number:not-repeated",
                                  root, detail=dict(case=name, value=repr(kw["degrees_from_north"])),
                                  expected="3 recordings with degrees_from_north == 33", observed=how,
                                  explanation="a single real number given once for degrees_from_north was not handed "
                                              "to every recording")
    finally:
        shutil.rmtree(wd, ignore_errors=True)


# ---------------------------------------------------------------------------
# the same file extension for every format: which reader is used must follow from the content, never from
# the name or from what was read before

EXT_LABELS = ["peer3", "mseed1", "saf", "sac3", "gcf1", "mseed3"]
EXTENSIONS = [".dat", ".txt", ""]


def run_same_extension(root, ctx, tier):
    ext = root["ext"]
    first = root["first"]
    wd = tempfile.mkdtemp(prefix="hvmc-c07-")
    try:
        entries = {}
        for i, lab in enumerate(EXT_LABELS):
            e = build_pool_entry(wd, lab, i)
            single = e["single"]
            many = isinstance(single, (list, tuple))
            renamed = []
            for q in (single if many else [single]):
                q = str(q)
                new = os.path.splitext(q)[0] + ext
                os.rename(q, new)
                renamed.append(new)
            e["single"] = renamed if many else renamed[0]
            entries[lab] = e
        for second in EXT_LABELS:
            for third in (None,) if tier == "quick" and second != "sac3" else (None, "peer3", "saf"):
                seq = [first, second] + ([third] if third else [])
                for pos, lab in enumerate(seq):
                    e = entries[lab]
                    ctx.count("states")
                    ctx.count("transitions")
                    res = _call_single(e["single"], None, None)
                    detail = dict(family="same-extension", extension=ext, sequence_of_formats_read=seq, position=pos,
                                  files=[os.path.basename(str(q)) for q in (e["single"] if isinstance(e["single"], list)
                                                                            else [e["single"]])])
                    ctx.count("same_extension_reads")
                    judge_single(ctx, root, lab if lab not in ("peer3", "sac3", "gcf1") else lab[:-1], detail,
                                 e["exp"], res, None, cls=f"same-extension-after-{'-'.join(seq[:pos]) or 'nothing'}")
                ctx.nontrivial_case(("same-extension", ext, tuple(seq)))
    finally:
        shutil.rmtree(wd, ignore_errors=True)


# ---------------------------------------------------------------------------
# runner interface

def _family_roots(fam, k):
    sp = SPACES[fam]
    space = dict(sp["file"])
    space.update(sp["read"])
    fdims, rdims = list(sp["file"]), list(sp["read"])
    groups = {}
    order = []
    for case in product.deviations(space, k):
        fcfg = {d: case[d] for d in fdims}
        key = repr(fcfg)
        if key not in groups:
            groups[key] = dict(family=fam, file=fcfg, reads=[])
            order.append(key)
        groups[key]["reads"].append({d: case[d] for d in rdims})
    return [groups[kk] for kk in order]


def _read_lists(tier):
    pool = READ_POOL[tier]
    out = []
    for m in (1, 2, 3):
        for combo in itertools.product(pool, repeat=m):
            out.append(dict(family="read", recs=list(combo)))
    for recs in READ_MIXED[tier]:
        if not any(o["recs"] == recs for o in out):
            out.append(dict(family="read", recs=list(recs)))
    return out


def roots(tier, seed):
    out = []
    for fam in SPACES:
        out += _family_roots(fam, K[tier][fam])
    for fmt, variants in MALFORMED.items():
        for v in variants:
            out.append(dict(family="malformed", fmt=fmt, variant=v))
    out += _read_lists(tier)
    out += _history_roots(tier)
    out += _mixed_rate_roots(tier)
    out += [dict(family="examples", name=name) for name in EXAMPLES]
    out.append(dict(family="observe"))
    for ext in (EXTENSIONS[:1] if tier == "quick" else EXTENSIONS):
        for first in EXT_LABELS:
            out.append(dict(family="same-extension", ext=ext, first=first))
    return out


def run_root(root, ctx, tier):
    fam = root["family"]
    if fam == "malformed":
        run_malformed(root, ctx, tier)
    elif fam == "read":
        run_read(root, ctx, tier)
    elif fam == "examples":
        run_example(root, ctx, tier)
    elif fam == "history":
        run_history(root, ctx, tier)
    elif fam == "observe":
        run_observe(root, ctx, tier)
    elif fam == "same-extension":
        run_same_extension(root, ctx, tier)
    elif fam == "mixed-rates":
        run_mixed_rates(root, ctx, tier)
    else:
        run_family(root, ctx, tier)


def warm():
    import obspy                    # noqa: F401 - load the I/O plugins once, before forking
    wd = tempfile.mkdtemp(prefix="hvmc-c07-")
    try:
        for fam in ("mseed1", "gcf", "sac"):
            cfg = {d: v[0] for d, v in SPACES[fam]["file"].items()}
            for var in BUILDERS[fam](wd, cfg)[:1]:
                _call_single(var["fnames"], None, None)
    finally:
        shutil.rmtree(wd, ignore_errors=True)


def finalize(ctx, tier):
    c = ctx.counters
    if c.get("validated", 0) and not c.get("swap_visible", 0):
        ctx.violation("C07:harness:vacuous", None, explanation="no case in which a swap of ns and ew would be visible")
    if c.get("validated", 0) and not c.get("refused", 0):
        ctx.violation("C07:harness:vacuous-refusal", None, explanation="no malformed input was refused")
    if c.get("validated", 0) and not (c.get("history_wellformed_over_malformed", 0)
                                      and c.get("history_wellformed_over_other_wellformed", 0)):
        ctx.violation("C07:harness:vacuous-history", None,
                      explanation="no read of a well-formed content written over a malformed / another well-formed one")
    if c.get("validated", 0) and not (c.get("in_memory_reads", 0) and c.get("in_memory_second_reads", 0)
                                      and c.get("read_container_cases", 0) and c.get("shared_dict_calls", 0)
                                      and c.get("read_mixed_formats_one_dict", 0)):
        ctx.violation("C07:harness:vacuous-input-shapes", None,
                      explanation="no in-memory file / second read of a stream / per-recording values in another "
                                  "container than a list / shared options dict / mixed-format list was run")
    if c.get("validated", 0) and not (c.get("read_dfn_lists_with_none", 0) and c.get("mixed_rate_reads", 0)):
        ctx.violation("C07:harness:vacuous-round5", None,
                      explanation="no read() with a per-recording degrees_from_north list holding None / no recording "
                                  "whose traces differ in time step was run")
    if c.get("mixed_rate_reads", 0) != c.get("mixed_rate_inputs_refused", 0) + c.get("mixed_rate_inputs_accepted", 0):
        ctx.violation("C07:harness:mixed-rate-bookkeeping", None,
                      explanation="a read of a recording whose traces differ in time step was neither refused nor judged")
    ctx.notes["sizes"] = {fam: product.size({**SPACES[fam]["file"], **SPACES[fam]["read"]}, K[tier][fam])
                          for fam in SPACES}


def describe(tier):
    k = K[tier]
    return dict(
        rule="per format a space of file configurations (sample alphabet: distinct ramps per channel, int32 "
             "extremes, values inexact in float32; lengths 1/2/17/1000; rates; channel naming; byte order / "
             "line ending / header scaling / orientation metadata) x read options (degrees_from_north in "
             "{None,0,33,400,-45}, obspy_read_kwargs, file names as str/Path/tuple or the files as in-memory "
             "io.BytesIO / io.StringIO objects, the same stream objects read a second time for SAC, SAF, MiniShark "
             "and PEER); every case within k deviations "
             "from the default is run, and inside every file configuration ALL 6 orders of the traces in the file "
             "/ files in the list (SAF: 6 column layouts); plus every listed malformed variant (must raise) and "
             "read() on every list of 1-3 recordings from a pool (plus the listed lists that mix PEER / SAC with "
             "miniSEED / GCF recordings) x 6 kwargs shapes (None, three dicts without a 'format' entry given once, "
             "two per-recording lists) x 3 degrees_from_north shapes (covering the 9 None/one value/list "
             "combinations), each element compared with read_single called with that recording's own arguments "
             "and fresh dicts, and the number of recordings with the number of entries; the per-recording values "
             "also as tuple / ndarray / generator / iter(list) / map object and fnames as tuple (quick: one "
             "argument not a list at a time, paired with a subset of the shapes of the other, plus three cases "
             "with both; on lists of three only when the three recordings differ; thorough: full product of the "
             "two containers); for "
             "every dict shape also read_single for one recording after the other with ONE shared dict object; "
             "a failure of read() with the options given once that does not show when every recording is read "
             "by a read() call of its own is keyed one-options-dict-for-all; plus, per "
             "format, ALL histories of a fixed length over a step alphabet of well-formed and malformed contents "
             "written to the SAME file name(s) inside one process (write, read, overwrite, read ...; all 6 orders "
             "at every step), every read judged with the per-format oracle for what the files hold at that "
             "moment - a failure that the same content also shows under fresh file names is keyed as in the "
             "one-read families, one that needs the history is keyed rewritten-after-failed-read / "
             "rewritten-after-successful-read. A case is distinct by (family, file configuration, order, read "
             "options) resp. (format, history, order, read options).",
        bounds=dict(deviations=k, orders=6, malformed_variants={f: len(v) for f, v in MALFORMED.items()},
                    read_pool=READ_POOL[tier], read_list_lengths=[1, 2, 3], read_mixed_lists=READ_MIXED[tier],
                    read_kwargs_shapes=KW_SHAPES, read_kwargs_containers=KW_CONTAINERS,
                    read_degrees_from_north_containers=DFN_CONTAINERS,
                    read_calls_per_list_of_three_different_recordings=len(_read_cases(tier, ["a", "b", "c"])),
                    in_memory=dict(first_read=[f for f in SPACES if "memory" in SPACES[f]["read"]["pathtype"]],
                                   second_read_of_the_same_streams=list(REWINDING)),
                    history={fam: dict(steps=_hist_alphabet(fam, tier)[0], length=_hist_alphabet(fam, tier)[1]["depth"],
                                       sequences=len(_hist_alphabet(fam, tier)[0]) ** _hist_alphabet(fam, tier)[1]["depth"],
                                       reads=HIST_READS[tier]) for fam in SPACES},
                    space_sizes={fam: product.size({**SPACES[fam]["file"], **SPACES[fam]["read"]}, k[fam])
                                 for fam in SPACES}),
        exhaustive=True,
        assumptions=[
            "miniSEED, SAC and GCF files are written by obspy (trusted); Steim1/2, INT32, FLOAT32/64 encodings only, "
            "no gaps or multi-segment traces",
            "the MiniShark layout (four '#key:<TAB>value' header entries, body vertical<TAB>north<TAB>east) is taken "
            "from the reader's own regular expressions - the example file of this checkout is empty",
            "SAC stores the time step in single precision and obspy rounds it to microseconds: dt is compared to "
            "1e-4 relative for SAC, 1e-12 otherwise",
            "SAF with CH1 = E: NORTH_ROT+90 and NORTH_ROT-90 are both accepted; SAF layouts whose CH1 is the "
            "vertical may be refused when no explicit orientation is given",
            "PEER codes equidistant from north: either horizontal may be north, but ns and ew must be different files",
            "PEER samples are written in the spellings '.1234567E-03' (mantissa in [0.1,1), no leading zero), "
            "'1.234567e-04' (lower-case e), '12.34567E-05' and '1234.567E-7' (2 / 4 integer digits; exponent without "
            "padding or '+'): all denote float(token); numeric PEER codes that are equal modulo 360 (360 with 0 / 00 "
            "/ 000, both ways round, 3 positions of the vertical) count as a duplicated horizontal component",
            "'to single precision' = relative error <= 2**-22 per sample for SAF and MiniShark",
            "SAF SAMP_FREQ and NORTH_ROT are real numbers in the SESAME standard: one fractional value of each "
            "(62.5 Hz, 15.5 degrees) is part of the SAF alphabet, reported under its own input class",
            "explicit degrees_from_north is compared modulo 360 (x % 360 in [0, 360))",
            "a three-file list in which one file holds surplus traces is only counted, not judged",
            "in-memory files: io.BytesIO for miniSEED / SAC / GCF, io.StringIO (text as open(path).read() returns "
            "it, i.e. with translated line endings) for SAF / MiniShark / PEER, positioned at the start, taken as a "
            "supported way of handing a file over because the readers test for these types; NOT judged, only "
            "counted (observed_in_memory_*): an in-memory GCF file read with the default options (refused today: "
            "the miniSEED trial leaves the stream in the middle and the GCF reader does not rewind) and a second "
            "read of the same miniSEED / GCF stream object (those readers do not rewind; refused today)",
            "per-recording arguments of read(): list, tuple, numpy float array (degrees_from_north), generator, "
            "iter(list) and map object are taken as 'iterable of floats / dicts'; numpy scalars other than float64, "
            "Fraction / Decimal given once (TypeError today), per-recording lists shorter than fnames (recordings "
            "silently dropped today), a non-dict mapping given once and fnames as a generator or ndarray are only "
            "observed (family 'observe', counters observed_read_*)",
            "whether the caller's options dict is left as it was is NOT judged (the SAC reader records the byte "
            "order it tries in the dict it is given, today; counted as observed_callers_options_dict_changed_*); "
            "judged is that every recording comes out as with a dict of its own",
            "the repository's example files are read from /repo/test/data/input when present",
            "histories: every sequence runs in its own fresh directory inside the worker process that also runs "
            "other roots, so hidden state keyed by something other than the path may carry over between sequences; "
            "bounded to the listed step alphabet and length, one set of file names per sequence",
        ])


_describe_base = describe


def describe(tier):     # noqa: F811 - the base description plus what later rounds added to the space
    d = _describe_base(tier)
    d["rule"] = d["rule"] + " " + (
        "Per-recording degrees_from_north lists with None entries: for every list of recordings handed to read(), "
        "ALL lists over {a number, None} of that length with at least one None (2**m - 1 lists; None = use that "
        "file's own orientation metadata, exactly as None given once) with the options None (quick; thorough: with "
        "all 6 options shapes), the alternating list [None, x, None] and its complement with per-recording options, "
        "and the alternating list as tuple / generator (thorough: every container, numpy array of dtype object); "
        "each element compared with read_single(recording_i, options_i, None or x_i), keys "
        "read():per-recording-degrees_from_north-with-None-entries. "
        "Family mixed-rates: ONE recording whose three traces / files do not share one time step, for miniSEED in "
        "one and in three files, SAC, GCF and PEER (DT header): every assignment of two rates to (vt, ns, ew) that "
        "is not constant (6) x {all traces the same sample count, all traces the same duration} (PEER: same count) "
        "x all 6 orders x the listed read options; refusing is accepted and counted (the statement does not list it "
        "among the demanded refusals), a recording that is returned must hold each channel's samples with THAT "
        "channel's stored time step, and refused / the returned recording must be the same for all 6 orders; keys "
        "read_single:<fmt>:traces-of-one-recording-with-different-time-steps:{samples,dt,degrees_from_north,"
        "order-dependent}. ")
    d["bounds"]["read_degrees_from_north_lists_with_None"] = dict(
        lists_per_length={m: len(_none_masks(m)) for m in (1, 2, 3, 4)}, values_for_the_other_entries=DFN_LIST)
    d["bounds"]["mixed_rates"] = dict(formats=MIXED_FAMS, rate_pairs=MIXED_RATE_PAIRS[tier], n=MIXED_N[tier],
                                      lengths=MIXED_LENGTHS, reads=MIXED_READS[tier],
                                      degrees_from_north=MIXED_DFN[tier], orders=6,
                                      roots=len(_mixed_rate_roots(tier)))
    d["assumptions"] = d["assumptions"] + [
        "a None entry inside a per-recording degrees_from_north list means what the documented default None means "
        "for that recording (file metadata, else 0)",
        "traces of one recording with different sampling rates: refusal is accepted, not demanded; on the unchanged "
        "library every such input is refused (counter mixed_rate_inputs_refused), so the samples / dt oracles of "
        "that family only come into play when a change makes the readers accept such input",
    ]
    d["rule"] = d["rule"] + 'Family same-extension: the files of six formats are renamed to one extension (.dat; thorough also .txt and none) and every ordered pair (and some triples) of formats is read in one process, each read judged against its expectation.'
    return d
