"""C14 - spatial weights are nearest-sensor area fractions; montecarlo_fn uses them.

E2.  Three families of root cases:

* ``vor``  - one sensor layout (a 4/5/6-subset of a 3x3 lattice, jittered or
  regular); under it every case of the space
  {sensors outside the boundary} x {boundary} x {sensor order} x {translation}
  x {uniform scale} within 2 deviations of the default (quick) or the full
  product (thorough).  Every case runs the real ``HvsrSpatial.spatial_weights``
  and is compared with ``ref.voronoi`` (exact rational half-plane clipping of
  exactly the floats handed to hvsrpy).
* ``line`` - (nearly) collinear arrays: the area fractions are parallel strips
  and perfectly well defined; kept apart (own violation keys) because the
  Qhull/far-point machinery is known to be fragile there.
* ``mc``   - ``montecarlo_fn`` for one (generator distribution, spatial
  distribution, generator count, means, stddevs, weights) and under it every
  n_realizations x seed; statistics recomputed from the returned realisations
  with math.fsum.
"""
import itertools
import math
import traceback
from fractions import Fraction

import numpy as np

from hvsrpy.hvsr_spatial import HvsrSpatial, montecarlo_fn

from hvmc.engine import product
from hvmc.engine.core import close, bitwise_equal, same_float
from hvmc.ref import voronoi as RV
from hvmc.ref import stats as RS

PROPERTY = "C14"
MAX_JOBS = 16

# ---------------------------------------------------------------------------
# alphabets (all coordinates dyadic rationals -> exact in binary floating point)

# fixed jitter in 1/64 of the lattice pitch, per lattice node (i, k)
JITTER = {(0, 0): (3, -2), (1, 0): (-1, 4), (2, 0): (2, 3),
          (0, 1): (-4, 1), (1, 1): (1, -3), (2, 1): (4, 2),
          (0, 2): (-2, -4), (1, 2): (3, 1), (2, 2): (-3, -1)}
EXTENT = 2.0          # pitch 1, 3x3 lattice


def lattice(family):
    j = 1 if family == "jitter" else 0
    return [(i + j * JITTER[(i, k)][0] / 64.0, k + j * JITTER[(i, k)][1] / 64.0)
            for k in range(3) for i in range(3)]


# every boundary contains the whole lattice strictly; the point order is
# deliberately not a polygon traversal for "redundant" (hull must be taken)
BOUNDARIES = {
    "square": [(-0.5, -0.5), (2.5, -0.5), (2.5, 2.5), (-0.5, 2.5)],
    "triangle": [(1.0, 6.0), (4.5, -1.0), (-2.5, -1.0)],                       # clockwise
    "hexagon": [(3.5, 1.0), (2.25, 3.25), (-0.25, 3.25), (-1.5, 1.0), (-0.25, -1.25), (2.25, -1.25)],
    # quadrilateral given with interior points, a point on an edge, a repeated corner
    "redundant": [(1.0, 1.0), (-1.0, -0.75), (1.0, -0.625), (3.0, -0.5), (0.25, 0.75),
                  (2.75, 3.0), (-0.5, 2.5), (1.5, 2.0), (3.0, -0.5)],
}
BOUNDARY_NAMES = ["hexagon", "square", "triangle", "redundant"]

# strictly outside all four hulls, but inside the bounding boxes of the
# triangle and the hexagon (the second one also of the quadrilateral)
OUTSIDE = [(-1.3125, 3.125), (2.90625, 2.9375)]

ORDERS = ["id", "rev"] + [f"rot{r}" for r in range(1, 8)]
TRANSLATIONS = [0.0, 1e2, 1e4]        # in units of the array extent
SCALES = [1.0, 1e-3, 1e3]

VOR_SPACE = dict(outside=[0, 1, 2], boundary=BOUNDARY_NAMES, order=ORDERS,
                 translation=TRANSLATIONS, scale=SCALES)


def place(points, translation, scale):
    tx = translation * EXTENT
    ty = -0.75 * translation * EXTENT
    return [(scale * (x + tx), scale * (y + ty)) for (x, y) in points]


def base_sensors(root, n_out):
    L = lattice(root["family"])
    s = [L[i] for i in root["subset"]]
    if n_out >= 1:
        s.insert(1, OUTSIDE[0])
    if n_out >= 2:
        s.append(OUTSIDE[1])
    return s


def permutation(order, n):
    """perm[j] = original position of the sensor placed at position j; None if n/a."""
    if order == "id":
        return list(range(n))
    if order == "rev":
        return list(range(n - 1, -1, -1))
    r = int(order[3:])
    if r >= n:
        return None
    return [(j + r) % n for j in range(n)]


def rtol_for(translation):
    return 1e-6 if translation >= 1e4 else 1e-9


# ---------------------------------------------------------------------------
# running the real code

def call_weights(sensors, boundary):
    """-> ("ok", weights list, indices list) or ("raised", type, text)."""
    try:
        hs = HvsrSpatial(np.array(sensors, dtype=float))
        w, idx = hs.spatial_weights(np.array(boundary, dtype=float))
        return ("ok", [float(v) for v in np.asarray(w).ravel()], [int(i) for i in idx])
    except Exception as e:      # noqa: BLE001 - judged by the caller
        return ("raised", type(e).__name__, (str(e).strip().splitlines() or [""])[0][:200],
                traceback.format_exc()[-1200:])


def judge_weights(res, ref, rtol):
    """Compare one spatial_weights result with the exact tessellation.

    Returns a list of (oracle tag, explanation, expected, observed)."""
    exp_idx = ref["indices"]
    exp_w = {i: float(ref["weights"][i]) for i in exp_idx}
    if res[0] == "raised":
        return [("raises", f"spatial_weights raised {res[1]}: {res[2]}", exp_w, list(res[1:3]))]
    _, w, idx = res
    out = []
    if len(w) != len(idx):
        return [("shape", "number of weights differs from number of indices", len(idx), len(w))]
    if sorted(idx) != sorted(exp_idx) or len(set(idx)) != len(idx):
        out.append(("indices", "returned indices are not the sensors strictly inside the hull",
                    exp_idx, idx))
        return out
    if any((not math.isfinite(v)) or v < 0 for v in w):
        out.append(("negative", "a weight is negative or not finite", exp_w, w))
    if not abs(math.fsum(w) - 1.0) <= rtol:
        out.append(("sum", f"weights sum to {math.fsum(w)!r}, not 1", 1.0, math.fsum(w)))
    bad = [(i, v, exp_w[i]) for i, v in zip(idx, w)
           if not abs(v - exp_w[i]) <= rtol * exp_w[i] + 1e-15]
    if bad:
        out.append(("weights-vs-ref", "weight differs from the exact nearest-sensor area fraction "
                    f"(first: sensor {bad[0][0]}: {bad[0][1]!r} vs {bad[0][2]!r})",
                    exp_w, dict(zip(idx, w))))
    return out


# ---------------------------------------------------------------------------
# vor roots

class VorRoot:
    def __init__(self, root, ctx):
        self.root = root
        self.ctx = ctx
        self.cls = "generic" if root["family"] == "jitter" else "cocircular"
        self.refs = {}
        self.impl = {}

    def geometry(self, case):
        s = base_sensors(self.root, case["outside"])
        perm = permutation(case["order"], len(s))
        if perm is None:
            return None
        s = [s[p] for p in perm]
        sensors = place(s, case["translation"], case["scale"])
        boundary = place(BOUNDARIES[case["boundary"]], case["translation"], case["scale"])
        return sensors, boundary, perm

    def ref(self, case):
        """Exact tessellation for the identity order of this (outside, boundary, T, s)."""
        k = (case["outside"], case["boundary"], case["translation"], case["scale"])
        if k not in self.refs:
            sensors, boundary, _ = self.geometry(dict(case, order="id"))
            t = RV.tessellate(sensors, boundary)
            # knife edge: a sensor within 1e-9 extent of the boundary
            lim = Fraction(1e-9 * EXTENT * case["scale"]) ** 2
            t["knife"] = any(RV.boundary_clearance(p, t["hull"]) <= lim for p in sensors)
            self.refs[k] = t
        return self.refs[k]

    def run_impl(self, case):
        k = tuple(case[d] for d in VOR_SPACE)
        if k not in self.impl:
            g = self.geometry(case)
            self.ctx.count("transitions")
            self.impl[k] = call_weights(g[0], g[1])
        return self.impl[k]

    def violation(self, oracle, case, expl, expected, observed):
        g = self.geometry(case)
        self.ctx.violation(f"C14:spatial_weights:{self.cls}:{oracle}", self.root,
                           detail=dict(case=case, sensors=g[0], boundary=g[1],
                                       call="HvsrSpatial(sensors).spatial_weights(boundary)"),
                           expected=expected, observed=observed, explanation=expl)

    def run_case(self, case):
        ctx = self.ctx
        g = self.geometry(case)
        if g is None:
            ctx.count("order_not_applicable")
            return
        sensors, boundary, perm = g
        ctx.count("states")
        ref = self.ref(case)
        if ref["knife"]:
            ctx.count("knife_edge")
            return
        rtol = rtol_for(case["translation"])
        res = self.run_impl(case)
        # exact result re-indexed to the positions in the permuted sensor list
        inv = {orig: j for j, orig in enumerate(perm)}
        pref = dict(indices=sorted(inv[i] for i in ref["indices"]),
                    weights={inv[i]: ref["weights"][i] for i in ref["indices"]})
        problems = judge_weights(res, pref, rtol)
        ctx.count("validated")
        for tag, expl, exp, obs in problems:
            self.violation(tag, case, expl, exp, obs)
        n_in = len(ref["indices"])
        if n_in != len(self.root["subset"]):
            raise AssertionError("alphabet: unexpected number of sensors inside the boundary")
        ctx.count("dropped_sensors", len(sensors) - n_in)
        if res[0] != "ok" or problems:
            ctx.outcome((self.cls, "problem", [p[0] for p in problems]))
            return
        got = {perm[j]: v for v, j in zip(res[1], res[2])}        # original id -> weight
        # invariances, compared directly with the untransformed / unpermuted run
        base_case = dict(case, order="id", translation=TRANSLATIONS[0], scale=SCALES[0])
        if base_case != case:
            b = self.run_impl(base_case)
            if b[0] == "ok" and len(b[1]) == len(b[2]):
                bmap = dict(zip(b[2], b[1]))
                if set(bmap) == set(got):
                    which = [d for d in ("order", "translation", "scale") if case[d] != base_case[d]]
                    worst = max(abs(got[i] - bmap[i]) / bmap[i] for i in got if bmap[i] > 0)
                    if not worst <= 2 * rtol:
                        self.violation("invariance-" + "+".join(which), case,
                                       "weights (as a mapping sensor -> weight) change under "
                                       + ", ".join(which), bmap, got)
                    ctx.count("invariance_compared")
                    if case["order"] != "id" and res[2] != b[2]:
                        ctx.count("order_changes_indices")
        if case["order"] == "id" and case["translation"] == 0.0 and case["scale"] == 1.0:
            wl = [float(ref["weights"][i]) for i in ref["indices"]]
            ctx.outcome((self.cls, [round(v, 9) for v in wl]))
            if max(wl) - min(wl) > 1e-6:
                ctx.nontrivial_case((self.root["family"], self.root["subset"], case["outside"],
                                     case["boundary"]))
            self.check_regions(case, sensors, boundary, ref)
            if len(ctx.samples) < 2:
                ctx.sample(dict(root=self.root, case=case, sensors=sensors, boundary=boundary,
                                exact_weights={str(i): str(ref["weights"][i]) for i in ref["indices"]},
                                hvsrpy_weights=res[1], hvsrpy_indices=res[2]))

    def check_regions(self, case, sensors, boundary, ref):
        """bounded_voronoi: every returned region lies in the hull, in the nearest-sensor
        cell of its sensor, and has the area of that cell."""
        ctx = self.ctx
        ctx.count("transitions")
        try:
            regions, idx = HvsrSpatial(np.array(sensors)).bounded_voronoi(np.array(boundary))
        except Exception as e:      # noqa: BLE001
            self.violation("bounded_voronoi-raises", case, f"bounded_voronoi raised {type(e).__name__}: {e}",
                           None, type(e).__name__)
            return
        idx = [int(i) for i in idx]
        if sorted(idx) != ref["indices"] or len(regions) != len(idx):
            self.violation("bounded_voronoi-indices", case,
                           "bounded_voronoi indices are not the sensors strictly inside the hull",
                           ref["indices"], idx)
            return
        hull = [(float(x), float(y)) for x, y in ref["hull"]]
        harea = float(ref["hull_area"])
        tol = 1e-9 * EXTENT * EXTENT
        for reg, i in zip(regions, idx):
            reg = [(float(x), float(y)) for x, y in np.asarray(reg)]
            area = abs(float(RV.shoelace([(Fraction(x), Fraction(y)) for x, y in reg])))
            exp = float(ref["weights"][i])
            if not abs(area / harea - exp) <= 1e-9 * exp:
                self.violation("bounded_voronoi-area", case,
                               f"area of the region returned for sensor {i} is not its cell's area",
                               exp * harea, area)
            px, py = sensors[i]
            for (x, y) in reg:
                inside = all((bx - ax) * (y - ay) - (by - ay) * (x - ax) >= -tol
                             for (ax, ay), (bx, by) in zip(hull, hull[1:] + hull[:1]))
                d0 = (x - px) ** 2 + (y - py) ** 2
                nearest = all(d0 <= (x - sensors[j][0]) ** 2 + (y - sensors[j][1]) ** 2 + tol
                              for j in ref["indices"])
                if not (inside and nearest):
                    self.violation("bounded_voronoi-vertex", case,
                                   f"vertex ({x}, {y}) of the region of sensor {i} is "
                                   + ("outside the hull" if not inside else "closer to another sensor"),
                                   None, reg)
                    break
        ctx.count("regions_checked", len(idx))


def run_vor(root, ctx, tier):
    vr = VorRoot(root, ctx)
    for case in product.deviations(VOR_SPACE, root["k"]):
        vr.run_case(case)


# ---------------------------------------------------------------------------
# line roots: (nearly) collinear arrays

LINE_EPS = [0.0, 2.0 ** -6, 2.0 ** -12, 2.0 ** -20]
LINE_DIRS = {"horizontal": ((0.0, 1.0), (1.0, 0.0), (0.0, 1.0)),       # origin, along, across
             "diagonal": ((0.0, 0.0), (1.0, 1.0), (-1.0, 1.0))}
LINE_POS = [(0.0, 0.0), (0.5, 1.0), (1.25, -0.5), (2.0, 0.0), (1.625, 0.25)]    # (along, across/eps)


def line_sensors(direction, eps, n):
    (ox, oy), (ax, ay), (cx, cy) = LINE_DIRS[direction]
    return [(ox + t * ax + eps * c * cx, oy + t * ay + eps * c * cy) for t, c in LINE_POS[:n]]


def run_line(root, ctx, tier):
    eps = root["eps"]
    cls = "collinear-array" if eps == 0.0 else "near-collinear-array"
    for n in (4, 5):
        for bname in BOUNDARY_NAMES:
            for scale in (1.0, 1e3):
                case = dict(direction=root["direction"], eps=eps, n=n, boundary=bname, scale=scale)
                sensors = place(line_sensors(root["direction"], eps, n), 0.0, scale)
                boundary = place(BOUNDARIES[bname], 0.0, scale)
                ctx.count("states")
                ref = RV.tessellate(sensors, boundary)
                if len(ref["indices"]) != n:
                    raise AssertionError("alphabet: line sensors must be inside the boundary")
                ctx.count("transitions")
                res = call_weights(sensors, boundary)
                problems = judge_weights(res, ref, 1e-9)
                ctx.count("validated")
                ctx.count("line_cases")
                ctx.outcome((cls, scale, [p[0] for p in problems] or
                             [round(float(ref["weights"][i]), 9) for i in ref["indices"]]))
                if not problems:
                    ctx.count("line_cases_agreeing")
                    ctx.nontrivial_case(("line", case))
                    continue
                # one key per input class: raising, wrong weights and a wrong sum are
                # the same failure of the tessellation on this class of layouts
                expl = "; ".join(p[1] for p in problems)
                exp = {i: float(ref["weights"][i]) for i in ref["indices"]}
                obs = dict(zip(res[2], res[1])) if res[0] == "ok" else list(res[1:3])
                ctx.violation(f"C14:spatial_weights:{cls}:tessellation", root,
                              detail=dict(case=case, sensors=sensors, boundary=boundary,
                                          oracles_failed=[p[0] for p in problems],
                                          largest_circumradius_of_consecutive_sensors=_max_circumradius(sensors),
                                          call="HvsrSpatial(sensors).spatial_weights(boundary)"),
                              expected=exp, observed=obs,
                              explanation=("all sensors inside the boundary lie on one straight line (the "
                                           "nearest-sensor cells are parallel strips): " if eps == 0.0 else
                                           f"sensors deviate by {eps:g} x scale from one straight line (the "
                                           "nearest-sensor area fractions are well conditioned there): ")
                              + expl)


def _max_circumradius(sensors):
    """Largest circumradius of three consecutive sensors ('inf' if collinear); reported
    only to make the counterexample readable, never used in a verdict."""
    best = 0.0
    sensors = sorted(sensors)
    for a, b, c in zip(sensors, sensors[1:], sensors[2:]):
        la = math.dist(b, c)
        lb = math.dist(a, c)
        lc = math.dist(a, b)
        area2 = abs((b[0] - a[0]) * (c[1] - a[1]) - (b[1] - a[1]) * (c[0] - a[0]))
        if area2 == 0:
            return "inf"
        best = max(best, la * lb * lc / (2 * area2))
    return best


# ---------------------------------------------------------------------------
# montecarlo_fn roots

DISTS = ("lognormal", "normal")
MC_MEDIANS = {"equal": [1.5, 1.5, 1.5, 1.5], "spread": [0.875, 1.5, 2.25, 3.0],
              "wide": [0.75, 5.0, 12.0, 1.25]}
MC_STDS = {"zero": [0.0, 0.0, 0.0, 0.0], "small": [0.05, 0.08, 0.02, 0.06],
           "mixed": [0.0, 0.08, 0.0, 0.05]}
MC_WEIGHTS = {"equal": [1.0, 1.0, 1.0, 1.0], "fractions": [0.1, 0.2, 0.3, 0.4],
              "unnormalised": [2.0, 5.0, 1.0, 8.0], "with-zero": [1.0, 2.0, 0.0, 1.0],
              "voronoi": None}
MC_NREAL = [1, 10, 1000]
MC_FACTORS = [1e-3, 7.0]
MC_SPACE = dict(dg=list(DISTS), ds=list(DISTS), n=[4, 2], medians=list(MC_MEDIANS),
                stds=list(MC_STDS), weights=list(MC_WEIGHTS))


def _rng(seed):
    return np.random.Generator(np.random.PCG64(seed))


def voronoi_weights(n):
    """Weights produced by the real tessellation (links the two halves of the property)."""
    L = lattice("jitter")
    sub = [0, 2, 4, 7] if n == 4 else [0, 2, 4, 7, 5]
    w, idx = HvsrSpatial(np.array([L[i] for i in sub])).spatial_weights(np.array(BOUNDARIES["hexagon"]))
    return [float(v) for v in w][:n]


def _to_space(v, space):
    return math.log(v) if space == "lognormal" else float(v)


def flat_stats(rows, weights, space):
    """Weighted mean / weighted standard deviation of all realisations, realisation j of
    generator i carrying weight w_i / (n_realisations * sum w)   (ref.stats, math.fsum)."""
    n = len(rows[0])
    sw = math.fsum(weights)
    vals, ws = [], []
    for r, w in zip(rows, weights):
        vals.extend(r)
        ws.extend([w / sw / n] * n)
    # ref.stats takes values in linear units and converts itself
    return RS.wmean(vals, ws, space), RS.wstd(vals, ws, space)


def run_mc(root, ctx, tier):
    dg, ds, n = root["dg"], root["ds"], root["n"]
    med = MC_MEDIANS[root["medians"]][:n]
    sd = MC_STDS[root["stds"]][:n]
    if root["weights"] == "voronoi":
        ctx.count("transitions")
        wts = voronoi_weights(n)
    else:
        wts = MC_WEIGHTS[root["weights"]][:n]
    gmeans = [_to_space(m, dg) for m in med]          # lambda_i or mu_i
    seeds = range(root["seeds"])
    site = f"C14:montecarlo_fn:{dg}->{ds}"

    def call(weights, nreal, seed):
        ctx.count("transitions")
        try:
            m, s, r = montecarlo_fn(np.array(gmeans), np.array(sd), np.array(weights),
                                    distribution_generators=dg, distribution_spatial=ds,
                                    n_realizations=nreal, rng=_rng(seed))
            return ("ok", float(m), float(s), np.array(r, dtype=float))
        except Exception as e:      # noqa: BLE001
            return ("raised", type(e).__name__, str(e)[:200], traceback.format_exc()[-1200:])

    for nreal in MC_NREAL:
        for seed in seeds:
            case = dict(n_realizations=nreal, seed=seed, generator_means=gmeans,
                        generator_stddevs=sd, generator_weights=wts)
            ctx.count("states")

            def bad(oracle, expl, expected=None, observed=None, extra=None):
                ctx.violation(f"{site}:{oracle}", root,
                              detail=dict(case=dict(case, **(extra or {})),
                                          call="montecarlo_fn(means, stddevs, weights, dg, ds, "
                                               "n_realizations, rng=Generator(PCG64(seed)))"),
                              expected=expected, observed=observed, explanation=expl)

            res = call(wts, nreal, seed)
            if res[0] == "raised":
                bad("raises", f"montecarlo_fn raised {res[1]}: {res[2]}", observed=list(res[1:]))
                continue
            _, mean, std, real = res
            if real.shape != (n, nreal):
                bad("shape", "realisations are not (generators, n_realizations)", [n, nreal],
                    list(real.shape))
                continue
            if not np.all(np.isfinite(real)) or (np.any(real <= 0) and "lognormal" in (dg, ds)):
                ctx.count("skipped_nonpositive")      # a normal generator produced a value <= 0
                continue
            rows = [[float(v) for v in r] for r in real]
            # 1. statistics == weighted statistics of the returned realisations in space ds
            em, es = flat_stats(rows, wts, ds)
            ctx.count("validated")
            atol = 1e-12 * max(1.0, abs(em))
            if not close(mean, em, rtol=1e-9, atol=atol):
                bad("mean-vs-realisations", "returned mean is not the weighted mean of the returned "
                    f"realisations in {ds} space", em, mean)
            if math.isnan(es):
                ctx.count("std_undefined")        # a single effective point: 1 - sum w'^2 == 0
            elif not close(std, es, rtol=1e-9, atol=atol):
                bad("std-vs-realisations", "returned standard deviation is not the weighted standard "
                    f"deviation of the returned realisations in {ds} space", es, std)
            # non-vacuity: would an unweighted / differently normalised statistic differ?
            um, us = flat_stats(rows, [1.0] * n, ds)
            if not close(um, em, rtol=1e-6):
                ctx.count("mc_weight_sensitive")
                ctx.nontrivial_case(("mc", root, nreal, seed))
            alt = _alt_std(rows, wts, ds)
            if not close(alt, es, rtol=1e-6, atol=1e-12):
                ctx.count("mc_std_definition_sensitive")
            # 2. same seeded generator -> identical triple
            rep = call(wts, nreal, seed)
            if not (rep[0] == "ok" and same_float(rep[1], mean) and same_float(rep[2], std)
                    and bitwise_equal(rep[3], real)):
                bad("reproducible", "two calls with equal seeded generators differ",
                    [mean, std], list(rep[1:3]))
            # 3. weights * c
            for c in MC_FACTORS:
                sc = call([w * c for w in wts], nreal, seed)
                if sc[0] != "ok":
                    bad("weights-scaled", f"raised with all weights multiplied by {c}",
                        observed=list(sc[1:3]), extra=dict(factor=c))
                    continue
                if not (close(sc[1], mean, rtol=1e-9, atol=atol) and close(sc[2], std, rtol=1e-9, atol=atol)
                        and bitwise_equal(sc[3], real)):
                    bad("weights-scaled", f"result changes when all weights are multiplied by {c}",
                        [mean, std], [sc[1], sc[2]], extra=dict(factor=c))
            # 4. realisations belong to their generators (gross: 8 sigma of the row mean)
            for i in range(n):
                g = [_to_space(v, dg) for v in rows[i]]
                rm = math.fsum(g) / nreal
                lim = 8.0 * sd[i] / math.sqrt(nreal) + 1e-12 * max(1.0, abs(gmeans[i]))
                ok = abs(rm - gmeans[i]) <= lim
                if ok and nreal >= 1000 and sd[i] > 0:
                    rs = math.sqrt(math.fsum((v - rm) ** 2 for v in g) / (nreal - 1))
                    ok = 0.7 * sd[i] <= rs <= 1.3 * sd[i]
                if ok and sd[i] == 0.0:
                    ok = max(rows[i]) - min(rows[i]) <= 1e-12 * abs(med[i])
                if not ok:
                    bad("realisations-vs-generator",
                        f"realisations of generator {i} are not draws around its mean "
                        f"{gmeans[i]} (+- {sd[i]}) in {dg} space", gmeans[i], rm, extra=dict(generator=i))
                    break
            # 5. zero generating stddev -> closed form
            if all(s == 0.0 for s in sd):
                ctx.count("closed_form_cases")
                x = [_to_space(m, ds) for m in med]
                sw = math.fsum(wts)
                nw = [w / sw for w in wts]
                cm = math.fsum(w * v for w, v in zip(nw, x))
                den = 1.0 - math.fsum(w * w for w in nw) / nreal
                cs = (math.sqrt(math.fsum(w * (v - cm) ** 2 for w, v in zip(nw, x)) / den)
                      if den > 1e-12 else float("nan"))
                cmean = math.exp(cm) if ds == "lognormal" else cm
                if not close(mean, cmean, rtol=1e-9):
                    bad("zero-std-mean", "with zero generating stddevs the mean is not the closed-form "
                        f"weighted {'log-' if ds == 'lognormal' else ''}mean of the generator means",
                        cmean, mean)
                if not math.isnan(cs) and not close(std, cs, rtol=1e-9, atol=1e-12):
                    bad("zero-std-std", "with zero generating stddevs the standard deviation is not the "
                        "closed-form weighted standard deviation of the generator means", cs, std)
                for i in range(n):
                    if not close(rows[i], [med[i]] * nreal, rtol=1e-12):
                        bad("zero-std-realisations", f"realisations of generator {i} are not all equal "
                            f"to its mean {med[i]} (linear units)", med[i], rows[i][:3],
                            extra=dict(generator=i))
                        break
            ctx.outcome((dg, ds, round(mean, 9), round(std, 9)))
            if len(ctx.samples) < 4 and seed == 1 and nreal == 10:
                ctx.sample(dict(root=root, case=case, mean=mean, std=std, expected_mean=em,
                                expected_std=es, first_realisations=[r[:2] for r in rows]))


def _alt_std(rows, weights, space):
    """A plausible *different* definition (sum w^2 not divided by n_realisations)."""
    n = len(rows[0])
    sw = math.fsum(weights)
    nw = [w / sw for w in weights]
    x = [[_to_space(v, space) for v in r] for r in rows]
    m = math.fsum(w * math.fsum(r) for w, r in zip(nw, x)) / n
    num = math.fsum(w * math.fsum((v - m) ** 2 for v in r) for w, r in zip(nw, x)) / n
    den = 1.0 - math.fsum(w * w for w in nw)
    return math.sqrt(num / den) if den > 0 else float("nan")


# ---------------------------------------------------------------------------
# runner interface

def check_alphabet():
    """The jittered lattice is in general position; the regular one is not."""
    J = lattice("jitter")
    assert not any(RV.collinear(*t) for t in itertools.combinations(J, 3))
    assert not any(RV.cocircular(*q) for q in itertools.combinations(J, 4))
    R = lattice("regular")
    assert any(RV.cocircular(*q) for q in itertools.combinations(R, 4))
    for b in BOUNDARIES.values():
        hull = RV.convex_hull(b)
        assert all(RV.strictly_inside(p, hull) for p in J + R)
        assert not any(RV.strictly_inside(p, hull) for p in OUTSIDE)
    for name in ("triangle", "hexagon"):
        xs = [p[0] for p in BOUNDARIES[name]]
        ys = [p[1] for p in BOUNDARIES[name]]
        assert all(min(xs) < x < max(xs) and min(ys) < y < max(ys) for x, y in OUTSIDE)


def roots(tier, seed):
    check_alphabet()
    out = []
    for eps in LINE_EPS:
        for d in LINE_DIRS:
            out.append(dict(kind="line", eps=eps, direction=d))
    for case in product.deviations(MC_SPACE, None):
        out.append(dict(kind="mc", seeds=10 if tier == "quick" else 50, **case))
    for fam in ("jitter", "regular"):
        dev = None if tier != "quick" else (2 if fam == "jitter" else 1)
        for k in (4, 5, 6):
            for sub in itertools.combinations(range(9), k):
                out.append(dict(kind="vor", family=fam, subset=list(sub), k=dev))
    return out


def run_root(root, ctx, tier):
    if root["kind"] == "vor":
        run_vor(root, ctx, tier)
    elif root["kind"] == "line":
        run_line(root, ctx, tier)
    else:
        run_mc(root, ctx, tier)


def finalize(ctx, tier):
    c = ctx.counters
    need = ["dropped_sensors", "order_changes_indices", "invariance_compared", "regions_checked",
            "mc_weight_sensitive", "mc_std_definition_sensitive", "closed_form_cases",
            "line_cases_agreeing"]
    missing = [k for k in need if not c.get(k, 0)]
    # the counters are only advanced by cases that pass; with violations outside the
    # collinear families on record they say nothing about vacuity
    if any(":collinear" not in k and ":near-collinear" not in k for k in ctx.violation_counts):
        return
    if missing or len(ctx.outcomes) < 100:
        ctx.violation("C14:vacuous", dict(kind="finalize"),
                      detail=dict(missing=missing, outcomes=len(ctx.outcomes)),
                      explanation="a non-vacuity counter stayed at zero: the driver cannot fail there")


def describe(tier):
    k = ("every case within 2 (jittered lattice) / 1 (regular lattice) deviations of the default"
         if tier == "quick" else "the full product")
    nvor = product.size(VOR_SPACE, 2 if tier == "quick" else None)
    return dict(
        rule="vor roots: all 4-, 5-, 6-subsets (126+126+84) of a 3x3 lattice, once with a fixed jitter of "
             "k/64 pitch (general position, asserted exactly) and once regular (co-circular/collinear "
             f"degeneracies); under each root {k} of outside sensors {{0,1,2}} x boundary "
             "{hexagon, square, clockwise triangle, quadrilateral with redundant points} x sensor order "
             "{identity, reversal, all rotations} x translation {0,1e2,1e4} extents x scale {1,1e-3,1e3}; "
             "each case = one real spatial_weights call judged against exact rational half-plane clipping "
             "(indices, non-negativity, sum, area fractions, invariance vs. the untransformed run; "
             "bounded_voronoi regions at the untransformed cases).  line roots: 4-5 exactly/nearly "
             "collinear sensors (eps 0, 2^-6, 2^-12, 2^-20) x 2 directions x 4 boundaries x scale {1,1e3}.  "
             "mc roots: full product of generator/spatial distribution (4) x generator count {4,2} x "
             "3 mean menus x 3 stddev menus (incl. all zero) x 5 weight menus (one produced by the real "
             "tessellation); under each n_realizations {1,10,1000} x seeds "
             + ("0..9" if tier == "quick" else "0..49") +
             ", each with a repeat call and two weight rescalings.  A tessellation case is non-trivial/"
             "distinct by (family, subset, outside, boundary) with non-uniform exact weights; a Monte-Carlo "
             "case when its weighted mean differs from the unweighted one.",
        bounds=dict(vor_cases_per_root=nvor, vor_roots=672, deviations="2 jitter / 1 regular" if tier == "quick" else "full",
                    mc_roots=product.size(MC_SPACE, None), seeds=10 if tier == "quick" else 50,
                    n_realizations=MC_NREAL, rtol="1e-9 (1e-6 at translation 1e4 extents)"),
        exhaustive=True,
        assumptions=["sensors exactly on the boundary are not generated (a knife-edge guard of 1e-9 extent "
                     "skips them); only strictly inside / strictly outside sensors are judged",
                     "the order of the returned indices is not pinned, only the mapping index -> weight",
                     "weighted standard deviation = sqrt(sum w'(x-m)^2 / (1 - sum w'^2)) over all realisations "
                     "with w' = w_i / (n_realizations * sum w) (the reliability-weights estimator)",
                     "normal generators feeding a lognormal spatial distribution are given means >= 9 sigma "
                     "above zero; a case with a non-positive realisation would be skipped and counted",
                     "realisations are tied to their generators only grossly (row mean within 8 sigma/sqrt(n))"])
