"""C14 - spatial weights are nearest-sensor area fractions; montecarlo_fn uses them.

E2.  Five families of root cases:

* ``vor``  - one sensor layout (a 4/5/6-subset of a 3x3 lattice, jittered or
  regular); under it every case of the space
  {sensors outside the boundary} x {boundary} x {sensor order} x {translation}
  x {uniform scale} within 2 deviations of the default (quick) or the full
  product (thorough).  Every case runs the real ``HvsrSpatial.spatial_weights``
  and is compared with ``ref.voronoi`` (exact rational half-plane clipping of
  exactly the floats handed to hvsrpy).
* ``line`` - (nearly) collinear arrays: the area fractions are parallel strips
  and perfectly well defined; kept apart (own violation keys) because the
  Qhull/far-point machinery is known to be fragile there.
* ``twin`` - one jittered layout plus a second sensor a distance 2^-e pitches away
  from one of its sensors (a re-occupied station): every case of {spacing} x
  {which sensor} x {direction} x {boundary} x {scale} (quick: within 2 deviations);
  the two share the cell of the location; the sum of all weights is held to 1e-9,
  the individual weights to the conditioning of the bisector between the two.
* ``session`` - histories of requests in ONE process: two live ``HvsrSpatial``
  objects, both public entry points, boundaries handed over as a fresh list, a fresh
  array or ONE array object the caller keeps and overwrites in place, requests that
  are refused (fewer than three / no sensors inside, wrong shape, unknown method)
  after which the history goes on.  Every request of every history of the stated
  length is judged on its own against the exact tessellation of the arguments of
  THAT request: the statement is about the value of one call.  The menu holds pairs of
  DIFFERENT convex boundaries with exactly the same bounding box (and the same number of
  points) that retain different sensors, so one object serves both in either order.
* ``outline`` - how the boundary is WRITTEN DOWN: one jittered layout (plus one outside sensor)
  and under it the full product {outline: square with four chamfered corners of very different
  sizes / closed ring (first point repeated at the end)} x {which point the list starts with}
  x {counter-clockwise, clockwise} x {translation} x {scale}.  With a large common offset the
  distance between neighbouring boundary points (also between the first and the last one of the
  list) is far below 1e-5 of the coordinate magnitude, yet they are distinct hull vertices: the
  exact tessellation of exactly the floats handed over still decides, and the result must not
  depend on the start point, the direction, the translation or the scale.
* ``aperture`` - the array is small compared with the boundary: one jittered layout shrunk about a
  point to 2^-10 .. 2^-17 of its size (boundary 1.5e3 .. 4e5 times the aperture) x {centre} x
  {boundary} x {scale} x {one more sensor 1e3 / 1e5 extents outside}; exact tessellation decides.
* ``mc``   - ``montecarlo_fn`` for one (generator distribution, spatial
  distribution, generator count, means, stddevs, weights) and under it every
  n_realizations x seed; statistics recomputed from the returned realisations
  with math.fsum.
"""
import itertools
import math
import traceback
from fractions import Fraction

import numpy as np

from hvsrpy.hvsr_spatial import HvsrSpatial, montecarlo_fn

from hvmc.engine import product
from hvmc.engine.core import close, bitwise_equal, same_float
from hvmc.ref import voronoi as RV
from hvmc.ref import stats as RS

PROPERTY = "C14"
MAX_JOBS = 16

# ---------------------------------------------------------------------------
# alphabets (all coordinates dyadic rationals -> exact in binary floating point)

# fixed jitter in 1/64 of the lattice pitch, per lattice node (i, k)
JITTER = {(0, 0): (3, -2), (1, 0): (-1, 4), (2, 0): (2, 3),
          (0, 1): (-4, 1), (1, 1): (1, -3), (2, 1): (4, 2),
          (0, 2): (-2, -4), (1, 2): (3, 1), (2, 2): (-3, -1)}
EXTENT = 2.0          # pitch 1, 3x3 lattice


def lattice(family):
    j = 1 if family == "jitter" else 0
    return [(i + j * JITTER[(i, k)][0] / 64.0, k + j * JITTER[(i, k)][1] / 64.0)
            for k in range(3) for i in range(3)]


# every boundary contains the whole lattice strictly; the point order is
# deliberately not a polygon traversal for "redundant" (hull must be taken)
BOUNDARIES = {
    "square": [(-0.5, -0.5), (2.5, -0.5), (2.5, 2.5), (-0.5, 2.5)],
    "triangle": [(1.0, 6.0), (4.5, -1.0), (-2.5, -1.0)],                       # clockwise
    "hexagon": [(3.5, 1.0), (2.25, 3.25), (-0.25, 3.25), (-1.5, 1.0), (-0.25, -1.25), (2.25, -1.25)],
    # quadrilateral given with interior points, a point on an edge, a repeated corner
    "redundant": [(1.0, 1.0), (-1.0, -0.75), (1.0, -0.625), (3.0, -0.5), (0.25, 0.75),
                  (2.75, 3.0), (-0.5, 2.5), (1.5, 2.0), (3.0, -0.5)],
}
BOUNDARY_NAMES = ["hexagon", "square", "triangle", "redundant"]

# strictly outside all four hulls, but inside the bounding boxes of the
# triangle and the hexagon (the second one also of the quadrilateral)
OUTSIDE = [(-1.3125, 3.125), (2.90625, 2.9375)]

ORDERS = ["id", "rev"] + [f"rot{r}" for r in range(1, 8)]
TRANSLATIONS = [0.0, 1e2, 1e4]        # in units of the array extent
SCALES = [1.0, 1e-3, 1e3]

VOR_SPACE = dict(outside=[0, 1, 2], boundary=BOUNDARY_NAMES, order=ORDERS,
                 translation=TRANSLATIONS, scale=SCALES)


def place(points, translation, scale):
    tx = translation * EXTENT
    ty = -0.75 * translation * EXTENT
    return [(scale * (x + tx), scale * (y + ty)) for (x, y) in points]


def base_sensors(root, n_out):
    L = lattice(root["family"])
    s = [L[i] for i in root["subset"]]
    if n_out >= 1:
        s.insert(1, OUTSIDE[0])
    if n_out >= 2:
        s.append(OUTSIDE[1])
    return s


def permutation(order, n):
    """perm[j] = original position of the sensor placed at position j; None if n/a."""
    if order == "id":
        return list(range(n))
    if order == "rev":
        return list(range(n - 1, -1, -1))
    r = int(order[3:])
    if r >= n:
        return None
    return [(j + r) % n for j in range(n)]


def rtol_for(translation):
    return 1e-6 if translation >= 1e4 else 1e-9


# ---------------------------------------------------------------------------
# running the real code

def call_weights(sensors, boundary):
    """-> ("ok", weights list, indices list) or ("raised", type, text)."""
    return call_weights_on(None, np.array(boundary, dtype=float), sensors=sensors)


def call_weights_on(hs, boundary, sensors=None, **kwargs):
    """spatial_weights on a live object (or on a fresh one made from ``sensors``)."""
    try:
        if hs is None:
            hs = HvsrSpatial(np.array(sensors, dtype=float))
        w, idx = hs.spatial_weights(boundary, **kwargs)
        return ("ok", [float(v) for v in np.asarray(w).ravel()], [int(i) for i in idx])
    except Exception as e:      # noqa: BLE001 - judged by the caller
        return ("raised", type(e).__name__, (str(e).strip().splitlines() or [""])[0][:200],
                traceback.format_exc()[-1200:])


def judge_weights(res, ref, rtol, sum_rtol=None):
    """Compare one spatial_weights result with the exact tessellation.

    Returns a list of (oracle tag, explanation, expected, observed)."""
    sum_rtol = rtol if sum_rtol is None else sum_rtol
    exp_idx = ref["indices"]
    exp_w = {i: float(ref["weights"][i]) for i in exp_idx}
    if res[0] == "raised":
        return [("raises", f"spatial_weights raised {res[1]}: {res[2]}", exp_w, list(res[1:3]))]
    _, w, idx = res
    out = []
    if len(w) != len(idx):
        return [("shape", "number of weights differs from number of indices", len(idx), len(w))]
    if sorted(idx) != sorted(exp_idx) or len(set(idx)) != len(idx):
        out.append(("indices", "returned indices are not the sensors strictly inside the hull",
                    exp_idx, idx))
        return out
    if any((not math.isfinite(v)) or v < 0 for v in w):
        out.append(("negative", "a weight is negative or not finite", exp_w, w))
    if not abs(math.fsum(w) - 1.0) <= sum_rtol:
        out.append(("sum", f"weights sum to {math.fsum(w)!r}, not 1", 1.0, math.fsum(w)))
    bad = [(i, v, exp_w[i]) for i, v in zip(idx, w)
           if not abs(v - exp_w[i]) <= rtol * exp_w[i] + 1e-15]
    if bad:
        out.append(("weights-vs-ref", "weight differs from the exact nearest-sensor area fraction "
                    f"(first: sensor {bad[0][0]}: {bad[0][1]!r} vs {bad[0][2]!r})",
                    exp_w, dict(zip(idx, w))))
    return out


def call_regions(hs, boundary):
    """-> ("ok", regions, indices) or ("raised", type, text, traceback)."""
    try:
        regions, idx = hs.bounded_voronoi(boundary)
        return ("ok", [[(float(x), float(y)) for x, y in np.asarray(r)] for r in regions],
                [int(i) for i in idx])
    except Exception as e:      # noqa: BLE001 - judged by the caller
        return ("raised", type(e).__name__, (str(e).strip().splitlines() or [""])[0][:200],
                traceback.format_exc()[-1200:])


def judge_regions(res, sensors, ref, scale=1.0):
    """bounded_voronoi: every returned region lies in the hull, in the nearest-sensor cell
    of its sensor, and has the area of that cell.  -> list of (tag, explanation, exp, obs)."""
    if res[0] == "raised":
        return [("raises", f"bounded_voronoi raised {res[1]}: {res[2]}", ref["indices"], list(res[1:3]))]
    _, regions, idx = res
    if sorted(idx) != ref["indices"] or len(regions) != len(idx) or len(set(idx)) != len(idx):
        return [("indices", "bounded_voronoi indices are not the sensors strictly inside the hull",
                 ref["indices"], idx)]
    out = []
    hull = [(float(x), float(y)) for x, y in ref["hull"]]
    harea = float(ref["hull_area"])
    tol = 1e-9 * (EXTENT * scale) ** 2
    for reg, i in zip(regions, idx):
        area = abs(float(RV.shoelace([(Fraction(x), Fraction(y)) for x, y in reg])))
        exp = float(ref["weights"][i])
        if not abs(area / harea - exp) <= 1e-9 * exp:
            out.append(("area", f"area of the region returned for sensor {i} is not its cell's area",
                        exp * harea, area))
        px, py = sensors[i]
        for (x, y) in reg:
            inside = all((bx - ax) * (y - ay) - (by - ay) * (x - ax) >= -tol
                         for (ax, ay), (bx, by) in zip(hull, hull[1:] + hull[:1]))
            d0 = (x - px) ** 2 + (y - py) ** 2
            nearest = all(d0 <= (x - sensors[j][0]) ** 2 + (y - sensors[j][1]) ** 2 + tol
                          for j in ref["indices"])
            if not (inside and nearest):
                out.append(("vertex", f"vertex ({x}, {y}) of the region of sensor {i} is "
                            + ("outside the hull" if not inside else "closer to another sensor"),
                            None, reg))
                break
    return out


# ---------------------------------------------------------------------------
# vor roots

class VorRoot:
    def __init__(self, root, ctx):
        self.root = root
        self.ctx = ctx
        self.cls = "generic" if root["family"] == "jitter" else "cocircular"
        self.refs = {}
        self.impl = {}

    def geometry(self, case):
        s = base_sensors(self.root, case["outside"])
        perm = permutation(case["order"], len(s))
        if perm is None:
            return None
        s = [s[p] for p in perm]
        sensors = place(s, case["translation"], case["scale"])
        boundary = place(BOUNDARIES[case["boundary"]], case["translation"], case["scale"])
        return sensors, boundary, perm

    def ref(self, case):
        """Exact tessellation for the identity order of this (outside, boundary, T, s)."""
        k = (case["outside"], case["boundary"], case["translation"], case["scale"])
        if k not in self.refs:
            sensors, boundary, _ = self.geometry(dict(case, order="id"))
            t = RV.tessellate(sensors, boundary)
            # knife edge: a sensor within 1e-9 extent of the boundary
            lim = Fraction(1e-9 * EXTENT * case["scale"]) ** 2
            t["knife"] = any(RV.boundary_clearance(p, t["hull"]) <= lim for p in sensors)
            self.refs[k] = t
        return self.refs[k]

    def run_impl(self, case):
        k = tuple(case[d] for d in VOR_SPACE)
        if k not in self.impl:
            g = self.geometry(case)
            self.ctx.count("transitions")
            self.impl[k] = call_weights(g[0], g[1])
        return self.impl[k]

    def violation(self, oracle, case, expl, expected, observed):
        g = self.geometry(case)
        self.ctx.violation(f"C14:spatial_weights:{self.cls}:{oracle}", self.root,
                           detail=dict(case=case, sensors=g[0], boundary=g[1],
                                       call="HvsrSpatial(sensors).spatial_weights(boundary)"),
                           expected=expected, observed=observed, explanation=expl)

    def run_case(self, case):
        ctx = self.ctx
        g = self.geometry(case)
        if g is None:
            ctx.count("order_not_applicable")
            return
        sensors, boundary, perm = g
        ctx.count("states")
        ref = self.ref(case)
        if ref["knife"]:
            ctx.count("knife_edge")
            return
        rtol = rtol_for(case["translation"])
        res = self.run_impl(case)
        # exact result re-indexed to the positions in the permuted sensor list
        inv = {orig: j for j, orig in enumerate(perm)}
        pref = dict(indices=sorted(inv[i] for i in ref["indices"]),
                    weights={inv[i]: ref["weights"][i] for i in ref["indices"]})
        problems = judge_weights(res, pref, rtol)
        ctx.count("validated")
        for tag, expl, exp, obs in problems:
            self.violation(tag, case, expl, exp, obs)
        n_in = len(ref["indices"])
        if n_in != len(self.root["subset"]):
            raise AssertionError("alphabet: unexpected number of sensors inside the boundary")
        ctx.count("dropped_sensors", len(sensors) - n_in)
        if res[0] != "ok" or problems:
            ctx.outcome((self.cls, "problem", [p[0] for p in problems]))
            return
        got = {perm[j]: v for v, j in zip(res[1], res[2])}        # original id -> weight
        # invariances, compared directly with the untransformed / unpermuted run
        base_case = dict(case, order="id", translation=TRANSLATIONS[0], scale=SCALES[0])
        if base_case != case:
            b = self.run_impl(base_case)
            if b[0] == "ok" and len(b[1]) == len(b[2]):
                bmap = dict(zip(b[2], b[1]))
                if set(bmap) == set(got):
                    which = [d for d in ("order", "translation", "scale") if case[d] != base_case[d]]
                    worst = max(abs(got[i] - bmap[i]) / bmap[i] for i in got if bmap[i] > 0)
                    if not worst <= 2 * rtol:
                        self.violation("invariance-" + "+".join(which), case,
                                       "weights (as a mapping sensor -> weight) change under "
                                       + ", ".join(which), bmap, got)
                    ctx.count("invariance_compared")
                    if case["order"] != "id" and res[2] != b[2]:
                        ctx.count("order_changes_indices")
        if case["order"] == "id" and case["translation"] == 0.0 and case["scale"] == 1.0:
            wl = [float(ref["weights"][i]) for i in ref["indices"]]
            ctx.outcome((self.cls, [round(v, 9) for v in wl]))
            if max(wl) - min(wl) > 1e-6:
                ctx.nontrivial_case((self.root["family"], self.root["subset"], case["outside"],
                                     case["boundary"]))
            self.check_regions(case, sensors, boundary, ref)
            if len(ctx.samples) < 2:
                ctx.sample(dict(root=self.root, case=case, sensors=sensors, boundary=boundary,
                                exact_weights={str(i): str(ref["weights"][i]) for i in ref["indices"]},
                                hvsrpy_weights=res[1], hvsrpy_indices=res[2]))

    def check_regions(self, case, sensors, boundary, ref):
        """bounded_voronoi: every returned region lies in the hull, in the nearest-sensor
        cell of its sensor, and has the area of that cell."""
        ctx = self.ctx
        ctx.count("transitions")
        res = call_regions(HvsrSpatial(np.array(sensors)), np.array(boundary))
        for tag, expl, exp, obs in judge_regions(res, sensors, ref):
            self.violation("bounded_voronoi-" + tag, case, expl, exp, obs)
        if res[0] == "ok":
            ctx.count("regions_checked", len(res[2]))


def run_vor(root, ctx, tier):
    vr = VorRoot(root, ctx)
    for case in product.deviations(VOR_SPACE, root["k"]):
        vr.run_case(case)


# ---------------------------------------------------------------------------
# line roots: (nearly) collinear arrays

LINE_EPS = [0.0, 2.0 ** -6, 2.0 ** -12, 2.0 ** -20]
LINE_DIRS = {"horizontal": ((0.0, 1.0), (1.0, 0.0), (0.0, 1.0)),       # origin, along, across
             "diagonal": ((0.0, 0.0), (1.0, 1.0), (-1.0, 1.0))}
LINE_POS = [(0.0, 0.0), (0.5, 1.0), (1.25, -0.5), (2.0, 0.0), (1.625, 0.25)]    # (along, across/eps)


def line_sensors(direction, eps, n):
    (ox, oy), (ax, ay), (cx, cy) = LINE_DIRS[direction]
    return [(ox + t * ax + eps * c * cx, oy + t * ay + eps * c * cy) for t, c in LINE_POS[:n]]


def run_line(root, ctx, tier):
    eps = root["eps"]
    cls = "collinear-array" if eps == 0.0 else "near-collinear-array"
    for n in (4, 5):
        for bname in BOUNDARY_NAMES:
            for scale in (1.0, 1e3):
                case = dict(direction=root["direction"], eps=eps, n=n, boundary=bname, scale=scale)
                sensors = place(line_sensors(root["direction"], eps, n), 0.0, scale)
                boundary = place(BOUNDARIES[bname], 0.0, scale)
                ctx.count("states")
                ref = RV.tessellate(sensors, boundary)
                if len(ref["indices"]) != n:
                    raise AssertionError("alphabet: line sensors must be inside the boundary")
                ctx.count("transitions")
                res = call_weights(sensors, boundary)
                problems = judge_weights(res, ref, 1e-9)
                ctx.count("validated")
                ctx.count("line_cases")
                ctx.outcome((cls, scale, [p[0] for p in problems] or
                             [round(float(ref["weights"][i]), 9) for i in ref["indices"]]))
                if not problems:
                    ctx.count("line_cases_agreeing")
                    ctx.nontrivial_case(("line", case))
                    continue
                # one key per input class: raising, wrong weights and a wrong sum are
                # the same failure of the tessellation on this class of layouts
                expl = "; ".join(p[1] for p in problems)
                exp = {i: float(ref["weights"][i]) for i in ref["indices"]}
                obs = dict(zip(res[2], res[1])) if res[0] == "ok" else list(res[1:3])
                ctx.violation(f"C14:spatial_weights:{cls}:tessellation", root,
                              detail=dict(case=case, sensors=sensors, boundary=boundary,
                                          oracles_failed=[p[0] for p in problems],
                                          largest_circumradius_of_consecutive_sensors=_max_circumradius(sensors),
                                          call="HvsrSpatial(sensors).spatial_weights(boundary)"),
                              expected=exp, observed=obs,
                              explanation=("all sensors inside the boundary lie on one straight line (the "
                                           "nearest-sensor cells are parallel strips): " if eps == 0.0 else
                                           f"sensors deviate by {eps:g} x scale from one straight line (the "
                                           "nearest-sensor area fractions are well conditioned there): ")
                              + expl)


def _max_circumradius(sensors):
    """Largest circumradius of three consecutive sensors ('inf' if collinear); reported
    only to make the counterexample readable, never used in a verdict."""
    best = 0.0
    sensors = sorted(sensors)
    for a, b, c in zip(sensors, sensors[1:], sensors[2:]):
        la = math.dist(b, c)
        lb = math.dist(a, c)
        lc = math.dist(a, b)
        area2 = abs((b[0] - a[0]) * (c[1] - a[1]) - (b[1] - a[1]) * (c[0] - a[0]))
        if area2 == 0:
            return "inf"
        best = max(best, la * lb * lc / (2 * area2))
    return best


# ---------------------------------------------------------------------------
# twin roots: two sensors that are almost, but not exactly, at the same place

TWIN_EXPONENTS = [26, 10, 22, 18, 30]            # spacing 2^-e lattice pitches (extent 2)
TWIN_DIRECTIONS = {"x": (1.0, 0.0), "y": (0.0, 1.0), "up-right": (0.5, 0.75), "up-left": (-0.75, 0.5)}
TWIN_SCALES = [1.0, 1e3, 1e-3]


def twin_space(k, tier):
    """quick: the first three spacings and the first two scales."""
    q = tier == "quick"
    return dict(exponent=TWIN_EXPONENTS[:3] if q else TWIN_EXPONENTS, twin_of=list(range(k)),
                direction=list(TWIN_DIRECTIONS), boundary=BOUNDARY_NAMES,
                scale=TWIN_SCALES[:2] if q else TWIN_SCALES)


def twin_rtol(exponent):
    """The bisector between the two sensors turns by (rounding error of a coordinate) / spacing,
    and the circumcentre of the two with a third sensor is known to (rounding error) x extent /
    spacing: weights carry a condition number of about extent / spacing.  Sixteen units of that
    (the largest error seen on the unchanged code is 1.2 units, at 2^-26), never below 1e-9."""
    return max(1e-9, 16.0 * 2.0 ** -52 * EXTENT * 2.0 ** exponent)


def run_twin(root, ctx, tier):
    L = lattice(root["family"])
    base = [L[i] for i in root["subset"]]
    n = len(base)
    for case in product.deviations(twin_space(n, tier), root["k"]):
        ctx.count("states")
        dx, dy = TWIN_DIRECTIONS[case["direction"]]
        px, py = base[case["twin_of"]]
        h = 2.0 ** -case["exponent"]
        pts = base + [(px + dx * h, py + dy * h)]
        sensors = place(pts, 0.0, case["scale"])
        boundary = place(BOUNDARIES[case["boundary"]], 0.0, case["scale"])
        a, b = case["twin_of"], n
        if sensors[a] == sensors[b]:
            raise AssertionError("alphabet: the two sensors must stay distinct")
        ref = RV.tessellate(sensors, boundary)
        if len(ref["indices"]) != n + 1:
            raise AssertionError("alphabet: all sensors must be inside the boundary")
        ctx.count("transitions")
        res = call_weights(sensors, boundary)
        # all weights at the conditioning of the pair's bisector (the Voronoi vertices the pair
        # shares with its neighbours are circumcentres of sliver triangles, so the neighbours'
        # weights and the pair's sum carry the same amplification); the cells still tile the
        # hull whatever the vertices are, so the sum of all weights is held to 1e-9
        problems = judge_weights(res, ref, twin_rtol(case["exponent"]), sum_rtol=1e-9)
        ctx.count("validated")
        ctx.count("twin_cases")
        for tag, expl, exp, obs in problems:
            ctx.violation(f"C14:spatial_weights:near-coincident-pair:{tag}", root,
                          detail=dict(case=case, sensors=sensors, boundary=boundary, pair=[a, b],
                                      spacing_in_pitches=h, rtol_individual=twin_rtol(case["exponent"]),
                                      call="HvsrSpatial(sensors).spatial_weights(boundary)"),
                          expected=exp, observed=obs, explanation=expl)
        if problems:
            ctx.outcome(("twin", "problem", [p[0] for p in problems]))
            continue
        wl = [float(ref["weights"][i]) for i in ref["indices"]]
        ctx.outcome(("twin", [round(v, 9) for v in wl]))
        ctx.nontrivial_case(("twin", root["subset"], case["twin_of"], case["direction"], case["boundary"],
                             case["exponent"]))
        # non-vacuity: does the pair sit on the edge of the array (unbounded cells)?
        others = [p for j, p in enumerate(pts) if j not in (a, b)]
        hull = RV.convex_hull(others + [pts[a]])
        if not RV.strictly_inside(pts[a], RV.convex_hull(others)) or len(hull) < 3:
            ctx.count("twin_on_array_edge")
        else:
            ctx.count("twin_in_array_interior")


# ---------------------------------------------------------------------------
# session roots: histories of requests on live objects in one process

SESSION_BOUNDARIES = {          # four points each, so that ONE array object can hold any of them
    "square": [(-0.5, -0.5), (2.5, -0.5), (2.5, 2.5), (-0.5, 2.5)],        # the lattice
    "wide": [(-2.0, -1.0), (3.5, -1.0), (3.5, 3.5), (-2.0, 3.5)],           # lattice + both outside sensors
    "trapezoid": [(-0.75, -0.5), (2.75, -0.5), (2.375, 2.5), (-0.25, 2.5)],  # the lattice, other areas
    "two": [(1.5, -0.5), (2.5, -0.5), (2.5, 1.5), (1.5, 1.5)],              # lattice nodes 2 and 5 only
    "none": [(4.0, 4.0), (5.0, 4.0), (5.0, 5.0), (4.0, 5.0)],               # no sensor at all
    # same bounding box (and same first two points) as "square" / "wide", other shape: the upper
    # left part of the box is cut off, which drops lattice nodes 3, 6, 7 / node 6 and OUTSIDE[0]
    "square-cut": [(-0.5, -0.5), (2.5, -0.5), (2.5, 2.5), (-0.5, 0.5)],
    "wide-cut": [(-2.0, -1.0), (3.5, -1.0), (3.5, 3.5), (-2.0, 1.0)],
}
SESSION_SAME_BOX = {"square": "square-cut", "square-cut": "square", "wide": "wide-cut", "wide-cut": "wide"}
# lattice nodes / outside sensors the two cut boundaries retain
SESSION_CUT_RETAINS = {"square-cut": ({0, 1, 2, 4, 5, 8}, set()), "wide-cut": ({0, 1, 2, 3, 4, 5, 7, 8}, {1})}
SESSION_PASSING = ["list", "array", "same-array"]
# (subset of object A, subset of object B); both contain lattice nodes 2 and 5; B is handed over
# in reverse order; each layout gets the two OUTSIDE sensors (positions 1 and last)
SESSION_LAYOUTS = [([0, 2, 3, 5, 7, 8], [1, 2, 4, 5, 6]),
                   ([1, 2, 5, 6, 7], [0, 2, 4, 5, 6, 8]),
                   ([0, 1, 2, 5, 6, 8], [2, 3, 5, 7, 8])]


def session_menu(reduced=False):
    ops = []
    for obj in ("A", "B"):
        for entry in ("spatial_weights", "bounded_voronoi"):
            for b in (["square", "wide", "two", "none"] if reduced else list(SESSION_BOUNDARIES)):
                for how in (["list", "same-array"] if reduced else SESSION_PASSING):
                    ops.append(dict(obj=obj, entry=entry, boundary=b, passing=how))
        ops.append(dict(obj=obj, entry="spatial_weights", boundary="square", passing="list",
                        refusal="unknown-method"))
        if not reduced:
            ops.append(dict(obj=obj, entry="spatial_weights", boundary="square", passing="array",
                            refusal="three-columns"))
            ops.append(dict(obj=obj, entry="bounded_voronoi", boundary="square", passing="list",
                            refusal="three-columns"))
    return ops


def session_sensors(layout):
    L = lattice("jitter")
    a, b = SESSION_LAYOUTS[layout]
    out = {}
    for name, sub in (("A", a), ("B", b)):
        s = [L[i] for i in sub]
        s.insert(1, OUTSIDE[0])
        s.append(OUTSIDE[1])
        out[name] = s[::-1] if name == "B" else s
    return out


class Session:
    """One history: fresh objects, one boundary array the caller keeps and overwrites."""

    def __init__(self, sensors):
        self.objs = {k: HvsrSpatial(np.array(v, dtype=float)) for k, v in sensors.items()}
        self.kept = np.zeros((4, 2))
        self.kept_history = []          # values the kept array held when it was handed over
        self.raised_on = []             # objects with a request that raised
        self.served = {k: [] for k in sensors}      # boundaries each object was asked about

    def request(self, op):
        """-> (history flags, result)."""
        pts = SESSION_BOUNDARIES[op["boundary"]]
        flags = []
        if op["passing"] == "same-array":
            if any(v != pts for v in self.kept_history):
                flags.append("boundary-array-overwritten-in-place")
            self.kept[...] = pts
            self.kept_history.append(pts)
            arg = self.kept
        elif op["passing"] == "array":
            arg = np.array(pts, dtype=float)
        else:
            arg = [list(p) for p in pts]
        if op["obj"] in self.raised_on:
            flags.append("after-refused-request-on-this-object")
        elif self.raised_on:
            flags.append("after-refused-request-on-other-object")
        if SESSION_SAME_BOX.get(op["boundary"]) in self.served[op["obj"]] and not op.get("refusal"):
            flags.append("same-bounding-box-other-shape-served-by-this-object")
        if not op.get("refusal"):
            self.served[op["obj"]].append(op["boundary"])
        hs = self.objs[op["obj"]]
        if op.get("refusal") == "three-columns":
            arg = [list(p) + [0.0] for p in pts]
            arg = np.array(arg) if op["passing"] == "array" else arg
        if op.get("refusal") == "unknown-method":
            res = call_weights_on(hs, arg, declustering_method="polygonal")
        elif op["entry"] == "spatial_weights":
            res = call_weights_on(hs, arg)
        else:
            res = call_regions(hs, arg)
        if res[0] == "raised":
            self.raised_on.append(op["obj"])
        return flags, res


def run_session(root, ctx, tier):
    sensors = session_sensors(root["layout"])
    menu = session_menu(root["menu"] == "reduced")
    refs = {(o, b): RV.tessellate(sensors[o], SESSION_BOUNDARIES[b])
            for o in sensors for b in SESSION_BOUNDARIES}
    first = menu[root["first"]]
    tails = [()]
    for d in range(1, root["depth"]):
        tails = tails + [t for t in itertools.product(menu, repeat=d)]
    for tail in tails:
        hist = (first,) + tuple(tail)
        ses = Session(sensors)
        ctx.count("states")
        ctx.count("session_histories")
        for j, op in enumerate(hist):
            ctx.count("transitions")
            flags, res = ses.request(op)
            if j < len(hist) - 1:
                continue        # every prefix is a history of its own; the last request is judged
            ref = refs[(op["obj"], op["boundary"])]
            if op.get("refusal") or len(ref["indices"]) < 4:
                # outside the quantifier (fewer than four sensors inside) or not a request the
                # statement speaks about: any outcome is accepted, longer histories go on after it
                ctx.count("session_requests_not_judged")
                if res[0] == "raised":
                    ctx.count("session_requests_refused")
                continue
            if op["entry"] == "spatial_weights":
                problems = judge_weights(res, ref, 1e-9)
            else:
                problems = judge_regions(res, sensors[op["obj"]], ref)
            ctx.count("validated")
            ctx.count("session_requests_judged")
            hclass = "+".join(flags) or ("after-valid-request" if j else "first-request")
            ctx.count("session_judged:" + hclass)
            ctx.outcome(("session", op["obj"], op["entry"], op["boundary"], hclass,
                         [p[0] for p in problems]))
            for tag, expl, exp, obs in problems:
                ctx.violation(f"C14:session:{op['entry']}:{hclass}:{tag}", root,
                              detail=dict(history=[dict(o, boundary_points=SESSION_BOUNDARIES[o["boundary"]])
                                                   for o in hist],
                                          failing_request=j, sensors=sensors,
                                          note="objects A and B are created once at the start of the "
                                               "history; 'same-array' = the caller writes the boundary "
                                               "into ONE ndarray it keeps (kept[...] = points) and "
                                               "passes that object",
                                          exact_indices=ref["indices"]),
                              expected=exp, observed=obs,
                              explanation=f"request {j} of the history ({hclass.replace('-', ' ')}): " + expl)


# ---------------------------------------------------------------------------
# outline roots: how the boundary is written down (start point, direction, closed ring, neighbouring
# points that are close compared with the magnitude of the coordinates)

CHAMFERS = [2.0 ** -4, 2.0 ** -7, 2.0 ** -10, 2.0 ** -2]      # lattice pitches, one per corner


def _chamfered():
    lo, hi = -0.5, 2.5
    c = CHAMFERS
    # counter-clockwise; the list starts and ends at the two points of the first chamfer
    return [(lo + c[0], lo), (hi - c[1], lo), (hi, lo + c[1]), (hi, hi - c[2]), (hi - c[2], hi),
            (lo + c[3], hi), (lo, hi - c[3]), (lo, lo + c[0])]


OUTLINES = {"chamfered": _chamfered(),
            "closed-ring": BOUNDARIES["hexagon"] + BOUNDARIES["hexagon"][:1]}
OUTLINE_STARTS = [0, 1, 2, 3]           # the list starts at point floor(r * len / 4)
OUTLINE_DIRECTIONS = ["ccw", "cw"]
OUTLINE_SPACE = dict(outline=list(OUTLINES), start=OUTLINE_STARTS, direction=OUTLINE_DIRECTIONS,
                     translation=TRANSLATIONS, scale=SCALES)


def outline_space(tier):
    """quick: the first two scales."""
    return dict(OUTLINE_SPACE, scale=SCALES[:2] if tier == "quick" else SCALES)


def outline_points(name, start, direction):
    pts = OUTLINES[name]
    r = (start * len(pts)) // 4
    pts = pts[r:] + pts[:r]
    return pts if direction == "ccw" else pts[::-1]


def run_outline(root, ctx, tier):
    base = base_sensors(root, 1)
    refs, impl = {}, {}

    def geometry(case):
        return (place(base, case["translation"], case["scale"]),
                place(outline_points(case["outline"], case["start"], case["direction"]),
                      case["translation"], case["scale"]))

    def run_impl(case):
        k = tuple(case[d] for d in OUTLINE_SPACE)
        if k not in impl:
            ctx.count("transitions")
            impl[k] = call_weights(*geometry(case))
        return impl[k]

    def violation(oracle, case, expl, expected, observed):
        g = geometry(case)
        ctx.violation(f"C14:spatial_weights:boundary-outline:{oracle}", root,
                      detail=dict(case=case, sensors=g[0], boundary=g[1],
                                  first_and_last_boundary_point=[g[1][0], g[1][-1]],
                                  call="HvsrSpatial(sensors).spatial_weights(boundary)"),
                      expected=expected, observed=observed, explanation=expl)

    for case in product.deviations(outline_space(tier), None):
        ctx.count("states")
        sensors, boundary = geometry(case)
        k = (case["outline"], case["translation"], case["scale"])
        if k not in refs:
            # the hull of the points does not depend on where the list starts or which way it runs
            t = RV.tessellate(sensors, place(OUTLINES[case["outline"]], case["translation"], case["scale"]))
            lim = Fraction(1e-9 * EXTENT * case["scale"]) ** 2
            t["knife"] = any(RV.boundary_clearance(p, t["hull"]) <= lim for p in sensors)
            refs[k] = t
        ref = refs[k]
        if ref["knife"]:
            ctx.count("knife_edge")
            continue
        if len(ref["indices"]) != len(root["subset"]):
            raise AssertionError("alphabet: unexpected number of sensors inside the outline")
        rtol = rtol_for(case["translation"])
        res = run_impl(case)
        problems = judge_weights(res, ref, rtol)
        ctx.count("validated")
        ctx.count("outline_cases")
        # non-vacuity: ends of the list closer than 1e-5 of the coordinate magnitude, yet distinct
        (fx, fy), (lx, ly) = boundary[0], boundary[-1]
        if boundary[0] == boundary[-1]:
            ctx.count("outline_closed_ring")
        elif abs(fx - lx) <= 1e-5 * abs(lx) and abs(fy - ly) <= 1e-5 * abs(ly):
            ctx.count("outline_ends_distinct_within_1e-5_of_magnitude")
        for tag, expl, exp, obs in problems:
            violation(tag, case, expl, exp, obs)
        if res[0] != "ok" or problems:
            ctx.outcome(("outline", "problem", [p[0] for p in problems]))
            continue
        got = dict(zip(res[2], res[1]))
        base_case = dict(case, start=0, direction="ccw", translation=TRANSLATIONS[0], scale=SCALES[0])
        if base_case != case:
            b = run_impl(base_case)
            if b[0] == "ok" and len(b[1]) == len(b[2]) and set(b[2]) == set(got):
                bmap = dict(zip(b[2], b[1]))
                which = [d for d in ("start", "direction", "translation", "scale") if case[d] != base_case[d]]
                worst = max(abs(got[i] - bmap[i]) / bmap[i] for i in got if bmap[i] > 0)
                if not worst <= 2 * rtol:
                    violation("invariance-" + "+".join(which), case,
                              "weights (as a mapping sensor -> weight) change under "
                              + ", ".join(which) + " of the boundary point list / coordinates", bmap, got)
                ctx.count("outline_invariance_compared")
        if case["translation"] == 0.0 and case["scale"] == 1.0:
            ctx.count("transitions")
            rres = call_regions(HvsrSpatial(np.array(sensors)), np.array(boundary))
            for tag, expl, exp, obs in judge_regions(rres, sensors, ref):
                violation("bounded_voronoi-" + tag, case, expl, exp, obs)
            if rres[0] == "ok":
                ctx.count("outline_regions_checked", len(rres[2]))
            if case["start"] == 0 and case["direction"] == "ccw":
                ctx.outcome(("outline", case["outline"],
                             [round(float(ref["weights"][i]), 9) for i in ref["indices"]]))
                ctx.nontrivial_case(("outline", root["subset"], case["outline"]))


# ---------------------------------------------------------------------------
# aperture roots: the size of the array compared with the size of the boundary

APERTURE_RATIOS = [2.0 ** -10, 2.0 ** -13, 2.0 ** -17]       # array shrunk about a point: boundary / aperture ~ 1.5e3 .. 2e5
APERTURE_CENTRES = {"lattice-centre": (1.0, 1.0), "origin": (0.0, 0.0)}     # both strictly inside all boundaries
APERTURE_FAR = [0.0, 1e3, 1e5]      # one more sensor this many extents away from the boundary (0: none)
APERTURE_SPACE = dict(ratio=APERTURE_RATIOS, centre=list(APERTURE_CENTRES), boundary=BOUNDARY_NAMES,
                      scale=SCALES, far=APERTURE_FAR)


def aperture_geometry(root, case):
    L = lattice(root["family"])
    cx, cy = APERTURE_CENTRES[case["centre"]]
    r = case["ratio"]
    s = [(cx + r * (L[i][0] - 1.0), cy + r * (L[i][1] - 1.0)) for i in root["subset"]]
    if case["far"]:
        s.insert(1, (case["far"] * EXTENT, -0.75 * case["far"] * EXTENT))
    return place(s, 0.0, case["scale"]), place(BOUNDARIES[case["boundary"]], 0.0, case["scale"])


def run_aperture(root, ctx, tier):
    n = len(root["subset"])
    for case in product.deviations(APERTURE_SPACE, root["k"]):
        ctx.count("states")
        sensors, boundary = aperture_geometry(root, case)
        ref = RV.tessellate(sensors, boundary)
        if len(ref["indices"]) != n:
            raise AssertionError("alphabet: the compact array must lie inside the boundary, the far sensor outside")
        ctx.count("transitions")
        res = call_weights(sensors, boundary)
        problems = judge_weights(res, ref, 1e-9)
        ctx.count("validated")
        ctx.count("aperture_cases")
        xs = [sensors[i][0] for i in ref["indices"]]
        ys = [sensors[i][1] for i in ref["indices"]]
        bx = [p[0] for p in boundary]
        by = [p[1] for p in boundary]
        rel = max(max(bx) - min(bx), max(by) - min(by)) / max(max(xs) - min(xs), max(ys) - min(ys))
        ctx.count("aperture_boundary_over_1e%d_apertures" % min(5, int(math.floor(math.log10(rel)))))
        if case["far"]:
            ctx.count("aperture_far_sensor_dropped")
        for tag, expl, exp, obs in problems:
            ctx.violation(f"C14:spatial_weights:compact-array-in-wide-boundary:{tag}", root,
                          detail=dict(case=case, sensors=sensors, boundary=boundary,
                                      boundary_extent_over_array_aperture=rel,
                                      call="HvsrSpatial(sensors).spatial_weights(boundary)"),
                          expected=exp, observed=obs,
                          explanation=f"boundary {rel:.3g} times as wide as the array inside it: " + expl)
        if problems:
            ctx.outcome(("aperture", "problem", [p[0] for p in problems]))
            continue
        ctx.outcome(("aperture", case["ratio"], [round(float(ref["weights"][i]), 9) for i in ref["indices"]]))
        ctx.nontrivial_case(("aperture", root["subset"], case["ratio"], case["centre"], case["boundary"]))


# ---------------------------------------------------------------------------
# montecarlo_fn roots

DISTS = ("lognormal", "normal")
MC_MEDIANS = {"equal": [1.5, 1.5, 1.5, 1.5], "spread": [0.875, 1.5, 2.25, 3.0],
              "wide": [0.75, 5.0, 12.0, 1.25]}
MC_STDS = {"zero": [0.0, 0.0, 0.0, 0.0], "small": [0.05, 0.08, 0.02, 0.06],
           "mixed": [0.0, 0.08, 0.0, 0.05]}
MC_WEIGHTS = {"equal": [1.0, 1.0, 1.0, 1.0], "fractions": [0.1, 0.2, 0.3, 0.4],
              "unnormalised": [2.0, 5.0, 1.0, 8.0], "with-zero": [1.0, 2.0, 0.0, 1.0],
              "voronoi": None}
MC_NREAL = [1, 10, 1000]
MC_FACTORS = [1e-3, 7.0]
MC_SPACE = dict(dg=list(DISTS), ds=list(DISTS), n=[4, 2], medians=list(MC_MEDIANS),
                stds=list(MC_STDS), weights=list(MC_WEIGHTS))


def _rng(seed):
    return np.random.Generator(np.random.PCG64(seed))


def voronoi_weights(n):
    """Weights produced by the real tessellation (links the two halves of the property)."""
    L = lattice("jitter")
    sub = [0, 2, 4, 7] if n == 4 else [0, 2, 4, 7, 5]
    w, idx = HvsrSpatial(np.array([L[i] for i in sub])).spatial_weights(np.array(BOUNDARIES["hexagon"]))
    return [float(v) for v in w][:n]


def _to_space(v, space):
    return math.log(v) if space == "lognormal" else float(v)


def flat_stats(rows, weights, space):
    """Weighted mean / weighted standard deviation of all realisations, realisation j of
    generator i carrying weight w_i / (n_realisations * sum w)   (ref.stats, math.fsum)."""
    n = len(rows[0])
    sw = math.fsum(weights)
    vals, ws = [], []
    for r, w in zip(rows, weights):
        vals.extend(r)
        ws.extend([w / sw / n] * n)
    # ref.stats takes values in linear units and converts itself
    return RS.wmean(vals, ws, space), RS.wstd(vals, ws, space)


def run_mc(root, ctx, tier):
    dg, ds, n = root["dg"], root["ds"], root["n"]
    med = MC_MEDIANS[root["medians"]][:n]
    sd = MC_STDS[root["stds"]][:n]
    if root["weights"] == "voronoi":
        ctx.count("transitions")
        wts = voronoi_weights(n)
    else:
        wts = MC_WEIGHTS[root["weights"]][:n]
    gmeans = [_to_space(m, dg) for m in med]          # lambda_i or mu_i
    seeds = range(root["seeds"])
    site = f"C14:montecarlo_fn:{dg}->{ds}"

    def call(weights, nreal, seed):
        ctx.count("transitions")
        try:
            m, s, r = montecarlo_fn(np.array(gmeans), np.array(sd), np.array(weights),
                                    distribution_generators=dg, distribution_spatial=ds,
                                    n_realizations=nreal, rng=_rng(seed))
            return ("ok", float(m), float(s), np.array(r, dtype=float))
        except Exception as e:      # noqa: BLE001
            return ("raised", type(e).__name__, str(e)[:200], traceback.format_exc()[-1200:])

    for nreal in MC_NREAL:
        for seed in seeds:
            case = dict(n_realizations=nreal, seed=seed, generator_means=gmeans,
                        generator_stddevs=sd, generator_weights=wts)
            ctx.count("states")

            def bad(oracle, expl, expected=None, observed=None, extra=None):
                ctx.violation(f"{site}:{oracle}", root,
                              detail=dict(case=dict(case, **(extra or {})),
                                          call="montecarlo_fn(means, stddevs, weights, dg, ds, "
                                               "n_realizations, rng=Generator(PCG64(seed)))"),
                              expected=expected, observed=observed, explanation=expl)

            res = call(wts, nreal, seed)
            if res[0] == "raised":
                bad("raises", f"montecarlo_fn raised {res[1]}: {res[2]}", observed=list(res[1:]))
                continue
            _, mean, std, real = res
            if real.shape != (n, nreal):
                bad("shape", "realisations are not (generators, n_realizations)", [n, nreal],
                    list(real.shape))
                continue
            if not np.all(np.isfinite(real)) or (np.any(real <= 0) and "lognormal" in (dg, ds)):
                ctx.count("skipped_nonpositive")      # a normal generator produced a value <= 0
                continue
            rows = [[float(v) for v in r] for r in real]
            # 1. statistics == weighted statistics of the returned realisations in space ds
            em, es = flat_stats(rows, wts, ds)
            ctx.count("validated")
            atol = 1e-12 * max(1.0, abs(em))
            if not close(mean, em, rtol=1e-9, atol=atol):
                bad("mean-vs-realisations", "returned mean is not the weighted mean of the returned "
                    f"realisations in {ds} space", em, mean)
            if math.isnan(es):
                ctx.count("std_undefined")        # a single effective point: 1 - sum w'^2 == 0
            elif not close(std, es, rtol=1e-9, atol=atol):
                bad("std-vs-realisations", "returned standard deviation is not the weighted standard "
                    f"deviation of the returned realisations in {ds} space", es, std)
            # non-vacuity: would an unweighted / differently normalised statistic differ?
            um, us = flat_stats(rows, [1.0] * n, ds)
            if not close(um, em, rtol=1e-6):
                ctx.count("mc_weight_sensitive")
                ctx.nontrivial_case(("mc", root, nreal, seed))
            alt = _alt_std(rows, wts, ds)
            if not close(alt, es, rtol=1e-6, atol=1e-12):
                ctx.count("mc_std_definition_sensitive")
            # 2. same seeded generator -> identical triple
            rep = call(wts, nreal, seed)
            if not (rep[0] == "ok" and same_float(rep[1], mean) and same_float(rep[2], std)
                    and bitwise_equal(rep[3], real)):
                bad("reproducible", "two calls with equal seeded generators differ",
                    [mean, std], list(rep[1:3]))
            # 3. weights * c
            for c in MC_FACTORS:
                sc = call([w * c for w in wts], nreal, seed)
                if sc[0] != "ok":
                    bad("weights-scaled", f"raised with all weights multiplied by {c}",
                        observed=list(sc[1:3]), extra=dict(factor=c))
                    continue
                if not (close(sc[1], mean, rtol=1e-9, atol=atol) and close(sc[2], std, rtol=1e-9, atol=atol)
                        and bitwise_equal(sc[3], real)):
                    bad("weights-scaled", f"result changes when all weights are multiplied by {c}",
                        [mean, std], [sc[1], sc[2]], extra=dict(factor=c))
            # 4. realisations belong to their generators (gross: 8 sigma of the row mean)
            for i in range(n):
                g = [_to_space(v, dg) for v in rows[i]]
                rm = math.fsum(g) / nreal
                lim = 8.0 * sd[i] / math.sqrt(nreal) + 1e-12 * max(1.0, abs(gmeans[i]))
                ok = abs(rm - gmeans[i]) <= lim
                if ok and nreal >= 1000 and sd[i] > 0:
                    rs = math.sqrt(math.fsum((v - rm) ** 2 for v in g) / (nreal - 1))
                    ok = 0.7 * sd[i] <= rs <= 1.3 * sd[i]
                if ok and sd[i] == 0.0:
                    ok = max(rows[i]) - min(rows[i]) <= 1e-12 * abs(med[i])
                if not ok:
                    bad("realisations-vs-generator",
                        f"realisations of generator {i} are not draws around its mean "
                        f"{gmeans[i]} (+- {sd[i]}) in {dg} space", gmeans[i], rm, extra=dict(generator=i))
                    break
            # 5. zero generating stddev -> closed form
            if all(s == 0.0 for s in sd):
                ctx.count("closed_form_cases")
                x = [_to_space(m, ds) for m in med]
                sw = math.fsum(wts)
                nw = [w / sw for w in wts]
                cm = math.fsum(w * v for w, v in zip(nw, x))
                den = 1.0 - math.fsum(w * w for w in nw) / nreal
                cs = (math.sqrt(math.fsum(w * (v - cm) ** 2 for w, v in zip(nw, x)) / den)
                      if den > 1e-12 else float("nan"))
                cmean = math.exp(cm) if ds == "lognormal" else cm
                if not close(mean, cmean, rtol=1e-9):
                    bad("zero-std-mean", "with zero generating stddevs the mean is not the closed-form "
                        f"weighted {'log-' if ds == 'lognormal' else ''}mean of the generator means",
                        cmean, mean)
                if not math.isnan(cs) and not close(std, cs, rtol=1e-9, atol=1e-12):
                    bad("zero-std-std", "with zero generating stddevs the standard deviation is not the "
                        "closed-form weighted standard deviation of the generator means", cs, std)
                for i in range(n):
                    if not close(rows[i], [med[i]] * nreal, rtol=1e-12):
                        bad("zero-std-realisations", f"realisations of generator {i} are not all equal "
                            f"to its mean {med[i]} (linear units)", med[i], rows[i][:3],
                            extra=dict(generator=i))
                        break
            ctx.outcome((dg, ds, round(mean, 9), round(std, 9)))
            if len(ctx.samples) < 4 and seed == 1 and nreal == 10:
                ctx.sample(dict(root=root, case=case, mean=mean, std=std, expected_mean=em,
                                expected_std=es, first_realisations=[r[:2] for r in rows]))


def _alt_std(rows, weights, space):
    """A plausible *different* definition (sum w^2 not divided by n_realisations)."""
    n = len(rows[0])
    sw = math.fsum(weights)
    nw = [w / sw for w in weights]
    x = [[_to_space(v, space) for v in r] for r in rows]
    m = math.fsum(w * math.fsum(r) for w, r in zip(nw, x)) / n
    num = math.fsum(w * math.fsum((v - m) ** 2 for v in r) for w, r in zip(nw, x)) / n
    den = 1.0 - math.fsum(w * w for w in nw)
    return math.sqrt(num / den) if den > 0 else float("nan")


# ---------------------------------------------------------------------------
# runner interface

def check_alphabet():
    """The jittered lattice is in general position; the regular one is not."""
    J = lattice("jitter")
    assert not any(RV.collinear(*t) for t in itertools.combinations(J, 3))
    assert not any(RV.cocircular(*q) for q in itertools.combinations(J, 4))
    R = lattice("regular")
    assert any(RV.cocircular(*q) for q in itertools.combinations(R, 4))
    for b in BOUNDARIES.values():
        hull = RV.convex_hull(b)
        assert all(RV.strictly_inside(p, hull) for p in J + R)
        assert not any(RV.strictly_inside(p, hull) for p in OUTSIDE)
    for name in ("triangle", "hexagon"):
        xs = [p[0] for p in BOUNDARIES[name]]
        ys = [p[1] for p in BOUNDARIES[name]]
        assert all(min(xs) < x < max(xs) and min(ys) < y < max(ys) for x, y in OUTSIDE)
    # session boundaries retain exactly the intended sensors, none of them near an edge
    lim = Fraction(1e-9 * EXTENT) ** 2
    for layout, (sa, sb) in enumerate(SESSION_LAYOUTS):
        sens = session_sensors(layout)
        for name, sub in (("A", sa), ("B", sb)):
            assert 2 in sub and 5 in sub
            want = dict(square=len(sub), wide=len(sub) + 2, trapezoid=len(sub), two=2, none=0)
            for b, (nodes, outs) in SESSION_CUT_RETAINS.items():
                want[b] = len(nodes & set(sub)) + len(outs)
                hull = RV.convex_hull(SESSION_BOUNDARIES[b])
                kept = [q for q in sens[name] if RV.strictly_inside(q, hull)]
                L = lattice("jitter")
                assert sorted(kept) == sorted([L[i] for i in sub if i in nodes] + [OUTSIDE[i] for i in outs])
            for b, pts in SESSION_BOUNDARIES.items():
                hull = RV.convex_hull(pts)
                assert sum(RV.strictly_inside(q, hull) for q in sens[name]) == want[b], (layout, name, b)
                assert all(RV.boundary_clearance(q, hull) > lim for q in sens[name])
    assert all(len(v) == 4 for v in SESSION_BOUNDARIES.values())
    for a, b in SESSION_SAME_BOX.items():
        pa, pb = SESSION_BOUNDARIES[a], SESSION_BOUNDARIES[b]
        assert pa != pb and all(f(p[i] for p in pa) == f(p[i] for p in pb) for f in (min, max) for i in (0, 1))
    # first layout pair: both boundaries of a same-box pair retain >= 4 sensors of either object (both
    # orders of the pair end in a judged request) and retain different ones
    sens = session_sensors(0)
    for name in sens:
        for a, b in SESSION_SAME_BOX.items():
            ia, ib = (RV.tessellate(sens[name], SESSION_BOUNDARIES[x])["indices"] for x in (a, b))
            assert len(ia) >= 4 and len(ib) >= 4 and ia != ib, (name, a, b)
    # outlines: same hull whatever the start point / direction; neighbouring points of a chamfer are
    # distinct; all lattice sensors strictly inside, OUTSIDE[0] strictly outside
    for name, pts in OUTLINES.items():
        hull = RV.convex_hull(pts)
        assert all(RV.strictly_inside(p, hull) for p in lattice("jitter"))
        assert not RV.strictly_inside(OUTSIDE[0], hull)
        for r in OUTLINE_STARTS:
            for d in OUTLINE_DIRECTIONS:
                q = outline_points(name, r, d)
                assert sorted(q) == sorted(pts) and RV.convex_hull(q) == hull
    assert len(RV.convex_hull(OUTLINES["chamfered"])) == 8
    for r in OUTLINE_STARTS:
        q = outline_points("chamfered", r, "ccw")
        assert q[0] != q[-1] and abs(q[0][0] - q[-1][0]) == abs(q[0][1] - q[-1][1]) == CHAMFERS[r]


def roots(tier, seed):
    check_alphabet()
    out = []
    for eps in LINE_EPS:
        for d in LINE_DIRS:
            out.append(dict(kind="line", eps=eps, direction=d))
    for case in product.deviations(MC_SPACE, None):
        out.append(dict(kind="mc", seeds=10 if tier == "quick" else 50, **case))
    for fam in ("jitter", "regular"):
        dev = None if tier != "quick" else (2 if fam == "jitter" else 1)
        for k in (4, 5, 6):
            for sub in itertools.combinations(range(9), k):
                out.append(dict(kind="vor", family=fam, subset=list(sub), k=dev))
    # near-coincident pairs: quick = 4-sensor layouts within 2 deviations; thorough = within 3
    # deviations, plus 5- and 6-sensor layouts within 2 deviations
    for k in ((4,) if tier == "quick" else (4, 5, 6)):
        for sub in itertools.combinations(range(9), k):
            out.append(dict(kind="twin", family="jitter", subset=list(sub),
                            k=3 if (tier != "quick" and k == 4) else 2))
    # boundary outlines: quick = the 84 6-sensor layouts, thorough = all 336; full product under each
    for k in ((6,) if tier == "quick" else (4, 5, 6)):
        for sub in itertools.combinations(range(9), k):
            out.append(dict(kind="outline", family="jitter", subset=list(sub)))
    # compact arrays in wide boundaries: quick = the 84 6-sensor layouts within 2 deviations;
    # thorough = all 336 layouts, full product
    for k in ((6,) if tier == "quick" else (4, 5, 6)):
        for sub in itertools.combinations(range(9), k):
            out.append(dict(kind="aperture", family="jitter", subset=list(sub),
                            k=2 if tier == "quick" else None))
    # histories: one root per (layout pair, first request)
    for layout in range(1 if tier == "quick" else len(SESSION_LAYOUTS)):
        for first in range(len(session_menu())):
            out.append(dict(kind="session", layout=layout, menu="full", depth=2, first=first))
    if tier != "quick":
        for first in range(len(session_menu(True))):
            out.append(dict(kind="session", layout=0, menu="reduced", depth=3, first=first))
    return out


def run_root(root, ctx, tier):
    if root["kind"] == "vor":
        run_vor(root, ctx, tier)
    elif root["kind"] == "line":
        run_line(root, ctx, tier)
    elif root["kind"] == "twin":
        run_twin(root, ctx, tier)
    elif root["kind"] == "session":
        run_session(root, ctx, tier)
    elif root["kind"] == "outline":
        run_outline(root, ctx, tier)
    elif root["kind"] == "aperture":
        run_aperture(root, ctx, tier)
    else:
        run_mc(root, ctx, tier)


def finalize(ctx, tier):
    c = ctx.counters
    need = ["dropped_sensors", "order_changes_indices", "invariance_compared", "regions_checked",
            "mc_weight_sensitive", "mc_std_definition_sensitive", "closed_form_cases",
            "line_cases_agreeing", "twin_on_array_edge", "twin_in_array_interior",
            "session_requests_refused",
            "session_judged:same-bounding-box-other-shape-served-by-this-object",
            "outline_closed_ring", "outline_ends_distinct_within_1e-5_of_magnitude",
            "outline_invariance_compared", "outline_regions_checked",
            "aperture_boundary_over_1e3_apertures", "aperture_boundary_over_1e4_apertures",
            "aperture_boundary_over_1e5_apertures", "aperture_far_sensor_dropped",
            "session_judged:first-request", "session_judged:after-valid-request",
            "session_judged:boundary-array-overwritten-in-place",
            "session_judged:after-refused-request-on-this-object",
            "session_judged:after-refused-request-on-other-object",
            "session_judged:boundary-array-overwritten-in-place+after-refused-request-on-this-object"]
    missing = [k for k in need if not c.get(k, 0)]
    # the counters are only advanced by cases that pass; with violations outside the
    # collinear families on record they say nothing about vacuity
    if any(":collinear" not in k and ":near-collinear" not in k for k in ctx.violation_counts):
        return
    if missing or len(ctx.outcomes) < 100:
        ctx.violation("C14:vacuous", dict(kind="finalize"),
                      detail=dict(missing=missing, outcomes=len(ctx.outcomes)),
                      explanation="a non-vacuity counter stayed at zero: the driver cannot fail there")


def describe(tier):
    k = ("every case within 2 (jittered lattice) / 1 (regular lattice) deviations of the default"
         if tier == "quick" else "the full product")
    nvor = product.size(VOR_SPACE, 2 if tier == "quick" else None)
    return dict(
        rule="vor roots: all 4-, 5-, 6-subsets (126+126+84) of a 3x3 lattice, once with a fixed jitter of "
             "k/64 pitch (general position, asserted exactly) and once regular (co-circular/collinear "
             f"degeneracies); under each root {k} of outside sensors {{0,1,2}} x boundary "
             "{hexagon, square, clockwise triangle, quadrilateral with redundant points} x sensor order "
             "{identity, reversal, all rotations} x translation {0,1e2,1e4} extents x scale {1,1e-3,1e3}; "
             "each case = one real spatial_weights call judged against exact rational half-plane clipping "
             "(indices, non-negativity, sum, area fractions, invariance vs. the untransformed run; "
             "bounded_voronoi regions at the untransformed cases).  line roots: 4-5 exactly/nearly "
             "collinear sensors (eps 0, 2^-6, 2^-12, 2^-20) x 2 directions x 4 boundaries x scale {1,1e3}.  "
             "twin roots: a jittered layout plus one more sensor 2^-e pitches ("
             + ("e in 26,10,22" if tier == "quick" else "e in 26,10,22,18,30") + ") from one of its sensors: "
             + ("all 126 4-subsets, every case within 2 deviations" if tier == "quick" else
                "all 4-subsets within 3 deviations, all 5- and 6-subsets within 2 deviations")
             + " of spacing x which sensor (all) x direction {x, y, two oblique} x 4 boundaries x scale "
             + ("{1,1e3}" if tier == "quick" else "{1,1e3,1e-3}") +
             "; judged against the exact tessellation: indices, non-negativity, sum of all weights at 1e-9, "
             "every weight at max(1e-9, 16 eps extent/spacing).  "
             "session roots: every history of " + ("1-2" if tier == "quick" else "1-2 (3 layout pairs) and, "
             "over a reduced menu of 34 requests, 1-3") + " requests from a menu of 90 = 2 live objects "
             "(different layouts, one in reverse order, both with two outside sensors) x {spatial_weights, "
             "bounded_voronoi} x boundary {square, wide (retains the outside sensors), trapezoid, one holding "
             "two sensors, one holding none, and for square and wide a second quadrilateral with exactly the "
             "same bounding box and first two points but another shape, retaining other sensors} x boundary "
             "handed over as {fresh list, fresh array, ONE array "
             "the caller keeps and overwrites in place} + 6 malformed requests (three-column boundary, "
             "unknown declustering method); the last request of every history is judged by itself against "
             "the exact tessellation of its own arguments (requests with fewer than four sensors inside "
             "are executed, not judged, and the history goes on).  "
             "outline roots: " + ("the 84 6-sensor" if tier == "quick" else "all 336 4-, 5-, 6-sensor")
             + " jittered layouts plus one outside sensor; under each the full product of outline {square "
             "whose four corners are chamfered by 2^-4, 2^-7, 2^-10, 2^-2 pitches (8 hull vertices, neighbours "
             "down to 5e-8 of the coordinate magnitude apart at the largest offset), hexagon given as a closed "
             "ring (first point repeated at the end)} x the point the list starts with {4 positions: each "
             "chamfer in turn supplies the first and the last point of the list} x {counter-clockwise, "
             "clockwise} x translation {0,1e2,1e4} extents x scale "
             + ("{1,1e-3}" if tier == "quick" else "{1,1e-3,1e3}") + "; each case = one real spatial_weights "
             "call judged against the exact tessellation of exactly the floats handed over (indices, "
             "non-negativity, sum, area fractions) and against the untransformed run with the list in its "
             "first form (invariance under start point, direction, translation, scale); bounded_voronoi regions "
             "at the untranslated, unscaled cases.  "
             "aperture roots: " + ("the 84 6-sensor jittered layouts, every case within 2 deviations"
                                   if tier == "quick" else "all 336 jittered layouts, the full product")
             + " of {array shrunk about a point to 2^-10, 2^-13, 2^-17 of its size, so that the boundary is "
             "1.5e3 .. 4e5 times as wide as the array inside it} x {about the lattice centre, about the origin} "
             "x 4 boundaries x scale {1,1e-3,1e3} x {no further sensor, one more sensor 1e3 / 1e5 extents "
             "outside the boundary (the reverse: all sensors spread far wider than the boundary)}; each case = "
             "one real spatial_weights call judged against the exact tessellation (indices, non-negativity, "
             "sum, area fractions at 1e-9).  "
             "mc roots: full product of generator/spatial distribution (4) x generator count {4,2} x "
             "3 mean menus x 3 stddev menus (incl. all zero) x 5 weight menus (one produced by the real "
             "tessellation); under each n_realizations {1,10,1000} x seeds "
             + ("0..9" if tier == "quick" else "0..49") +
             ", each with a repeat call and two weight rescalings.  A tessellation case is non-trivial/"
             "distinct by (family, subset, outside, boundary) with non-uniform exact weights; a Monte-Carlo "
             "case when its weighted mean differs from the unweighted one.",
        bounds=dict(vor_cases_per_root=nvor, vor_roots=672, deviations="2 jitter / 1 regular" if tier == "quick" else "full",
                    mc_roots=product.size(MC_SPACE, None), seeds=10 if tier == "quick" else 50,
                    twin_roots=126 if tier == "quick" else 336,
                    twin_cases_per_4_sensor_root=product.size(twin_space(4, tier), 2 if tier == "quick" else 3),
                    outline_roots=84 if tier == "quick" else 336,
                    outline_cases_per_root=product.size(outline_space(tier), None),
                    aperture_roots=84 if tier == "quick" else 336,
                    aperture_cases_per_root=product.size(APERTURE_SPACE, 2 if tier == "quick" else None),
                    session_menu=len(session_menu()), session_depth="2" if tier == "quick" else "2 (full menu), 3 (reduced menu)",
                    session_histories=(len(session_menu()) * (1 + len(session_menu())) * (1 if tier == "quick" else 3)
                                       + (0 if tier == "quick" else
                                          sum(len(session_menu(True)) ** d for d in (1, 2, 3)))),
                    n_realizations=MC_NREAL, rtol="1e-9 (1e-6 at translation 1e4 extents)"),
        exhaustive=True,
        assumptions=["sensors exactly on the boundary are not generated (a knife-edge guard of 1e-9 extent "
                     "skips them); only strictly inside / strictly outside sensors are judged",
                     "the order of the returned indices is not pinned, only the mapping index -> weight",
                     "near-coincident sensors are at least 2^-30 pitches apart; exactly coincident sensors "
                     "(no nearest-sensor cell) are not generated; the weights of such a layout are held only "
                     "to the conditioning of the pair's bisector, max(1e-9, 16 eps extent/spacing) (4.8e-7 at "
                     "2^-26, 7.6e-6 at 2^-30 pitches), their total to 1e-9",
                     "boundaries that agree in a summary: only pairs with the same bounding box, number of points "
                     "and first two points are generated (not e.g. equal area or equal centroid)",
                     "neighbouring boundary points are at least 2^-10 pitches apart (before scaling) and are all "
                     "hull vertices; the hull is always taken of exactly the floats handed over",
                     "boundary extent / array aperture stays within 4e5 and absolute coordinates within 4e8 "
                     "(boundary itself within 6e3 units); larger ratios or boundaries are not generated",
                     "a history is a sequence of requests in one process on objects created at its start; "
                     "requests the statement does not quantify over (fewer than four sensors inside, malformed "
                     "arguments) may raise or return anything, but the requests after them are judged",
                     "weighted standard deviation = sqrt(sum w'(x-m)^2 / (1 - sum w'^2)) over all realisations "
                     "with w' = w_i / (n_realizations * sum w) (the reliability-weights estimator)",
                     "normal generators feeding a lognormal spatial distribution are given means >= 9 sigma "
                     "above zero; a case with a non-positive realisation would be skipped and counted",
                     "realisations are tied to their generators only grossly (row mean within 8 sigma/sqrt(n))"])
