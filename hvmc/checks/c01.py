"""C01 - HVSR curves equal the defined spectral ratio for every combination method.

E2: for each (three-component window, processing kind) root, every
configuration of {operator, bandwidth, Tukey width, centre-frequency set, FFT
request} within k deviations of the default (quick) or the full product on
the no-padding path (thorough) is executed through the real hvsrpy.process()
and compared with an independent pipeline: Tukey taper from its definition ->
explicit zero-padded DFT -> closed-form combination -> reference kernel matrix
-> ratio.  Metamorphic claims (common factor, horizontal/vertical scaling,
proportional components, alias names) are checked on the same cases.
"""
import contextlib
import io
import itertools
import math
import warnings
from fractions import Fraction

import numpy as np

import hvsrpy
from hvsrpy import TimeSeries, SeismicRecording3C

from hvmc import alphabets as A
from hvmc.engine import product
from hvmc.engine.core import close, bitwise_equal
from hvmc.ref import combine as RC
from hvmc.ref import dft as RD
from hvmc.ref import kernels as RK
from hvmc.ref import taper as RT

PROPERTY = "C01"
RTOL = 1e-9

FD_METHODS = ["geometric_mean", "arithmetic_mean", "squared_average", "quadratic_mean", "root_mean_square",
              "effective_amplitude_spectrum", "total_horizontal_energy", "vector_summation",
              "maximum_horizontal_value"]
AZIMUTHS = [0, 30, 90, 135, 180, -45, 400]
AZ_SETS = {"two": [0, 90], "four": [0, 45, 90, 135], "twelve": list(range(0, 180, 15)),
           "shuffled": [90, 0, 135, 45]}        # not ascending: row i must belong to the caller's i-th azimuth
PERCENTILES = [50, 0, 25, 100]

WINDOWS = [     # (ns, ew, vt signal names, L, dt, scale)
    ("noise1", "noise2", "noise3", 64, 0.01, 1.0),
    ("two_sines+noise4", "noise2", "ramp", 33, 0.01, 1.0),
    ("noise3", "offgrid_sine", "noise1", 16, 0.02, 1e3),
    ("ramp", "noise1", "noise2", 64, 1.0 / 75, 1e-3),
    ("noise2", "noise3", "two_sines+noise5", 33, 0.02, 1.0),
    ("impulse_mid", "noise3", "noise1", 9, 0.01, 1.0),
]
PROPORTIONAL = [(1.0, 1.0, 1.0), (3.0, 4.0, 2.0), (0.5, 2.0, 4.0), (-3.0, 4.0, 2.0)]


def kinds(tier):
    out = [dict(kind="fd", method=m) for m in FD_METHODS]
    for name in ("single_azimuth", "directional_energy"):
        for a in (AZIMUTHS if name == "single_azimuth" else AZIMUTHS[:3]):
            out.append(dict(kind="single", method=name, azimuth=a))
    for p in PERCENTILES:
        for s in AZ_SETS:
            out.append(dict(kind="rotdpp", percentile=p, azset=s))
    for s in AZ_SETS:
        out.append(dict(kind="azimuthal", azset=s))
    for n in (1, 2, 3):
        out.append(dict(kind="diffuse", nwin=n))
    return out


def config_space(L, dt, tier):
    fs = 1.0 / dt
    df = fs / L
    ops = [("konno_and_ohmachi", 40.0), ("konno_and_ohmachi", 10.0),
           ("parzen", 7.13 / (3 * df)), ("parzen", 7.13 / (10 * df)),
           ("linear_rectangular", 6 * df), ("linear_rectangular", 20 * df),
           ("linear_triangular", 6 * df), ("linear_triangular", 20 * df),
           ("log_rectangular", 0.2), ("log_rectangular", 0.6),
           ("log_triangular", 0.2), ("log_triangular", 0.6),
           ("savitzky_and_golay", 5), ("savitzky_and_golay", 9)]
    fcs = {"mid": [0.1 * fs, 0.2 * fs, 0.3 * fs],
           "offgrid": [0.123 * fs, 0.277 * fs, 0.41 * fs],
           "wide": [0.03 * fs, 0.15 * fs, 0.35 * fs, 0.495 * fs],
           # the same kind of request given as Python ints (an all-integer vector)
           "ints": [int(v) for v in (2, 5, 10, 20, 30) if v < 0.42 * fs and v > 1.5 * df]}
    space = dict(
        fft=["nopad", "default", "n65536", "n16", "nopad_ortho", "n65536_forward"],
        smoothing=[list(o) for o in ops],
        tukey=[0.1, 0.0, 0.5, 1.0],
        fcs=["mid", "offgrid", "wide", "ints"],
    )
    return space, fcs


FFT_REQ = {"nopad_ortho": lambda: {"n": None, "norm": "ortho"},      # a normalisation keyword scales H and V alike
           "n65536_forward": lambda: {"n": 65536, "norm": "forward"},
           "nopad": lambda: {"n": None}, "default": lambda: None,
           "n65536": lambda: {"n": 65536}, "n16": lambda: {"n": 16}}


# ---------------------------------------------------------------------------

_SIG_CACHE = {}


def _sig(name, L, scale):
    """Named signal; 'a+b' is a + 0.1*b (line spectra get a noise floor: a spectrum that is
    exactly zero between its lines makes every ratio 0/0-like and ill-conditioned)."""
    if "+" in name:
        a, b = name.split("+")
        return _sig(a, L, scale) + 0.1 * _sig(b, L, scale)
    if L <= 4096:
        return A.sig_array(name, L, scale)
    key = (name, L, scale)          # long signals are generated sample by sample in Python: keep a few
    if key not in _SIG_CACHE:
        if len(_SIG_CACHE) > 12:
            _SIG_CACHE.clear()
        _SIG_CACHE[key] = A.sig_array(name, L, scale)
    return _SIG_CACHE[key].copy()


def make_records(w, nwin=1, factors=(1.0, 1.0, 1.0), proportional=None, lengths=None):
    ns_n, ew_n, vt_n, L0, dt, scale = w
    recs = []
    for i in range(nwin):
        L = L0 if lengths is None else lengths[i]       # windows of different length in one call
        if proportional is None:
            ns = _sig(ns_n, L, scale) + 0.01 * scale * i
            ew = _sig(ew_n, L, scale) * (1 + 0.25 * i)
            vt = _sig(vt_n, L, scale) - 0.02 * scale * i
        else:
            s = _sig(ns_n, L, scale) * (1 + 0.25 * i)
            ns, ew, vt = proportional[0] * s, proportional[1] * s, proportional[2] * s
        recs.append(SeismicRecording3C(TimeSeries(ns * factors[0], dt), TimeSeries(ew * factors[1], dt),
                                       TimeSeries(vt * factors[2], dt)))
    return recs


def make_settings(kind, cfg, fcs):
    op, bw = cfg["smoothing"]
    kw = dict(window_type_and_width=["tukey", cfg["tukey"]],
              smoothing=dict(operator=op, bandwidth=bw, center_frequencies_in_hz=list(fcs)),
              fft_settings=FFT_REQ[cfg["fft"]]())
    k = kind["kind"]
    if k == "fd":
        return hvsrpy.HvsrTraditionalProcessingSettings(method_to_combine_horizontals=kind["method"], **kw)
    if k == "single":
        return hvsrpy.HvsrTraditionalSingleAzimuthProcessingSettings(
            method_to_combine_horizontals=kind["method"], azimuth_in_degrees=kind["azimuth"], **kw)
    if k == "rotdpp":
        return hvsrpy.HvsrTraditionalRotDppProcessingSettings(
            ppth_percentile_for_rotdpp_computation=kind["percentile"],
            azimuths_in_degrees=list(AZ_SETS[kind["azset"]]), **kw)
    if k == "azimuthal":
        return hvsrpy.HvsrAzimuthalProcessingSettings(azimuths_in_degrees=list(AZ_SETS[kind["azset"]]), **kw)
    if k == "diffuse":
        return hvsrpy.HvsrDiffuseFieldProcessingSettings(**kw)
    raise KeyError(k)


def run_process(recs, settings):
    """-> ('ok', curves 2-D array (rows), frequency) or ('raised', name, text)."""
    try:
        with warnings.catch_warnings(), contextlib.redirect_stdout(io.StringIO()):
            warnings.simplefilter("ignore")
            with np.errstate(all="ignore"):
                h = hvsrpy.process(recs, settings)
    except Exception as e:      # noqa: BLE001
        return ("raised", type(e).__name__, str(e)[:300])
    if isinstance(h, hvsrpy.HvsrAzimuthal):
        amp = np.vstack([np.atleast_2d(t.amplitude) for t in h.hvsrs])
    else:
        amp = np.atleast_2d(np.asarray(h.amplitude, dtype=float))
    return ("ok", amp, np.asarray(h.frequency, dtype=float))


# ---------------------------------------------------------------------------
# the reference pipeline

_W_CACHE = {}
_DFT_CACHE = {}
_TAPER_CACHE = {}      # reference Tukey windows by (length, width)
COND = 1e-6     # smoothed spectra below COND * (largest raw amplitude) are rounding noise: not compared


def _dft_matrix(n, L):
    key = (n, L)
    if key not in _DFT_CACHE:
        if len(_DFT_CACHE) > 6:
            _DFT_CACHE.clear()
        k = np.arange(n // 2 + 1, dtype=np.int64)[:, None]
        j = np.arange(L, dtype=np.int64)[None, :]
        _DFT_CACHE[key] = np.exp(-2j * np.pi * ((k * j) % n) / n)
    return _DFT_CACHE[key]


class Ref:
    def __init__(self, recs_arrays, dt, tukey, n):
        self.dt = dt
        self.n = n
        self.freq = RD.rfreq(n, dt)
        self.raw = recs_arrays          # list of (ns, ew, vt) numpy arrays (untapered)
        self.L = max(len(a[0]) for a in recs_arrays)
        self.tukey = tukey
        self._tapers = {}
        self.max_raw = 0.0

    def _taper(self, L):
        if L not in self._tapers:
            key = (L, self.tukey)
            if key not in _TAPER_CACHE:
                if len(_TAPER_CACHE) > 8:
                    _TAPER_CACHE.clear()
                _TAPER_CACHE[key] = np.array(RT.tukey(L, self.tukey))
            self._tapers[L] = _TAPER_CACHE[key]
        return self._tapers[L]

    bins = None     # when set: only these DFT bins are evaluated (long windows), others are 0
    ends = None     # set by smooth(): centres with a DFT bin exactly on an end of their window

    def spec(self, x):
        if self.n < self.L:
            raise ValueError("n < L")
        L = len(x)              # every window is tapered over its own length and padded to n
        xt = np.asarray(x) * self._taper(L)
        if self.bins is not None:
            a = np.zeros(self.n // 2 + 1)
            k = np.asarray(self.bins, dtype=np.int64)[:, None]
            j = np.arange(L, dtype=np.int64)[None, :]
            a[self.bins] = np.abs(np.exp(-2j * np.pi * ((k * j) % self.n) / self.n) @ xt)
            # scale of the whole spectrum (Parseval bound) for the conditioning guard
            self.max_raw = max(self.max_raw, float(a.max()))
            return a
        a = np.abs(_dft_matrix(self.n, L) @ xt)
        self.max_raw = max(self.max_raw, float(a.max()))
        return a

    def smooth(self, op, bw, fcs, rows):
        key = (op, bw, tuple(fcs), self.n, self.dt)
        if key not in _W_CACHE:
            if len(_W_CACHE) > 64:
                _W_CACHE.clear()
            _W_CACHE[key] = kernel_matrix(op, bw, fcs, self.freq, self.n, self.dt)
        Wm, knife, ends = _W_CACHE[key]
        self.ends = ends        # centres with a DFT bin EXACTLY on an end of their (closed) window
        return np.asarray(rows) @ Wm.T, knife


def _is_pow2(q):
    q = Fraction(q)
    if q <= 0:
        return False
    a, b = q.numerator, q.denominator
    return (a == 1 or b == 1) and (a & (a - 1)) == 0 and (b & (b - 1)) == 0


def kernel_matrix(op, bw, fcs, freq, n, dt):
    """Reference kernel matrix W[fc, f] on the DFT grid, the mask of knife-edge centres and the
    mask of centres that have a DFT bin EXACTLY on an end of their window.

    The rows are ``RK.row_info`` rows.  (a) Speed: row_info is evaluated on the samples within
    (1 + 1e-6) x the support only (every other sample has weight 0 in any admissible row; the
    1e-9 knife-edge band lies well inside), which gives the same row as the whole grid, sample
    for sample.  (b) Window ends: a sample whose distance from the centre equals the half-width
    EXACTLY (rational arithmetic on the doubles) is inside the closed window - not a knife edge -
    provided the DFT frequencies themselves are exact (n*dt a power of two: every k/(n*dt) is a
    double whichever way it is computed); on any other grid such a centre stays knife-edge."""
    freq = np.asarray(freq, dtype=float)
    fl = freq.tolist()
    nf = len(fl)
    W = np.zeros((len(fcs), nf))
    knife = np.zeros(len(fcs), dtype=bool)
    ends = np.zeros(len(fcs), dtype=bool)
    grid_exact = _is_pow2(Fraction(int(n)) * Fraction(float(dt)))
    for c, fc in enumerate(fcs):
        fc = float(fc)
        if op == "savitzky_and_golay" or fc < RK.F_MIN:
            info = RK.row_info(op, fl, fc, bw)
            idx = np.arange(nf)
        else:
            lim = RK.half_width(op, float(bw))
            with np.errstate(all="ignore"):
                if op in ("konno_and_ohmachi", "log_rectangular", "log_triangular"):
                    d = np.abs(np.log10(np.where(freq > 0, freq, 1.0) / fc))
                    slack = 1e-6 * max(lim, 1.0)
                else:
                    d = np.abs(freq - fc)
                    slack = 1e-6 * np.maximum(np.maximum(lim, np.abs(freq)), abs(fc))
            idx = np.nonzero((freq >= RK.F_MIN) & (d <= lim + slack))[0]
            info = RK.row_info(op, [fl[i] for i in idx], fc, bw, closed_ends=True)
        W[c, idx] = info["alternatives"][0]
        knife[c] = len(info["alternatives"]) > 1
        if info.get("ends"):
            if grid_exact:
                ends[c] = True
            else:
                knife[c] = True
    return W, knife, ends


def reference(kind, cfg, fcs, recs_arrays, dt, n):
    """-> (curves 2-D, mask of centres not to compare (knife-edge or ill-conditioned), positive flag,
    mask of centres with a DFT bin exactly on an end of their smoothing window)"""
    op, bw = cfg["smoothing"]
    r = Ref(recs_arrays, dt, cfg["tukey"], n)
    if r.L > 4096:
        # long window (the longest of the call decides): evaluate only the DFT bins that carry kernel weight
        r.smooth(op, bw, fcs, np.zeros((1, n // 2 + 1)))
        Wfull = _W_CACHE[(op, bw, tuple(fcs), n, dt)][0]
        r.bins = np.nonzero(np.abs(Wfull).sum(axis=0) > 0)[0]
    k = kind["kind"]
    rows_h, rows_v = [], []
    if k == "fd":
        for ns, ew, vt in recs_arrays:
            rows_h.append(RC.combine(kind["method"], r.spec(ns), r.spec(ew)))
            rows_v.append(r.spec(vt))
    elif k == "single":
        for ns, ew, vt in recs_arrays:
            rows_h.append(r.spec(RC.project(ns, ew, kind["azimuth"])))
            rows_v.append(r.spec(vt))
    elif k == "azimuthal":
        for az in AZ_SETS[kind["azset"]]:
            for ns, ew, vt in recs_arrays:
                rows_h.append(r.spec(RC.project(ns, ew, az)))
                rows_v.append(r.spec(vt))
    elif k == "rotdpp":
        curves, skip, pos = [], None, True
        for ns, ew, vt in recs_arrays:
            hs = [r.spec(RC.project(ns, ew, az)) for az in AZ_SETS[kind["azset"]]]
            fv = r.spec(vt)
            sh, kn = r.smooth(op, bw, fcs, hs)
            sv, _ = r.smooth(op, bw, fcs, [fv])
            hp = RC.percentile(sh, kind["percentile"])
            pos = pos and bool(np.all(sh > 0)) and bool(np.all(sv > 0))
            with np.errstate(all="ignore"):
                curves.append(hp / sv[0])
            bad = kn | (np.abs(sh).min(axis=0) < COND * r.max_raw) | (np.abs(sv[0]) < COND * r.max_raw)
            skip = bad if skip is None else (skip | bad)
        return np.array(curves), skip, pos, r.ends
    elif k == "diffuse":
        ph = sum(r.spec(ns) ** 2 + r.spec(ew) ** 2 for ns, ew, vt in recs_arrays)
        pv = sum(r.spec(vt) ** 2 for ns, ew, vt in recs_arrays)
        s, kn = r.smooth(op, bw, fcs, [ph, pv])
        pos = bool(np.all(s > 0))
        bad = kn | (np.abs(s).min(axis=0) < (COND * r.max_raw) ** 2)
        with np.errstate(all="ignore"):
            return np.sqrt(s[0] / s[1])[None, :], bad, pos, r.ends
    sh, kn = r.smooth(op, bw, fcs, rows_h)
    sv, _ = r.smooth(op, bw, fcs, rows_v)
    pos = bool(np.all(sh > 0)) and bool(np.all(sv > 0))
    bad = kn | (np.abs(sh).min(axis=0) < COND * r.max_raw) | (np.abs(sv).min(axis=0) < COND * r.max_raw)
    with np.errstate(all="ignore"):
        return sh / sv, bad, pos, r.ends


def signal_condition(sig, dt, cfg, fcs, n):
    """Centres at which the smoothed spectrum of one signal is well above rounding noise."""
    op, bw = cfg["smoothing"]
    r = Ref([(sig, sig, sig)], dt, cfg["tukey"], n)
    s, kn = r.smooth(op, bw, fcs, [r.spec(sig)])
    return ~(kn | (np.abs(s[0]) < COND * r.max_raw))


def flat_value(kind, Afac, Bfac, Cfac):
    """Closed-form value of the flat curve for proportional components."""
    k = kind["kind"]
    if k == "fd":
        return [float(RC.combine(kind["method"], abs(Afac), abs(Bfac)) / abs(Cfac))]
    if k == "single":
        t = math.radians(kind["azimuth"])
        return [abs(Afac * math.cos(t) + Bfac * math.sin(t)) / abs(Cfac)]
    if k == "azimuthal":
        return [abs(Afac * math.cos(math.radians(a)) + Bfac * math.sin(math.radians(a))) / abs(Cfac)
                for a in AZ_SETS[kind["azset"]]]
    if k == "rotdpp":
        vals = [[abs(Afac * math.cos(math.radians(a)) + Bfac * math.sin(math.radians(a))) / abs(Cfac)]
                for a in AZ_SETS[kind["azset"]]]
        return [float(RC.percentile(vals, kind["percentile"])[0])]
    if k == "diffuse":
        return [math.sqrt(Afac * Afac + Bfac * Bfac) / abs(Cfac)]
    raise KeyError(k)


# ---------------------------------------------------------------------------

def roots(tier, seed):
    out = []
    ks = kinds(tier)
    wins = WINDOWS if tier == "thorough" else WINDOWS[:4]
    heavy = []
    for wi, w in enumerate(wins):
        for kind in ks:
            if kind["kind"] == "azimuthal":
                # every azimuth is a whole 32768-point processing run: such a root is dealt out in `parts`
                # (its configurations i, i+k, i+2k, ...) and placed first, so that the workers end together
                k = max(1, len(AZ_SETS[kind["azset"]]) // 2)
                heavy += [(-len(AZ_SETS[kind["azset"]]), dict(window=list(w), kind=kind, wi=wi, part=[i, k]))
                          for i in range(k)]
            else:
                out.append(dict(window=list(w), kind=kind, wi=wi))
    for wi, w in enumerate(wins[:2] if tier == "quick" else wins[:4]):
        for kind in HEAVY_KINDS:
            out.append(dict(window=list(w), kind=kind, wi=wi, unequal=True))
    heavy.sort(key=lambda t: t[0])
    return [r for _, r in heavy] + _long_roots(tier) + _ongrid_roots(tier) + _mixed_dt_roots(tier) + out


LONG_LENGTHS = [32768, 32769, 40000]
LONG_KINDS = [dict(kind="fd", method="geometric_mean"), dict(kind="single", method="single_azimuth", azimuth=30),
              dict(kind="rotdpp", percentile=50, azset="two"), dict(kind="diffuse", nwin=2)]


# windows of different length in ONE call, at least one of them longer than 2**15 samples: every ordered pair of
# distinct lengths from {short, 2**15, long} and the three lengths together with the longest first / in the
# middle / last (quick) or in all six orders (thorough)
LONG_UNEQUAL_LENGTHS = [500, 32768, 40000]


def _long_unequal_sequences(tier):
    a = LONG_UNEQUAL_LENGTHS
    seqs = [[x, y] for x in a for y in a if x != y]
    if tier == "thorough":
        seqs += [list(q) for q in itertools.permutations(a)]
    else:
        seqs += [[a[2], a[1], a[0]], [a[0], a[2], a[1]], [a[1], a[0], a[2]]]
    return seqs


def _long_roots(tier):
    out = []
    lkinds = LONG_KINDS if tier == "thorough" else LONG_KINDS[:2] + LONG_KINDS[3:]
    for L in LONG_LENGTHS:
        for kind in lkinds:
            out.append(dict(window=["noise1", "noise2", "noise3", L, 0.01, 1.0], kind=kind, wi=-1, long=True))
    for lengths in _long_unequal_sequences(tier):
        for kind in lkinds:
            out.append(dict(window=["noise1", "noise2", "noise3", max(lengths), 0.01, 1.0], kind=kind, wi=-1,
                            long=True, lengths=lengths))
    return out


def _run_long(root, ctx):
    """Windows longer than 2**15 samples: the default FFT length must still cover the window."""
    w = tuple(root["window"])
    kind = root["kind"]
    L, dt = w[3], w[4]
    fs = 1.0 / dt
    tag = _kind_tag(kind)
    for fft in ("default", "nopad"):
        n_guess = L if fft == "nopad" else 65536
        df = fs / n_guess
        cfg = dict(fft=fft, smoothing=["linear_rectangular", 6 * df], tukey=0.1, fcs="long")
        fcs = [0.05013 * fs, 0.20031 * fs, 0.40073 * fs]     # off the DFT grid of every FFT length used here
        ctx.count("states")
        lengths = root.get("lengths")
        if lengths is None:
            _one_case(ctx, root, kind, tag, w, kind.get("nwin", 1), cfg, fcs, metamorphic=False)
        else:
            ctx.count("long_unequal_length_cases")
            _one_case(ctx, root, dict(kind, nwin=len(lengths)), tag, w, len(lengths), cfg, fcs, False,
                      lengths=list(lengths))


# ---------------------------------------------------------------------------
# DFT bins EXACTLY on the ends of smoothing windows.  With a binary-friendly time step (dt = 2**-k) and a
# power-of-two FFT length every DFT frequency is an exact double; centre frequencies and bandwidths on that grid
# then put bins exactly on fc -/+ half-width.  The window of every operator is closed (ref/kernels.py: limits
# inclusive), so these bins belong to the average; on the decimal time steps of WINDOWS no such tie ever occurs.

ONGRID_WINDOWS = [     # (ns, ew, vt, L, dt, scale): no-padding spacing df = 1 Hz and 2 Hz
    ("noise1", "noise2", "noise3", 64, 1.0 / 64, 1.0),
    ("two_sines+noise4", "noise2", "ramp", 64, 1.0 / 128, 1e3),
]
ONGRID_KINDS_QUICK = [dict(kind="fd", method="geometric_mean"), dict(kind="fd", method="squared_average"),
                      dict(kind="single", method="single_azimuth", azimuth=30),
                      dict(kind="rotdpp", percentile=50, azset="four"), dict(kind="azimuthal", azset="two"),
                      dict(kind="diffuse", nwin=2)]


def ongrid_space(L, dt):
    df = 1.0 / (L * dt)
    ops = [("linear_rectangular", 2 * df), ("linear_rectangular", 6 * df),   # ends on bins for centres on bins
           ("linear_rectangular", 3 * df),                                   # ... for centres midway between bins
           ("linear_rectangular", 0.5),     # narrower than the no-padding spacing: ends are bins of padded grids only
           ("linear_triangular", 6 * df),
           ("log_rectangular", 2.0),        # half-width one whole decade: ends fc/10 and 10 fc
           ("log_rectangular", 0.2),
           ("log_triangular", 2.0),
           ("konno_and_ohmachi", 3.0),      # support 10**(3/b) = one whole decade
           ("konno_and_ohmachi", 40.0),
           ("parzen", 7.13 / (3 * df)),
           ("savitzky_and_golay", 5)]
    fcs = {"bins": [2.0, 4.0, 20.0, 30.0],                      # 2 -> 20, 4 -> 40 (dt = 1/128), 20 -> 2 are decades
           "halfbins": [(k + 0.5) * df for k in (2, 5, 11)],
           "quarters": [2.25, 4.5, 12.0, 1.0]}                   # on the padded grids only
    return [list(o) for o in ops], fcs


def _ongrid_roots(tier):
    out = []
    for wi, w in enumerate(ONGRID_WINDOWS):
        ops, _ = ongrid_space(w[3], w[4])
        for op in ops:
            out.append(dict(window=list(w), ongrid=True, smoothing=op, wi=wi,
                            kind=dict(kind="ongrid", operator=op[0])))
    return out


def _run_ongrid(root, ctx, tier):
    """root = (binary-friendly window, operator/bandwidth); every processing kind x centre-frequency set x FFT
    request under it (one kernel matrix serves all kinds)."""
    w = tuple(root["window"])
    _, fcs_sets = ongrid_space(w[3], w[4])
    ffts = ["nopad", "default"] + (["n65536"] if tier == "thorough" else [])
    for kind in (HEAVY_KINDS if tier == "thorough" else ONGRID_KINDS_QUICK):
        tag = _kind_tag(kind)
        for fcs_name in fcs_sets:
            for fft in ffts:
                for tukey in ((0.1, 0.0) if tier == "thorough" else (0.1,)):
                    cfg = dict(fft=fft, smoothing=list(root["smoothing"]), tukey=tukey, fcs=fcs_name)
                    ctx.count("states")
                    ctx.count("ongrid_cases")
                    _one_case(ctx, root, kind, tag, w, kind.get("nwin", 1), cfg, fcs_sets[fcs_name], False)
    ctx.nontrivial_case(("ongrid", root["wi"], repr(root["smoothing"])))

# ---------------------------------------------------------------------------
# Records with DIFFERENT time steps in one call (default handling: every record is transformed on its own
# frequency grid and smoothed onto the common centre frequencies).  hvsrpy processes such a list group by group
# and puts the rows back in the caller's order; "each returned curve" is the curve of ITS record, so row i is
# judged against the reference pipeline of record i alone (its own dt) (its own grid).
# Orders: every sequence of length 3 and 4 over two time steps in which both occur, plus sequences of length 5
# over three time steps - this contains orders whose grouping permutation is not its own inverse (3- and 4-cycles).

MIXED_DTS = [0.01, 0.02, 0.005]
MIXED_L = 128
MIXED_KINDS = [k for k in
               [dict(kind="fd", method=m) for m in FD_METHODS] +
               [dict(kind="single", method="single_azimuth", azimuth=30),
                dict(kind="rotdpp", percentile=50, azset="four"), dict(kind="azimuthal", azset="shuffled")]]
MIXED_KINDS_QUICK = [k for k in MIXED_KINDS if k.get("method", "geometric_mean") in
                     ("geometric_mean", "squared_average", "maximum_horizontal_value", "single_azimuth")]
FFT_REQ["n512"] = lambda: {"n": 512}


def mixed_dt_sequences():
    seqs = [list(q) for n in (3, 4) for q in itertools.product((0, 1), repeat=n) if len(set(q)) == 2]
    seqs += [[0, 1, 2, 0, 1], [2, 0, 1, 1, 0], [1, 0, 0, 2, 0], [1, 2, 0, 2, 1]]
    return seqs


def _grouping_is_involution(seq):
    """Is the permutation 'position in the order grouped by time step (groups by first appearance)' its own
    inverse?  (Only for the non-vacuity counter; the oracle does not depend on how hvsrpy groups.)"""
    firsts = []
    for d in seq:
        if d not in firsts:
            firsts.append(d)
    order = [i for d in firsts for i in range(len(seq)) if seq[i] == d]      # order[cur] = org
    return all(order[order[i]] == i for i in range(len(seq)))


def _mixed_dt_roots(tier):
    w = ["noise1", "noise2", "noise3", MIXED_L, MIXED_DTS[0], 1.0]
    return [dict(window=w, kind=k, wi=-2, mixed_dt=True)
            for k in (MIXED_KINDS if tier == "thorough" else MIXED_KINDS_QUICK)]


def _run_mixed_dt(root, ctx, tier):
    w = tuple(root["window"])
    kind = root["kind"]
    tag = _kind_tag(kind)
    L = w[3]
    fs_min = 1.0 / max(MIXED_DTS)
    fcs = [0.123 * fs_min, 0.277 * fs_min, 0.41 * fs_min]        # below every record's Nyquist frequency
    ops = [["konno_and_ohmachi", 10.0], ["linear_rectangular", 6 * fs_min / L], ["parzen", 7.13 * L / (6 * fs_min)]]
    if tier == "quick":
        ops = ops[:2]
    naz = len(AZ_SETS[kind["azset"]]) if kind["kind"] == "azimuthal" else 1
    for seq in mixed_dt_sequences():
        dts = [MIXED_DTS[d] for d in seq]
        base = _arrays(make_records(w, len(seq)))       # record i differs from record j in all three components

        def build(idx):
            return [SeismicRecording3C(TimeSeries(base[i][0].copy(), dts[i]), TimeSeries(base[i][1].copy(), dts[i]),
                                       TimeSeries(base[i][2].copy(), dts[i])) for i in idx]
        for op in ops:
            for fft in ("nopad", "n512"):
                cfg = dict(fft=fft, smoothing=list(op), tukey=0.1, fcs="mixed")
                detail = dict(kind=kind, config=cfg, fcs=fcs, time_steps=dts)
                ctx.count("states")
                ctx.count("mixed_dt_cases")
                if not _grouping_is_involution(seq):
                    ctx.count("mixed_dt_orders_whose_grouping_is_not_an_involution")
                settings = make_settings(kind, cfg, fcs)
                res = run_process(build(range(len(seq))), settings)
                ctx.count("transitions")
                n = None if settings.fft_settings is None else settings.fft_settings.get("n")
                if res[0] == "ok" and (n is None or n < L):
                    ctx.violation(f"C01:{tag}:fft-length-shorter-than-window", root, detail=detail,
                                  expected=f">= {L}", observed=n, explanation="FFT length after the call is smaller "
                                                                              "than the window")
                    continue
                n = n if n is not None and n >= L else (L if fft == "nopad" else 512)
                refs, skip, positive = [], np.zeros(len(fcs), dtype=bool), True
                for i in range(len(seq)):
                    r_i, kn, pos, _ = reference(kind, cfg, fcs, [base[i]], dts[i], n)
                    refs.append(r_i)
                    skip |= np.asarray(kn, dtype=bool)
                    positive = positive and pos and bool(np.all(np.isfinite(r_i)))
                if not positive:
                    ctx.count("skipped_nonpositive_reference")
                    continue
                if res[0] == "raised":
                    ctx.violation(f"C01:{tag}:mixed-dt:raises:{res[1]}", root, detail=detail, expected="curves",
                                  observed=list(res[1:]), explanation="process() raised on records with different "
                                  "time steps although every record's reference ratio is finite and positive")
                    continue
                amp = res[1]
                if amp.shape != (naz * len(seq), len(fcs)):
                    ctx.violation(f"C01:{tag}:mixed-dt:shape", root, detail=detail,
                                  expected=[naz * len(seq), len(fcs)], observed=list(amp.shape),
                                  explanation="number of curves/centres differs from the reference")
                    continue
                ctx.count("validated")
                cols = ~skip
                if not cols.any():
                    ctx.count("centres_not_compared_knife_or_illconditioned", int(skip.sum()))
                    continue
                # rows of record i: azimuthal results are azimuth-major (one HvsrTraditional per azimuth)
                got = [amp[i::len(seq)] if naz > 1 else amp[i:i + 1] for i in range(len(seq))]
                wrong = [i for i in range(len(seq)) if not close(got[i][:, cols], refs[i][:, cols], rtol=RTOL)]
                if wrong:
                    permuted = all(any(close(got[i][:, cols], refs[j][:, cols], rtol=RTOL) for j in range(len(seq)))
                                   for i in range(len(seq)))
                    ctx.violation(f"C01:{tag}:mixed-dt:" + ("rows-permuted" if permuted else "ratio"), root,
                                  detail=dict(detail, wrong_records=wrong, fft_n=n),
                                  expected=[r.tolist() for r in refs], observed=[g.tolist() for g in got],
                                  explanation="with records of different time steps in one call, the curve(s) returned "
                                              "for record i are not smoothed horizontal / smoothed vertical of "
                                              "record i" + ("; every row is the correct curve of ANOTHER record "
                                                            "(rows not in the caller's order)" if permuted else ""))
    ctx.nontrivial_case(("mixed_dt", repr(kind)))


def _kind_tag(kind):
    return kind["kind"] + (":" + kind["method"] if "method" in kind else "")


HEAVY_KINDS = [dict(kind="fd", method="geometric_mean"), dict(kind="fd", method="squared_average"),
               dict(kind="fd", method="maximum_horizontal_value"), dict(kind="fd", method="arithmetic_mean"),
               dict(kind="fd", method="vector_summation"),
               dict(kind="single", method="single_azimuth", azimuth=30),
               dict(kind="rotdpp", percentile=50, azset="four"), dict(kind="azimuthal", azset="two"),
               dict(kind="diffuse", nwin=2)]


def _ndev(space, cfg):
    return sum(1 for d in space if cfg[d] != space[d][0])


def run_root(root, ctx, tier):
    if root.get("long"):
        _run_long(root, ctx)
        ctx.nontrivial_case(("long", repr(root.get("lengths", root["window"][3])), repr(root["kind"])))
        return
    if root.get("ongrid"):
        _run_ongrid(root, ctx, tier)
        return
    if root.get("mixed_dt"):
        _run_mixed_dt(root, ctx, tier)
        return
    w = tuple(root["window"])
    kind = root["kind"]
    L, dt = w[3], w[4]
    space, fcs_sets = config_space(L, dt, tier)
    if root.get("unequal"):
        # three windows of different length in ONE call, the longest first / in the middle / last
        tag = _kind_tag(kind)
        sub = dict(space, fft=["nopad", "default", "nopad_ortho", "n16"])
        for lengths in ([L, L - 5, L - 2], [L - 5, L, L - 2], [L - 5, L - 2, L]):
            for cfg in product.deviations(sub, 1):
                ctx.count("states")
                ctx.count("unequal_length_cases")
                _one_case(ctx, root, dict(kind, nwin=3), tag, w, 3, cfg, fcs_sets[cfg["fcs"]], False, lengths=lengths)
        ctx.nontrivial_case(("unequal", root["wi"], repr(kind)))
        return
    nwin = kind.get("nwin", 2 if root["wi"] % 2 else 1)
    tag = _kind_tag(kind)
    nopad = dict(space, fft=["nopad", "nopad_ortho"])
    if tier == "quick":
        cases = [(c, _ndev(space, c) <= 1) for c in product.deviations(nopad, 2)]
    else:
        cases = [(c, _ndev(space, c) <= 2) for c in product.deviations(nopad, None)]
    # padded FFT paths (reference costs ~0.5 s per case): first window, one kind per formula,
    # FFT request x (default or one other deviation)
    if root["wi"] == 0 and kind in HEAVY_KINDS:
        padded = dict(space, fft=[f for f in space["fft"] if not f.startswith("nopad")])
        for c in product.deviations(padded, 1 if tier == "quick" else 2):
            if tier == "quick" and c["smoothing"] != space["smoothing"][0] and c["smoothing"][1] != \
                    [o for o in space["smoothing"] if o[0] == c["smoothing"][0]][0][1]:
                continue        # quick: first bandwidth of each operator only
            cases.append((c, False))
        for c in product.deviations(dict(padded, fft=["n65536", "n16"]), 0):
            cases.append((c, False))
    seen, distinct = set(), []
    for cfg, meta in cases:
        if repr(cfg) not in seen:
            seen.add(repr(cfg))
            distinct.append((cfg, meta))
    if root.get("part"):
        distinct = distinct[root["part"][0]::root["part"][1]]
    for cfg, meta in distinct:
        fcs = fcs_sets[cfg["fcs"]]
        ctx.count("states")
        _one_case(ctx, root, kind, tag, w, nwin, cfg, fcs, meta)
    ctx.nontrivial_case((root["wi"], repr(kind)))


def _arrays(recs):
    return [(r.ns.amplitude.copy(), r.ew.amplitude.copy(), r.vt.amplitude.copy()) for r in recs]


def _one_case(ctx, root, kind, tag, w, nwin, cfg, fcs, metamorphic=True, lengths=None):
    L, dt = w[3] if lengths is None else max(lengths), w[4]
    recs = make_records(w, nwin, lengths=lengths)
    arrays = _arrays(recs)
    settings = make_settings(kind, cfg, fcs)
    res = run_process(recs, settings)
    ctx.count("transitions")
    detail = dict(kind=kind, config=cfg, fcs=list(fcs), nwin=nwin, window_lengths=lengths)
    n_after = None if settings.fft_settings is None else settings.fft_settings.get("n")
    # (ii) never truncation
    if res[0] == "ok" and (n_after is None or n_after < L):
        ctx.violation(f"C01:{tag}:fft-length-shorter-than-window", root, detail=detail, expected=f">= {L}",
                      observed=n_after, explanation="FFT length after the call is smaller than the window: "
                                                    "the spectrum is of a truncated window")
        return
    n = n_after if n_after is not None and n_after >= L else max(L, 32768)
    try:
        ref, knife, positive, ends = reference(kind, cfg, fcs, arrays, dt, n)
        knife = np.asarray(knife, dtype=bool)
        ends = np.zeros(len(fcs), dtype=bool) if ends is None else np.asarray(ends, dtype=bool)
    except ZeroDivisionError:
        ctx.count("skipped_reference_undefined")
        return
    if not positive or not np.all(np.isfinite(ref)):
        # empty window / negative Savitzky-Golay output: refusal, not a wrong curve (C02 covers it)
        ctx.count("skipped_nonpositive_reference")
        ctx.outcome(("nonpositive", res[0]))
        return
    if res[0] == "raised":
        ctx.violation(f"C01:{tag}:raises:{res[1]}", root, detail=detail, expected="a curve", observed=list(res[1:]),
                      explanation="process() raised although the reference ratio is finite and positive")
        return
    _, amp, frq = res
    ctx.count("validated")
    ctx.outcome(("ok", tag, cfg["smoothing"][0], cfg["fft"], round(float(amp.flat[0]), 6)))
    if len(ctx.samples) < 3:
        ctx.sample(dict(root=root, config=cfg, first_amplitudes=amp[0][:3].tolist()))
    if not (frq.shape == (len(fcs),) and np.all(frq == np.asarray(fcs))):
        ctx.violation(f"C01:{tag}:frequency-vector", root, detail=detail, expected=list(fcs), observed=frq.tolist(),
                      explanation="returned frequency vector is not the requested centre frequencies")
    if amp.shape != ref.shape:
        ctx.violation(f"C01:{tag}:shape", root, detail=detail, expected=list(ref.shape), observed=list(amp.shape),
                      explanation="number of curves/centres differs from the reference")
        return
    ok_cols = ~knife
    if knife.any():
        ctx.count("centres_not_compared_knife_or_illconditioned", int(knife.sum()))
    if not ok_cols.any():
        return
    if (ends & ok_cols).any():
        ctx.count("centres_with_bin_exactly_on_window_end:" + cfg["smoothing"][0], int((ends & ok_cols).sum()))
    if not close(amp[:, ok_cols], ref[:, ok_cols], rtol=RTOL):
        key = f"C01:{tag}:ratio:{cfg['smoothing'][0]}:{'nopad' if cfg['fft'].startswith('nopad') else 'padded'}"
        explanation = ("curve differs from smoothed combined-horizontal / smoothed vertical amplitude "
                       "spectrum of the tapered zero-padded window")
        wrong = np.array([not close(amp[:, c], ref[:, c], rtol=RTOL) for c in range(len(fcs))]) & ok_cols
        if wrong.any() and not (wrong & ~ends).any():
            key += ":exact-window-end"      # every other centre agrees: the defect is in the treatment of the ends
            explanation += ("; only centres whose (closed) smoothing window has a DFT bin exactly on one of "
                            "its ends differ")
        ctx.violation(key, root, detail=dict(detail, fft_n=n, centres_with_bin_on_window_end=ends.tolist()),
                      expected=ref.tolist(), observed=amp.tolist(), explanation=explanation)
    if not cfg["fft"].startswith("nopad") or not metamorphic or lengths is not None:
        return      # metamorphic claims on the cheap path, low-deviation cases
    # (iii) metamorphic claims (fresh settings with the same resolved FFT length)
    def again(factors=(1.0, 1.0, 1.0), proportional=None, kind2=None):
        s2 = make_settings(kind2 or kind, cfg, fcs)
        r2 = run_process(make_records(w, nwin, factors, proportional), s2)
        ctx.count("transitions")
        return r2
    for c in (1e-3, 7.0, -2.0, 1e-18, 1e18):       # "any amplitude scale": also far from unity
        r2 = again((c, c, c))
        if r2[0] != "ok" or not close(r2[1], amp, rtol=RTOL):
            ctx.violation(f"C01:{tag}:common-factor", root, detail=dict(detail, factor=c),
                          expected=amp.tolist(), observed=_obs(r2),
                          explanation="multiplying all three components by one factor changes the curve")
    for c in (4.0, -0.5):
        r2 = again((c, c, 1.0))
        if r2[0] != "ok" or not close(r2[1], amp * abs(c), rtol=RTOL):
            ctx.violation(f"C01:{tag}:horizontal-scaling", root, detail=dict(detail, factor=c),
                          expected=(amp * abs(c)).tolist(), observed=_obs(r2),
                          explanation="curve does not scale linearly with the horizontals")
        r2 = again((1.0, 1.0, c))
        if r2[0] != "ok" or not close(r2[1], amp / abs(c), rtol=RTOL):
            ctx.violation(f"C01:{tag}:vertical-scaling", root, detail=dict(detail, factor=c),
                          expected=(amp / abs(c)).tolist(), observed=_obs(r2),
                          explanation="curve does not scale inversely with the vertical")
    if True:
        pcols = signal_condition(_sig(w[0], L, w[5]), dt, cfg, fcs, n)
        for (Af, Bf, Cf) in PROPORTIONAL:
            if not pcols.any():
                ctx.count("proportional_illconditioned")
                break
            r2 = again(proportional=(Af, Bf, Cf))
            want = flat_value(kind, Af, Bf, Cf)
            if r2[0] == "raised":
                # proportional components share their spectral zeros: 0/0 is a refusal, not a wrong value
                ctx.count("proportional_refused")
                continue
            rows_per = r2[1].shape[0] // len(want)
            exp = np.repeat(np.array(want), rows_per)[:, None] * np.ones((1, r2[1].shape[1]))
            if not close(r2[1][:, pcols], exp[:, pcols], rtol=1e-7,
                         atol=1e-9 * max(abs(Af), abs(Bf)) / abs(Cf)):
                ctx.violation(f"C01:{tag}:proportional-flat", root, detail=dict(detail, ABC=[Af, Bf, Cf]),
                              expected=want, observed=_obs(r2),
                              explanation="proportional components do not give a flat curve at "
                                          "combine(A,B)/|C|")
    # (iv) aliases bit-identical to canonical names
    if kind["kind"] in ("fd", "single") and RC.CANONICAL[kind["method"]] != kind["method"]:
        k2 = dict(kind, method=RC.CANONICAL[kind["method"]])
        r2 = again(kind2=k2)
        if r2[0] != "ok" or not bitwise_equal(r2[1], amp):
            ctx.violation(f"C01:{tag}:alias-differs-from-canonical", root, detail=detail,
                          expected=_obs(r2), observed=amp.tolist(),
                          explanation=f"alias {kind['method']} differs from {k2['method']}")


def _obs(r):
    return r[1].tolist() if r[0] == "ok" else list(r[1:])


def describe(tier):
    return dict(
        rule="root = (three-component window from 4 (quick) / 6 (thorough) signal triples x L x dt x scale, "
             "processing kind: 9 frequency-domain names, single_azimuth/directional_energy x azimuths, "
             "rotdpp x percentile x azimuth set, azimuthal x azimuth set, diffuse field x 1-3 windows); under "
             "each root every configuration of {4 FFT requests, 14 operator/bandwidth pairs, 4 Tukey widths, 3 "
             "centre-frequency sets} within 2 deviations of the default (quick) or the full product on the "
             "no-padding path plus 2 deviations on the padded paths (thorough); non-trivial/distinct = (window, kind)",
        bounds=dict(deviations=2, windows="4 quick / 6 thorough", padded_fft="first window root(s) only"),
        exhaustive=True,
        assumptions=["the FFT length is read back from settings.fft_settings['n'] after the call (required >= window "
                     "length); any n >= L satisfies 'zero-padded'",
                     "configurations whose reference smoothed spectra are not strictly positive are refusals and are "
                     "not compared (C02 covers empty windows)",
                     "centre frequencies that are knife-edge for the reference kernel are not compared"])


_describe_base = describe


def describe(tier):     # noqa: F811 - the base description plus what later rounds added to the space
    d = _describe_base(tier)
    d["rule"] = d["rule"] + " " + 'Further roots: three windows of different length in ONE call (L, L-5, L-2 in three orders) x 9 kinds x FFT requests {nopad, default, nopad_ortho, n16} within one deviation of the default configuration; the reference tapers every window over its own length and pads it to the FFT length.'
    return d


_describe_r4 = describe


def describe(tier):     # noqa: F811
    d = _describe_r4(tier)
    d["rule"] += (
        " Long-window roots: one window of 32768 / 32769 / 40000 samples x 3 (quick) / 4 (thorough) kinds x FFT "
        "requests {default, nopad}; and windows of different length in ONE call with at least one longer than "
        "2**15 samples: every ordered pair of distinct lengths from {500, 32768, 40000} plus the three lengths "
        "together with the longest first / in the middle / last (quick) or in all six orders (thorough) x the same "
        "kinds x {default, nopad}; linear_rectangular over 6 bins at three centres off the DFT grid; the reference "
        "evaluates only the DFT bins that carry kernel weight; oracle (ii) (FFT length after the call >= the LONGEST "
        "window of the call) and (i). "
        "Exact-window-end roots: 2 windows with binary-friendly time steps (dt = 1/64, 1/128 s, L = 64: every DFT "
        "frequency of a power-of-two FFT length is an exact double) x 12 operator/bandwidth pairs (linear_rectangular "
        "2, 6, 3 bins and 0.5 Hz; linear_triangular; log_rectangular and log_triangular one whole decade each side "
        "and 0.2; konno_and_ohmachi b=3 (support one whole decade) and b=40; parzen; savitzky_and_golay 5) x 6 kinds "
        "(quick) / 9 kinds (thorough) x 3 centre-frequency sets on the DFT grid (bins incl. decade pairs 2-20, 4-40; "
        "midway between bins; quarter-Hz values that are bins of the padded grids only) x FFT requests {nopad, "
        "default} (thorough: + n65536, Tukey widths {0.1, 0}).  There DFT bins lie EXACTLY on fc -/+ half-width; "
        "such a bin belongs to the (closed) window - it is compared, not skipped as a knife edge - for the kernels "
        "whose weight does not vanish at the end (linear_rectangular, log_rectangular, konno_and_ohmachi); a "
        "violation confined to such centres carries the key suffix ':exact-window-end'.")
    d["rule"] += (
        " Mixed-time-step roots: one root per kind (frequency-domain names, single_azimuth 30, rotdpp 50 x four "
        "azimuths, azimuthal x shuffled azimuths; diffuse field excluded: it sums the windows) with record lists of "
        "128-sample records whose time steps differ within ONE call: every sequence of length 3 and 4 over "
        "{0.01, 0.02} s in which both occur (20) plus 4 sequences of length 5 over {0.01, 0.02, 0.005} s - orders "
        "whose grouping-by-time-step permutation is a 3- or 4-cycle included - x 3 operators x FFT {nopad, n=512}; "
        "oracle: the row(s) of record i equal the reference pipeline of record i alone on its own frequency grid "
        "(key ':mixed-dt:ratio', or ':mixed-dt:rows-permuted' when every row is the correct curve of another "
        "record).  Quick: 6 kinds, 2 operators.")
    d["bounds"] = dict(d["bounds"], long_unequal_lengths=list(LONG_UNEQUAL_LENGTHS),
                       exact_window_end_windows=len(ONGRID_WINDOWS), mixed_dt_sequences=len(mixed_dt_sequences()),
                       mixed_dt_time_steps=list(MIXED_DTS))
    d["assumptions"] = list(d["assumptions"]) + [
        "a sample whose distance from the centre equals the half-width EXACTLY (in rational arithmetic on the doubles "
        "handed over; log kernels: whole-decade half-widths only) is inside the window (ref/kernels.py pins the "
        "supports as closed, as C02 does); this is applied only where the DFT frequencies themselves are exact "
        "(n*dt a power of two), on every other grid a tie within 1e-9 stays knife-edge and is not compared",
        "azimuthal roots are dealt out in parts (configurations i, i+k, ...) for load balance; the set of "
        "configurations is unchanged"]
    return d


# what the enumeration must have entered for the oracles not to be vacuous
NONVACUITY = ["validated", "mixed_dt_cases", "mixed_dt_orders_whose_grouping_is_not_an_involution",
              "unequal_length_cases", "long_unequal_length_cases", "ongrid_cases",
              "centres_with_bin_exactly_on_window_end:linear_rectangular",
              "centres_with_bin_exactly_on_window_end:log_rectangular",
              "centres_with_bin_exactly_on_window_end:konno_and_ohmachi"]


def finalize(ctx, tier):
    for name in NONVACUITY:
        if ctx.counters.get(name, 0) == 0 and not ctx.violation_counts:
            ctx.violation(f"C01:harness:vacuous:{name}", None,
                          explanation=f"the enumeration never exercised '{name}'; the oracle would be vacuous "
                                      f"for that part of the quantifier")
