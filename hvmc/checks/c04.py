"""C04 - sensor orientation and azimuth handling are geometrically consistent.

E2.  Ten families of root cases, every case executed on the real hvsrpy code:

orient      SeismicRecording3C(deployed d).orient_sensor_to(t) [.orient_sensor_to(t2)] [.orient_sensor_to(d)]
            for the full product d x t x t2 of the angle alphabet (including angles less than 0.1 degree apart),
            compared with the plane rotation written from the clockwise-from-north definition
            (hvmc.ref.rotation): exact rotation, vertical bit-identical, energy, degrees_from_north,
            composition, inverse.
steps       n re-orientations in steps of a fraction of a degree == one re-orientation by n steps == the
            reference rotation by n steps (also after the first step).
history     orient_sensor_to(a); modify the recording (butterworth_filter, detrend, window, trim, assignment of
            amplitudes / components); orient_sensor_to(b) [; modify again; orient_sensor_to(c)]: every
            re-orientation is the reference rotation of the samples the recording held just before it.
polarised   motion polarised along a true azimuth theta, recorded (reference geometry) by a sensor deployed
            at d, re-oriented by hvsrpy to north (and to every other target): the motion is back on azimuth
            theta - for the reference projection, for hvsrpy.processing.single_azimuth and through process().
single      process(single azimuth a) == process(azimuth 0) after turning the sensor by a == HVSR of the
            north component of the turned sensor == process(azimuth a + 180).
azimuthal   process(azimuthal) == stack of process(single azimuth) row for row, bit for bit; entry i belongs to
            the caller's i-th azimuth (ascending, shuffled, descending and repeated azimuth sequences).
rotdpp      RotDpp non-decreasing in the percentile, inside [min, max] of the single-azimuth curves.
invariant   squared-average family, total-horizontal-energy family, diffuse field: unchanged by any
            re-orientation / any deployment angle (geometric mean as the control that must change).
preprocess  preprocess(orient=t) == orient_sensor_to(t) followed by preprocess(orient=None); also for a sensor
            deployed a fraction of a degree away from the target (30.06 -> 30) and a target a fraction of a degree
            away from the deployed orientation.
mixed       lists of recordings with unequal time steps (words over dt, 2 dt, dt / 2), with
            handle_dissimilar_time_steps_by omitted or passed (the same way at both entry points), and with every
            other argument omitted as well: process(azimuthal) == stack of process(single azimuth), curve count
            included; RotDpp row k inside [min, max] of row k of the single-azimuth curves.
"""
import contextlib
import io
import itertools
import math
import warnings

import numpy as np

import hvsrpy
from hvsrpy import TimeSeries, SeismicRecording3C
import hvsrpy.processing as HP

from hvmc import alphabets as A
from hvmc.engine import product
from hvmc.engine.core import close, bitwise_equal
from hvmc.ref import rotation as RR

PROPERTY = "C04"
RTOL = 1e-9
ATOL_REL = 1e-12            # absolute tolerance on samples, relative to the largest horizontal sample

ANGLES = [0, 30, 90, 200, 359, -45, 400, 725]          # deployed / target / second target / true azimuth
AZIMUTHS = [0, 30, 90, 135, 180, -45, 400]              # single-azimuth requests (as C01)
AZ_SETS = {"two": [0, 90], "four": [0, 45, 90, 135], "twelve": list(range(0, 180, 15)),
           # not ascending: entry i of the result must belong to the caller's i-th azimuth
           "shuffled": [90, 0, 135, 45], "unsorted3": [120, 30, 60], "descending": list(range(150, -1, -30)),
           "repeat": [30, 120, 30]}
AZIMUTHAL_SETS = ["two", "four", "twelve", "shuffled", "unsorted3", "descending", "repeat"]
ROTDPP_SETS = ["two", "four", "twelve", "shuffled", "unsorted3"]
# angles a fraction of a degree away from another member of the alphabet (and 360 == 0): a re-orientation by
# 0.08, 0.05 (359.95 -> 360, 30 -> 30.05) or 0.03 (0.08 -> 0.05 ...) degree is still a rotation
TINY_ANGLES = [0.08, 359.95, 360, 30.05]
ORIENT_ANGLES = ANGLES + TINY_ANGLES
POL_DEPLOYED = ANGLES + [0.08, 359.95, 30.05]
POL_TARGETS = [0] + ANGLES[1:] + [360]
STEP_SIZES = [0.05, -0.09, 1e-3, 1e-6]          # degrees per re-orientation
STEP_COUNTS = [1, 2, 20, 200]
PERCENTILES = [0, 25, 50, 100]

ROT_TRIPLES = [("noise1", "noise2", "noise3"), ("ramp", "two_sines", "alt"),
               ("impulse_mid", "noise3", "noise1"), ("offgrid_sine", "alt", "ramp")]
ROT_LENGTHS = [8, 33]
SCALES = [1.0, 1e3, 1e-3]
MOTIONS = [("noise1", "noise3"), ("two_sines+noise2", "ramp"), ("ramp", "noise2"), ("impulse_mid", "noise1")]

WINDOWS = [     # (ns, ew, vt signal names, L, dt, scale) - the windows of C01
    ("noise1", "noise2", "noise3", 64, 0.01, 1.0),
    ("two_sines+noise4", "noise2", "ramp", 33, 0.01, 1.0),
    ("noise3", "offgrid_sine", "noise1", 16, 0.02, 1e3),
    ("ramp", "noise1", "noise2", 64, 1.0 / 75, 1e-3),
    ("noise2", "noise3", "two_sines+noise5", 33, 0.02, 1.0),
    ("impulse_mid", "noise3", "noise1", 9, 0.01, 1.0),
]

INVARIANT = ["squared_average", "quadratic_mean", "root_mean_square", "effective_amplitude_spectrum",
             "total_horizontal_energy", "vector_summation", "diffuse_field"]
CONTROL = ["geometric_mean"]        # not rotation invariant: must change (non-vacuity of the invariance oracle)
# thorough: full product for one name per formula (and the control), 2 deviations for the alias names
FULL_PRODUCT_METHODS = ["squared_average", "total_horizontal_energy", "diffuse_field", "geometric_mean"]

FFT_REQ = {"nopad": lambda: {"n": None}, "default": lambda: None,
           "n128": lambda: {"n": 128}, "n65536": lambda: {"n": 65536}}


# ---------------------------------------------------------------------------
# building blocks

def _sig(name, L, scale):
    if "+" in name:
        a, b = name.split("+")
        return A.sig_array(a, L, scale) + 0.1 * A.sig_array(b, L, scale)
    return A.sig_array(name, L, scale)


# every recording is built with the metadata of ANOTHER recording (deployed and currently at 123 degrees), the
# way metadata is carried over when a recording is re-assembled from processed components: the orientation of the
# new recording is the one given to its constructor
FOREIGN_META = {"file name(s)": "carried over from another recording", "deployed degrees from north": 123.0,
                "current degrees from north": 123.0, "station": "hvmc"}


def mk(ns, ew, vt, dt, d):
    return SeismicRecording3C(TimeSeries(ns, dt), TimeSeries(ew, dt), TimeSeries(vt, dt), degrees_from_north=d,
                              meta=dict(FOREIGN_META))


def window_arrays(w, nwin):
    ns_n, ew_n, vt_n, L, dt, scale = w
    out = []
    for i in range(nwin):
        ns = _sig(ns_n, L, scale) + 0.01 * scale * i
        ew = _sig(ew_n, L, scale) * (1 + 0.25 * i)
        vt = _sig(vt_n, L, scale) - 0.02 * scale * i
        out.append((ns, ew, vt))
    return out


def fresh(arrays, dt, d, turn_to=None):
    """Fresh recordings deployed at d; ``turn_to`` = list of targets (one per record) for orient_sensor_to."""
    recs = [mk(ns, ew, vt, dt, d) for ns, ew, vt in arrays]
    if turn_to is not None:
        for r, t in zip(recs, turn_to):
            r.orient_sensor_to(t)
    return recs


def cfg_space(L, dt, ffts):
    fs = 1.0 / dt
    df = fs / L
    ops = [["konno_and_ohmachi", 10.0], ["linear_rectangular", 6 * df], ["parzen", 7.13 / (3 * df)]]
    fcs = {"mid": [0.1 * fs, 0.2 * fs, 0.3 * fs], "offgrid": [0.123 * fs, 0.277 * fs, 0.41 * fs]}
    space = dict(fft=list(ffts), smoothing=ops, tukey=[0.1, 0.0, 1.0], fcs=["mid", "offgrid"])
    return space, fcs


def make_settings(kind, cfg, fcs, fft=None):
    op, bw = cfg["smoothing"]
    kw = dict(window_type_and_width=["tukey", cfg["tukey"]],
              smoothing=dict(operator=op, bandwidth=bw, center_frequencies_in_hz=list(fcs)),
              fft_settings=FFT_REQ[cfg["fft"]]() if fft is None else dict(fft))
    return _construct(kind, kw)


def _construct(kind, kw):
    """The settings object of ``kind``; every argument that is in neither ``kind`` nor ``kw`` is left to its default."""
    k = kind["kind"]
    kw = dict(kw)
    if k == "fd":
        return hvsrpy.HvsrTraditionalProcessingSettings(method_to_combine_horizontals=kind["method"], **kw)
    if k == "single":
        return hvsrpy.HvsrTraditionalSingleAzimuthProcessingSettings(azimuth_in_degrees=kind["azimuth"], **kw)
    if k == "rotdpp":
        if kind.get("azimuths") is not None:
            kw["azimuths_in_degrees"] = list(kind["azimuths"])
        return hvsrpy.HvsrTraditionalRotDppProcessingSettings(
            ppth_percentile_for_rotdpp_computation=kind["percentile"], **kw)
    if k == "azimuthal":
        if kind.get("azimuths") is not None:
            kw["azimuths_in_degrees"] = list(kind["azimuths"])
        return hvsrpy.HvsrAzimuthalProcessingSettings(**kw)
    if k == "diffuse":
        return hvsrpy.HvsrDiffuseFieldProcessingSettings(**kw)
    raise KeyError(k)


def run_process(ctx, recs, settings):
    """-> ('ok', rows (2-D), frequency, extra) or ('raised', name, text)."""
    ctx.count("transitions")
    try:
        with warnings.catch_warnings(), contextlib.redirect_stdout(io.StringIO()):
            warnings.simplefilter("ignore")
            with np.errstate(all="ignore"):
                h = hvsrpy.process(recs, settings)
    except Exception as e:      # noqa: BLE001
        return ("raised", type(e).__name__, str(e)[:300])
    extra = {}
    if isinstance(h, hvsrpy.HvsrAzimuthal):
        amp = np.vstack([np.atleast_2d(t.amplitude) for t in h.hvsrs])
        extra = dict(azimuths=[float(a) for a in h.azimuths], n_hvsrs=len(h.hvsrs),
                     rows_per_azimuth=[int(np.atleast_2d(t.amplitude).shape[0]) for t in h.hvsrs])
    else:
        amp = np.atleast_2d(np.asarray(h.amplitude, dtype=float))
    return ("ok", amp, np.asarray(h.frequency, dtype=float), extra)


def _obs(r):
    return r[1].tolist() if r[0] == "ok" else list(r[1:])


def _n_after(settings):
    return None if settings.fft_settings is None else settings.fft_settings.get("n")


def _orient(ctx, rec, t):
    ctx.count("transitions")
    try:
        rec.orient_sensor_to(t)
    except Exception as e:      # noqa: BLE001
        return (type(e).__name__, str(e)[:300])
    return None


def _is_default(space, cfg, dims=None):
    return all(cfg[k] == space[k][0] for k in (dims or space))


NONTRIVIAL = ("oblique", "tiny")


def _angle_class(r):
    r = math.fmod(r, 360.0)
    if r < 0:
        r += 360.0
    if r == 0:
        return "zero"
    if min(r, 360.0 - r) < 1.0:
        return "tiny"           # a fraction of a degree: still a rotation
    if math.fmod(r, 90.0) == 0:
        return "quadrant"
    return "oblique"


# ---------------------------------------------------------------------------
# roots

def roots(tier, seed):
    thorough = tier == "thorough"
    out = []
    for ti in range(len(ROT_TRIPLES) if thorough else 2):
        for L in ROT_LENGTHS:
            for scale in (SCALES if thorough else SCALES[:2]):
                out.append(dict(part="orient", triple=ti, L=L, scale=scale))
                out.append(dict(part="steps", triple=ti, L=L, scale=scale))
    k = 0
    for ti in range(len(ROT_TRIPLES) if thorough else 2):
        for L in HIST_LENGTHS:
            for scale in (SCALES if thorough else SCALES[:2]):
                # deployed orientation of the recording: two of the alphabet per (signals, L, scale), rotating
                for j in range(2):
                    out.append(dict(part="history", triple=ti, L=L, scale=scale, d=ANGLES[(2 * k + 3 * j + 1) % len(ANGLES)]))
                k += 1
    for mi in range(len(MOTIONS) if thorough else 2):
        for L in ROT_LENGTHS:
            for scale in (SCALES if thorough else SCALES[:2]):
                out.append(dict(part="polarised", motion=mi, L=L, scale=scale))
    wins = range(len(WINDOWS) if thorough else 4)
    for wi in wins:
        for d in (ANGLES if thorough else [0, 30, -45, 725]):
            out.append(dict(part="single", wi=wi, d=d))
    for wi in wins:
        for s in AZIMUTHAL_SETS:
            for d in ((0, 200) if thorough else (ANGLES[(wi + len(s)) % len(ANGLES)],)):
                out.append(dict(part="azimuthal", wi=wi, azset=s, d=d))
    for wi in wins:
        for s in ROTDPP_SETS:
            for nwin in (1, 2):
                out.append(dict(part="rotdpp", wi=wi, azset=s, nwin=nwin, d=ANGLES[(wi + nwin) % len(ANGLES)]))
    for wi in wins:
        for m in INVARIANT + CONTROL:
            out.append(dict(part="invariant", wi=wi, method=m))
    for ti in range(2):
        for d in ANGLES:
            out.append(dict(part="preprocess", triple=ti, d=d))
    nw = len(WINDOWS) if thorough else 4
    for i, pattern in enumerate(MIXED_PATTERNS if thorough else MIXED_PATTERNS_QUICK):
        for wi in sorted({i % nw, (i + 3) % nw} if thorough else {i % nw}):
            out.append(dict(part="mixed", wi=wi, pattern=pattern, d=ANGLES[(i + wi) % len(ANGLES)]))
    for i, pattern in enumerate(MIXED_PATTERNS if thorough else BARE_ALL_PATTERNS_QUICK):
        if thorough and (len(set(pattern)) == 1 or len(pattern) > 3):
            continue
        out.append(dict(part="mixed", wi=(i + 1) % nw, pattern=pattern, d=ANGLES[(i + 2) % len(ANGLES)], bare_all=True))
    return out


def run_root(root, ctx, tier):
    PARTS[root["part"]](root, ctx, tier)


# ---------------------------------------------------------------------------
# orient: exact rotation, vertical, energy, label, composition, inverse

def _part_orient(root, ctx, tier):
    names = ROT_TRIPLES[root["triple"]]
    L, scale, dt = root["L"], root["scale"], 0.01
    ns0, ew0, vt0 = (_sig(n, L, scale) for n in names)
    big = float(max(np.abs(ns0).max(), np.abs(ew0).max()))
    atol = ATOL_REL * big
    e0 = RR.energy(ns0, ew0)

    def same(a, b):
        return close(a, b, rtol=RTOL, atol=atol)

    for d in ORIENT_ANGLES:
        for t in ORIENT_ANGLES:
            for t2 in ORIENT_ANGLES:
                ctx.count("states")
                case = dict(deployed=d, target=t, second_target=t2, signals=list(names), L=L, scale=scale)
                rec = mk(ns0, ew0, vt0, dt, d)
                if not RR.same_direction(rec.degrees_from_north, d):
                    ctx.violation("C04:constructor:degrees_from_north:not-congruent-mod-360", root, detail=case,
                                  expected=f"{d} modulo 360", observed=rec.degrees_from_north,
                                  explanation="the constructor's normalised orientation is a different direction")
                    continue
                err = _orient(ctx, rec, t)
                if err:
                    ctx.violation("C04:orient_sensor_to:raises", root, detail=case, expected="a rotation",
                                  observed=list(err), explanation="orient_sensor_to raised on a valid angle")
                    continue
                ns1, ew1 = rec.ns.amplitude.copy(), rec.ew.amplitude.copy()
                rns, rew = RR.reorient(ns0, ew0, d, t)
                ctx.count("validated")
                cls = _angle_class(t - d)
                ctx.outcome(("orient", cls, (t - d) % 360, root["triple"], L))
                if cls in NONTRIVIAL:
                    ctx.nontrivial_case(("orient", root["triple"], L, scale, d, t, t2))
                if (root["triple"], L, scale, d, t, t2) == (0, 8, 1.0, 30, 200, -45):
                    ctx.sample(dict(root=root, case=case, ns_after=ns1[:3].tolist(), ns_reference=rns[:3].tolist()))
                if not (same(ns1, rns) and same(ew1, rew)):
                    ctx.violation(f"C04:orient_sensor_to:horizontals:{cls}:reference-rotation", root, detail=case,
                                  expected=dict(ns=rns.tolist(), ew=rew.tolist()),
                                  observed=dict(ns=ns1.tolist(), ew=ew1.tolist()),
                                  explanation="orient_sensor_to(t) is not the clockwise-from-north rotation by "
                                              "t - current: ns' = ns cos + ew sin, ew' = ew cos - ns sin")
                # the anticlockwise rotation must be distinguishable from the observed one (non-vacuity)
                wns, wew = RR.reorient(ns0, ew0, t, d)
                if cls != "zero":
                    ctx.count("anticlockwise_evaluated")
                    if not (same(ns1, wns) and same(ew1, wew)):
                        ctx.count("anticlockwise_differs")
                if not (same(ns1, ns0) and same(ew1, ew0)):
                    ctx.count("orient_changes_samples")
                if not bitwise_equal(rec.vt.amplitude, vt0):
                    ctx.violation("C04:orient_sensor_to:vertical:not-bit-identical", root, detail=case,
                                  expected=vt0.tolist(), observed=rec.vt.amplitude.tolist(),
                                  explanation="re-orienting changed the vertical component")
                e1 = RR.energy(ns1, ew1)
                if not close(e1, e0, rtol=RTOL):
                    ctx.violation(f"C04:orient_sensor_to:energy:{cls}", root, detail=case, expected=e0, observed=e1,
                                  explanation="sum(ns^2 + ew^2) is not preserved by the re-orientation")
                if not RR.same_direction(rec.degrees_from_north, t):
                    ctx.violation("C04:orient_sensor_to:degrees_from_north:not-target", root, detail=case,
                                  expected=f"{t} modulo 360", observed=rec.degrees_from_north,
                                  explanation="degrees_from_north does not track the target orientation")
                # composition: t then t2 == t2 directly
                err = _orient(ctx, rec, t2)
                direct = mk(ns0, ew0, vt0, dt, d)
                err2 = _orient(ctx, direct, t2)
                if err or err2:
                    ctx.violation("C04:orient_sensor_to:raises", root, detail=case, expected="a rotation",
                                  observed=list(err or err2), explanation="orient_sensor_to raised on a valid angle")
                    continue
                cns, cew = RR.reorient(ns0, ew0, d, t2)
                if not (same(rec.ns.amplitude, direct.ns.amplitude) and same(rec.ew.amplitude, direct.ew.amplitude)
                        and same(rec.ns.amplitude, cns) and same(rec.ew.amplitude, cew)):
                    ctx.violation(f"C04:orient_sensor_to:composition:{_angle_class(t2 - t)}-after-{cls}", root,
                                  detail=case, expected=dict(ns=cns.tolist(), ew=cew.tolist()),
                                  observed=dict(two_calls=dict(ns=rec.ns.amplitude.tolist(),
                                                               ew=rec.ew.amplitude.tolist()),
                                                one_call=dict(ns=direct.ns.amplitude.tolist(),
                                                              ew=direct.ew.amplitude.tolist())),
                                  explanation="orient_sensor_to(t) then orient_sensor_to(t2) differs from "
                                              "orient_sensor_to(t2) alone")
                if not RR.same_direction(rec.degrees_from_north, t2):
                    ctx.violation("C04:orient_sensor_to:degrees_from_north:not-target", root, detail=case,
                                  expected=f"{t2} modulo 360", observed=rec.degrees_from_north,
                                  explanation="degrees_from_north does not track the target orientation")
                # inverse: back to the deployed orientation restores the samples
                err = _orient(ctx, rec, d)
                if err:
                    ctx.violation("C04:orient_sensor_to:raises", root, detail=case, expected="a rotation",
                                  observed=list(err), explanation="orient_sensor_to raised on a valid angle")
                    continue
                if not (close(rec.ns.amplitude, ns0, rtol=0, atol=atol)
                        and close(rec.ew.amplitude, ew0, rtol=0, atol=atol)):
                    ctx.violation("C04:orient_sensor_to:inverse", root, detail=case,
                                  expected=dict(ns=ns0.tolist(), ew=ew0.tolist()),
                                  observed=dict(ns=rec.ns.amplitude.tolist(), ew=rec.ew.amplitude.tolist()),
                                  explanation="orienting back to the deployed orientation does not restore the "
                                              "samples")
                if not bitwise_equal(rec.vt.amplitude, vt0):
                    ctx.violation("C04:orient_sensor_to:vertical:not-bit-identical", root, detail=case,
                                  expected=vt0.tolist(), observed=rec.vt.amplitude.tolist(),
                                  explanation="re-orienting changed the vertical component")


# ---------------------------------------------------------------------------
# steps: many re-orientations by a fraction of a degree == one re-orientation == the reference rotation

def _part_steps(root, ctx, tier):
    names = ROT_TRIPLES[root["triple"]]
    L, scale, dt = root["L"], root["scale"], 0.01
    ns0, ew0, vt0 = (_sig(n, L, scale) for n in names)
    big = float(max(np.abs(ns0).max(), np.abs(ew0).max()))
    atol = ATOL_REL * big
    e0 = RR.energy(ns0, ew0)

    def same(a, b):
        return close(a, b, rtol=RTOL, atol=atol)

    for d in ANGLES:
        wrapped = d - 360.0 * math.floor(d / 360.0)
        for start in ([wrapped] if wrapped == d else [wrapped, d]):
            # ``start`` is the angle the targets are counted from: the deployed direction inside [0, 360), and the
            # caller's own value of it (then the first step also crosses whole turns)
            for step in STEP_SIZES:
                for n in STEP_COUNTS:
                    ctx.count("states")
                    targets = [start + k * step for k in range(1, n + 1)]
                    case = dict(deployed=d, targets_counted_from=start, step=step, n_steps=n, signals=list(names),
                                L=L, scale=scale)
                    rec = mk(ns0, ew0, vt0, dt, d)
                    failed = None
                    after_first = None
                    for k, t in enumerate(targets):
                        failed = _orient(ctx, rec, t)
                        if failed:
                            break
                        if k == 0:
                            after_first = (rec.ns.amplitude.copy(), rec.ew.amplitude.copy())
                    one = mk(ns0, ew0, vt0, dt, d)
                    failed = failed or _orient(ctx, one, targets[-1])
                    if failed:
                        ctx.violation("C04:orient_sensor_to:raises", root, detail=case, expected="a rotation",
                                      observed=list(failed), explanation="orient_sensor_to raised on a valid angle")
                        continue
                    ctx.count("validated")
                    ctx.nontrivial_case(("steps", root["triple"], L, scale, d, start, step, n))
                    ctx.outcome(("steps", step, n, root["triple"], L))
                    if (root["triple"], L, scale, d, step, n) == (0, 8, 1.0, 30, 0.05, 200):
                        ctx.sample(dict(root=root, case=case, ns_before=ns0[:3].tolist(),
                                        ns_after=rec.ns.amplitude[:3].tolist()))
                    f_ns, f_ew = RR.reorient(ns0, ew0, d, targets[0])
                    ctx.count("steps_evaluated")
                    if not (same(f_ns, ns0) and same(f_ew, ew0)):
                        ctx.count("steps_first_step_distinguishable")
                    if not (same(after_first[0], f_ns) and same(after_first[1], f_ew)):
                        ctx.violation("C04:steps:first-step:reference-rotation", root, detail=case,
                                      expected=dict(ns=f_ns.tolist(), ew=f_ew.tolist()),
                                      observed=dict(ns=after_first[0].tolist(), ew=after_first[1].tolist()),
                                      explanation="a re-orientation by a fraction of a degree is not the "
                                                  "clockwise-from-north rotation by that angle")
                    r_ns, r_ew = RR.reorient(ns0, ew0, d, targets[-1])
                    ns_n, ew_n = rec.ns.amplitude, rec.ew.amplitude
                    if not (same(ns_n, r_ns) and same(ew_n, r_ew) and same(ns_n, one.ns.amplitude)
                            and same(ew_n, one.ew.amplitude)):
                        ctx.violation("C04:steps:composition-of-small-steps", root, detail=case,
                                      expected=dict(ns=r_ns.tolist(), ew=r_ew.tolist()),
                                      observed=dict(n_calls=dict(ns=ns_n.tolist(), ew=ew_n.tolist()),
                                                    one_call=dict(ns=one.ns.amplitude.tolist(),
                                                                  ew=one.ew.amplitude.tolist())),
                                      explanation="n re-orientations in small steps differ from one re-orientation "
                                                  "by n steps / from the reference rotation by n steps")
                    if not bitwise_equal(rec.vt.amplitude, vt0):
                        ctx.violation("C04:orient_sensor_to:vertical:not-bit-identical", root, detail=case,
                                      expected=vt0.tolist(), observed=rec.vt.amplitude.tolist(),
                                      explanation="re-orienting changed the vertical component")
                    e1 = RR.energy(ns_n, ew_n)
                    if not close(e1, e0, rtol=RTOL):
                        ctx.violation("C04:steps:energy", root, detail=case, expected=e0, observed=e1,
                                      explanation="sum(ns^2 + ew^2) is not preserved by the small re-orientations")
                    if not RR.same_direction(rec.degrees_from_north, targets[-1]):
                        ctx.violation("C04:orient_sensor_to:degrees_from_north:not-target", root, detail=case,
                                      expected=f"{targets[-1]} modulo 360", observed=rec.degrees_from_north,
                                      explanation="degrees_from_north does not track the target orientation")


# ---------------------------------------------------------------------------
# history: orient -> modify the recording -> orient [-> modify -> orient]; every re-orientation rotates the
# samples the recording holds at that moment

HIST_LENGTHS = [33, 64]
HIST_DT = 0.01
HIST_OPS = [["butterworth_filter", [5.0, None]], ["butterworth_filter", [None, 20.0]],
            ["butterworth_filter", [2.0, 20.0]], ["detrend", "linear"], ["detrend", "constant"],
            ["window", 0.1], ["window", 1.0], ["trim", [0.03, 0.25]],
            ["assign_amplitude", "ns"], ["assign_amplitude", "ew"], ["assign_amplitude", "all"],
            ["scale_in_place", "ew"], ["replace_timeseries", "ns+ew"]]
HIST_OPS2 = [None, ["detrend", "linear"], ["window", 0.1], ["trim", [0.02, 0.1]], ["assign_amplitude", "ew"],
             ["butterworth_filter", [5.0, None]]]
HIST_THIRD = ["back", 0, 90.05, -45]        # "back" = the orientation before the previous re-orientation
HIST_PAIRS_QUICK = [(30, 200), (0, 90), (-45, 725), (359, 0)]
HIST_PAIR_OFFSETS_THOROUGH = [3, 5]       # every angle is first and second target of two depth-3 histories
_ASSIGNED = dict(ns="noise5", ew="two_sines", vt="noise4")


def _apply(ctx, rec, op, scale):
    """Apply one public amplitude-changing operation to the recording -> None or (error name, text)."""
    name, arg = op
    ctx.count("transitions")
    try:
        with warnings.catch_warnings():
            warnings.simplefilter("ignore")
            if name == "butterworth_filter":
                rec.butterworth_filter(tuple(arg))
            elif name == "detrend":
                rec.detrend(type=arg)
            elif name == "window":
                rec.window(type="tukey", width=arg)
            elif name == "trim":
                rec.trim(arg[0], arg[1])
            elif name == "assign_amplitude":
                for comp in (("ns", "ew", "vt") if arg == "all" else (arg,)):
                    ts = getattr(rec, comp)
                    ts.amplitude = _sig(_ASSIGNED[comp], ts.n_samples, scale) + 0.25 * ts.amplitude
            elif name == "scale_in_place":
                getattr(rec, arg).amplitude *= -2.5
            elif name == "replace_timeseries":
                for comp in arg.split("+"):
                    ts = getattr(rec, comp)
                    setattr(rec, comp, TimeSeries(_sig(_ASSIGNED[comp], ts.n_samples, scale) - 0.5 * ts.amplitude,
                                                  ts.dt_in_seconds))
            else:
                raise KeyError(name)
    except KeyError:
        raise
    except Exception as e:      # noqa: BLE001
        return (type(e).__name__, str(e)[:300])
    return None


def _snapshot(rec):
    return rec.ns.amplitude.copy(), rec.ew.amplitude.copy(), rec.vt.amplitude.copy()


def _check_reoriented(ctx, root, case, opname, snap, rec, current, target):
    """``rec`` was re-oriented from ``current`` to ``target`` when it held the samples ``snap``."""
    s_ns, s_ew, s_vt = snap
    if not (s_ns.shape == s_ew.shape == s_vt.shape) or s_ns.size == 0:
        ctx.violation(f"C04:history:after-{opname}:components-of-different-length", root, detail=case,
                      expected="three components of one length",
                      observed=[list(s_ns.shape), list(s_ew.shape), list(s_vt.shape)],
                      explanation="before this re-orientation the components of the recording no longer have the "
                                  "same number of samples (an earlier re-orientation or operation lost samples)")
        return False
    big = float(max(np.abs(s_ns).max(), np.abs(s_ew).max()))
    atol = ATOL_REL * big
    r_ns, r_ew = RR.reorient(s_ns, s_ew, current, target)
    ns1, ew1 = rec.ns.amplitude, rec.ew.amplitude
    ok = True
    if not (close(ns1, r_ns, rtol=RTOL, atol=atol) and close(ew1, r_ew, rtol=RTOL, atol=atol)):
        ok = False
        ctx.violation(f"C04:history:after-{opname}:horizontals:reference-rotation-of-current-samples", root,
                      detail=case, expected=dict(ns=r_ns.tolist(), ew=r_ew.tolist()),
                      observed=dict(ns=np.asarray(ns1).tolist(), ew=np.asarray(ew1).tolist()),
                      explanation="orient_sensor_to did not rotate the samples the recording held when it was "
                                  f"called (from {current} to {target} degrees, clockwise from north)")
    if not bitwise_equal(rec.vt.amplitude, s_vt):
        ok = False
        ctx.violation(f"C04:history:after-{opname}:vertical:not-bit-identical", root, detail=case,
                      expected=s_vt.tolist(), observed=np.asarray(rec.vt.amplitude).tolist(),
                      explanation="re-orienting changed the vertical component")
    e0, e1 = RR.energy(s_ns, s_ew), RR.energy(ns1, ew1)
    if not close(e1, e0, rtol=RTOL):
        ok = False
        ctx.violation(f"C04:history:after-{opname}:energy", root, detail=case, expected=e0, observed=e1,
                      explanation="sum(ns^2 + ew^2) of the current samples is not preserved by the re-orientation")
    if not RR.same_direction(rec.degrees_from_north, target):
        ok = False
        ctx.violation("C04:history:degrees_from_north:not-target", root, detail=case,
                      expected=f"{target} modulo 360", observed=rec.degrees_from_north,
                      explanation="degrees_from_north does not track the target orientation")
    return ok


def _history_cases(tier):
    """(first, op1, second, op2, third) - third None = history of depth 2."""
    for a in ANGLES:
        for b in ANGLES:
            for op1 in HIST_OPS:
                yield a, op1, b, None, None
    n = len(ANGLES)
    pairs = HIST_PAIRS_QUICK if tier == "quick" else [(ANGLES[i], ANGLES[(i + k) % n]) for i in range(n)
                                                      for k in HIST_PAIR_OFFSETS_THOROUGH]
    for a, b in pairs:
        for op1 in HIST_OPS:
            for op2 in HIST_OPS2:
                for c in HIST_THIRD:
                    yield a, op1, b, op2, c


def _part_history(root, ctx, tier):
    names = ROT_TRIPLES[root["triple"]]
    L, scale, d, dt = root["L"], root["scale"], root["d"], HIST_DT
    ns0, ew0, vt0 = (_sig(n, L, scale) for n in names)
    for a, op1, b, op2, c in _history_cases(tier):
        ctx.count("states")
        third = a if c == "back" else c
        case = dict(deployed=d, first_target=a, operation=op1, second_target=b, second_operation=op2,
                    third_target=None if c is None else third, signals=list(names), L=L, dt=dt, scale=scale)
        rec = mk(ns0, ew0, vt0, dt, d)
        err = _orient(ctx, rec, a)
        if err:
            ctx.violation("C04:orient_sensor_to:raises", root, detail=case, expected="a rotation",
                          observed=list(err), explanation="orient_sensor_to raised on a valid angle")
            continue
        before = _snapshot(rec)
        if _apply(ctx, rec, op1, scale):
            ctx.count("history_operation_refused")      # e.g. filter padding longer than the record: not C04
            continue
        snap = _snapshot(rec)
        err = _orient(ctx, rec, b)
        if err:
            ctx.violation(f"C04:history:after-{op1[0]}:orient_sensor_to-raises", root, detail=case,
                          expected="a rotation", observed=list(err),
                          explanation="orient_sensor_to raised on a modified recording")
            continue
        ctx.count("validated")
        cls = _angle_class(b - a)
        if cls in NONTRIVIAL:
            ctx.nontrivial_case(("history", root["triple"], L, scale, d, a, repr(op1), b, repr(op2), c))
        ctx.outcome(("history", op1[0], repr(op1[1]), None if op2 is None else op2[0], cls, len(snap[0])))
        ctx.count("history_evaluated")
        hb = float(max(np.abs(snap[0]).max(), np.abs(snap[1]).max(), np.abs(before[0]).max(),
                       np.abs(before[1]).max()))
        if snap[0].shape != before[0].shape or not (close(snap[0], before[0], rtol=1e-6, atol=1e-9 * hb)
                                                    and close(snap[1], before[1], rtol=1e-6, atol=1e-9 * hb)):
            ctx.count("history_operation_changes_horizontals")
        if (root["triple"], L, scale, a, b, c) == (0, 33, 1.0, 30, 200, None) and op1 == HIST_OPS[0]:
            ctx.sample(dict(root=root, case=case, ns_before_second_orientation=snap[0][:3].tolist(),
                            ew_before_second_orientation=snap[1][:3].tolist(),
                            ns_after=rec.ns.amplitude[:3].tolist()))
        _check_reoriented(ctx, root, case, op1[0], snap, rec, a, b)
        if c is None:
            continue
        opname = op1[0]
        if op2 is not None:
            if _apply(ctx, rec, op2, scale):
                ctx.count("history_operation_refused")
                continue
            opname = op2[0]
        snap2 = _snapshot(rec)
        err = _orient(ctx, rec, third)
        if err:
            ctx.violation(f"C04:history:after-{opname}:orient_sensor_to-raises", root, detail=case,
                          expected="a rotation", observed=list(err),
                          explanation="orient_sensor_to raised on a modified recording")
            continue
        ctx.count("history_depth3_validated")
        _check_reoriented(ctx, root, case, opname, snap2, rec, b, third)
        if c == "back" and op2 is None:
            # inverse on a modified recording: back to the previous orientation restores the modified samples
            hb = float(max(np.abs(snap[0]).max(), np.abs(snap[1]).max()))
            if not (close(rec.ns.amplitude, snap[0], rtol=0, atol=ATOL_REL * hb)
                    and close(rec.ew.amplitude, snap[1], rtol=0, atol=ATOL_REL * hb)):
                ctx.violation(f"C04:history:after-{opname}:inverse", root, detail=case,
                              expected=dict(ns=snap[0].tolist(), ew=snap[1].tolist()),
                              observed=dict(ns=np.asarray(rec.ns.amplitude).tolist(),
                                            ew=np.asarray(rec.ew.amplitude).tolist()),
                              explanation="orienting a modified recording away and back does not restore its "
                                          "(modified) samples")


# ---------------------------------------------------------------------------
# polarised motion reappears on its true azimuth

def _part_polarised(root, ctx, tier):
    m_name, vt_name = MOTIONS[root["motion"]]
    L, scale, dt = root["L"], root["scale"], 0.01
    m = _sig(m_name, L, scale)
    vt = _sig(vt_name, L, scale)
    big = float(np.abs(m).max())
    atol = ATOL_REL * big
    em = RR.energy(m)
    cfg = dict(fft="nopad", smoothing=["konno_and_ohmachi", 10.0], tukey=0.1)
    fcs = [10.0, 20.0, 30.0]
    base = None
    if L >= 16:
        base = run_process(ctx, [mk(m, np.zeros(L), vt, dt, 0)],
                           make_settings(dict(kind="single", azimuth=0), cfg, fcs))
    for theta in ANGLES:
        north, east = RR.polarised(m, theta)
        for d in POL_DEPLOYED:
            ns_s, ew_s = RR.deploy(north, east, d)
            for t in POL_TARGETS:
                ctx.count("states")
                case = dict(true_azimuth=theta, deployed=d, target=t, motion=m_name, L=L, scale=scale)
                rec = mk(ns_s, ew_s, vt, dt, d)
                err = _orient(ctx, rec, t)
                if err:
                    ctx.violation("C04:orient_sensor_to:raises", root, detail=case, expected="a rotation",
                                  observed=list(err), explanation="orient_sensor_to raised on a valid angle")
                    continue
                ns1, ew1 = rec.ns.amplitude.copy(), rec.ew.amplitude.copy()
                ctx.count("validated")
                cls = _angle_class(t - d)
                ctx.outcome(("polarised", (theta - t) % 360, cls))
                if cls in NONTRIVIAL and _angle_class(theta - t) in NONTRIVIAL:
                    ctx.nontrivial_case(("polarised", root["motion"], L, scale, theta, d, t))
                if (root["motion"], L, scale, theta, d, t) == (0, 8, 1.0, 30, 200, 0):
                    ctx.sample(dict(root=root, case=case, recorded_ns=ns_s[:3].tolist(), recorded_ew=ew_s[:3].tolist(),
                                    ns_after_orienting_north=ns1[:3].tolist(), true_north=north[:3].tolist()))
                if RR.same_direction(t, 0):
                    if not (close(ns1, north, rtol=RTOL, atol=atol) and close(ew1, east, rtol=RTOL, atol=atol)):
                        ctx.violation(f"C04:polarised:orient-to-north:{cls}:true-components", root, detail=case,
                                      expected=dict(ns=north.tolist(), ew=east.tolist()),
                                      observed=dict(ns=ns1.tolist(), ew=ew1.tolist()),
                                      explanation="after orient_sensor_to(north) the components are not the true "
                                                  "north and east motion")
                # azimuth of the motion measured from the ns axis, which now points to t
                rel = theta - t
                p, q = RR.project(ns1, ew1, rel)
                ep, eh = RR.energy(p), RR.energy(ns1, ew1)
                if not (close(ep, eh, rtol=RTOL) and close(eh, em, rtol=RTOL)
                        and close(p, m, rtol=RTOL, atol=atol) and float(np.abs(q).max()) <= atol):
                    ctx.violation(f"C04:polarised:projection-on-true-azimuth:{cls}", root, detail=case,
                                  expected=dict(energy_on_azimuth=em, orthogonal_max=0.0),
                                  observed=dict(energy_on_azimuth=ep, horizontal_energy=eh,
                                                orthogonal_max=float(np.abs(q).max())),
                                  explanation="the motion polarised along the true azimuth does not reappear on "
                                              "that azimuth after re-orienting the sensor")
                # the library's own projection must agree with its own orientation code
                ctx.count("transitions", 2)
                hp = HP.single_azimuth(ns1, ew1, rel)
                hq = HP.single_azimuth(ns1, ew1, rel + 90)
                if not (close(hp, m, rtol=RTOL, atol=atol) and float(np.abs(hq).max()) <= atol):
                    ctx.violation(f"C04:polarised:single_azimuth-function:{_angle_class(rel)}", root, detail=case,
                                  expected=dict(along=m.tolist(), orthogonal_max=0.0),
                                  observed=dict(along=np.asarray(hp).tolist(),
                                                orthogonal_max=float(np.abs(hq).max())),
                                  explanation="processing.single_azimuth at the true azimuth (relative to the "
                                              "re-oriented ns axis) does not return the polarised motion, or "
                                              "the orthogonal azimuth is not empty")
                if base is not None and RR.same_direction(t, 0):
                    res = run_process(ctx, [rec], make_settings(dict(kind="single", azimuth=theta), cfg, fcs))
                    if base[0] != "ok":
                        ctx.count("polarised_process_base_refused")
                    elif res[0] != "ok" or not close(res[1], base[1], rtol=RTOL):
                        ctx.violation(f"C04:polarised:process-single-azimuth:{_angle_class(theta)}", root,
                                      detail=dict(case, config=cfg, fcs=fcs), expected=_obs(base),
                                      observed=_obs(res),
                                      explanation="single-azimuth HVSR at the true azimuth after orienting to north "
                                                  "differs from the HVSR of the polarised motion itself")


# ---------------------------------------------------------------------------
# single azimuth == north component of the turned sensor; 180-degree periodic

def _part_single(root, ctx, tier):
    w = tuple(WINDOWS[root["wi"]])
    L, dt, d = w[3], w[4], root["d"]
    nwin = 2 if root["wi"] % 2 else 1
    arrays = window_arrays(w, nwin)
    space, fcs_sets = cfg_space(L, dt, ["nopad", "default"])
    etot = [RR.energy(ns, ew) for ns, ew, _ in arrays]
    for cfg in product.deviations(space, 2 if tier == "quick" else None):
        fcs = fcs_sets[cfg["fcs"]]
        north0 = None
        for a in AZIMUTHS:
            ctx.count("states")
            detail = dict(config=cfg, fcs=fcs, azimuth=a, deployed=d, nwin=nwin)
            frac = min(RR.energy(RR.project(ns, ew, a)[0]) / e for (ns, ew, _), e in zip(arrays, etot))
            if frac < 1e-6:
                ctx.count("skipped_illconditioned")
                continue
            r_a = run_process(ctx, fresh(arrays, dt, d), make_settings(dict(kind="single", azimuth=a), cfg, fcs))
            if r_a[0] != "ok":
                ctx.violation(f"C04:single_azimuth:raises:{r_a[1]}", root, detail=detail, expected="curves",
                              observed=list(r_a[1:]), explanation="single-azimuth processing raised")
                continue
            cls = _angle_class(a)
            if cls in NONTRIVIAL:
                ctx.nontrivial_case(("single", root["wi"], d, repr(cfg), a))
            ctx.outcome(("single", root["wi"], a % 180, cfg["smoothing"][0], cfg["fft"], round(float(r_a[1].flat[0]), 6)))
            if a % 360 == 0 and north0 is None:
                north0 = r_a[1]
            elif north0 is not None and not close(r_a[1], north0, rtol=1e-6):
                ctx.count("azimuth_changes_curve")
            # (1) azimuth 0 after turning the sensor by a
            turned = fresh(arrays, dt, d)
            targets = [r.degrees_from_north + a for r in turned]
            for r, t in zip(turned, targets):
                _orient(ctx, r, t)
            turned_ns = [r.ns.amplitude.copy() for r in turned]
            r_0 = run_process(ctx, turned, make_settings(dict(kind="single", azimuth=0), cfg, fcs))
            ctx.count("validated")
            if (root["wi"], d, a) == (1, 30, 30) and _is_default(space, cfg):
                ctx.sample(dict(root=root, case=detail, hvsr_at_azimuth=r_a[1][0].tolist(),
                                hvsr_north_after_turning=_obs(r_0)[0] if r_0[0] == "ok" else _obs(r_0)))
            if r_0[0] != "ok" or not close(r_0[1], r_a[1], rtol=RTOL):
                ctx.violation(f"C04:single_azimuth:{cls}:vs-azimuth-0-of-turned-sensor", root,
                              detail=dict(detail, orient_targets=targets), expected=_obs(r_0), observed=r_a[1].tolist(),
                              explanation="single-azimuth HVSR at azimuth a differs from the HVSR at azimuth 0 "
                                          "after orient_sensor_to(current + a)")
            # (2) the north component of the turned sensor, through the frequency-domain path
            nn = [mk(tn, tn, vt, dt, 0) for tn, (_, _, vt) in zip(turned_ns, arrays)]
            r_n = run_process(ctx, nn, make_settings(dict(kind="fd", method="geometric_mean"), cfg, fcs))
            if r_n[0] != "ok" or not close(r_n[1], r_a[1], rtol=RTOL):
                ctx.violation(f"C04:single_azimuth:{cls}:vs-north-component-of-turned-sensor", root,
                              detail=dict(detail, orient_targets=targets), expected=_obs(r_n), observed=r_a[1].tolist(),
                              explanation="single-azimuth HVSR at azimuth a differs from |NS|/|V| of the sensor "
                                          "turned by a (computed as the geometric mean of ns with itself)")
            # (3) 180-degree periodicity
            r_p = run_process(ctx, fresh(arrays, dt, d), make_settings(dict(kind="single", azimuth=a + 180), cfg, fcs))
            if r_p[0] != "ok" or not close(r_p[1], r_a[1], rtol=RTOL):
                ctx.violation(f"C04:single_azimuth:{cls}:period-180", root, detail=detail, expected=r_a[1].tolist(),
                              observed=_obs(r_p), explanation="single-azimuth HVSR at a + 180 differs from the one at a")


# ---------------------------------------------------------------------------
# azimuthal == stack of single azimuths (bit for bit)

def _part_azimuthal(root, ctx, tier):
    w = tuple(WINDOWS[root["wi"]])
    L, dt, d = w[3], w[4], root["d"]
    nwin = 2 if root["wi"] % 2 else 1
    arrays = window_arrays(w, nwin)
    azs = AZ_SETS[root["azset"]]
    space, fcs_sets = cfg_space(L, dt, ["default", "n128", "n65536", "nopad"])
    for cfg in product.deviations(space, 2 if tier == "quick" else None):
        if tier == "quick" and cfg["fft"] == "n65536" and cfg["smoothing"] != space["smoothing"][0]:
            continue        # quick: the 65536-point path with the default operator only (cost)
        fcs = fcs_sets[cfg["fcs"]]
        ctx.count("states")
        detail = dict(config=cfg, fcs=fcs, azimuths=azs, deployed=d, nwin=nwin)
        s_az = make_settings(dict(kind="azimuthal", azimuths=azs), cfg, fcs)
        r_az = run_process(ctx, fresh(arrays, dt, d), s_az)
        if r_az[0] != "ok":
            if len(set(azs)) < len(azs):
                ctx.count("azimuthal_repeated_azimuth_refused")     # refusing a repeated azimuth is not excluded
                continue
            ctx.violation(f"C04:azimuthal:raises:{r_az[1]}", root, detail=detail, expected="curves",
                          observed=list(r_az[1:]), explanation="azimuthal processing raised")
            continue
        n = _n_after(s_az)
        if not isinstance(n, (int, np.integer)) or n < L:
            ctx.count("azimuthal_fft_length_unknown")
            continue
        rows, ok = [], True
        for a in azs:
            s_1 = make_settings(dict(kind="single", azimuth=a), cfg, fcs, fft={"n": int(n)})
            r_1 = run_process(ctx, fresh(arrays, dt, d), s_1)
            if r_1[0] != "ok":
                ctx.violation(f"C04:single_azimuth:raises:{r_1[1]}", root, detail=dict(detail, azimuth=a, fft_n=int(n)),
                              expected="curves", observed=list(r_1[1:]), explanation="single-azimuth processing raised")
                ok = False
                break
            if _n_after(s_1) != n:
                ok = False
                ctx.count("single_azimuth_resolves_other_fft_length")
                break
            rows.append(r_1[1])
        if not ok:
            continue
        stack = np.vstack(rows)
        ctx.count("validated")
        ctx.nontrivial_case(("azimuthal", root["wi"], root["azset"], d, repr(cfg)))
        ctx.outcome(("azimuthal", root["wi"], root["azset"], cfg["smoothing"][0], cfg["fft"], int(n),
                     round(float(stack.flat[-1]), 6)))
        if (root["wi"], root["azset"], d) == (0, "two", 200) and _is_default(space, cfg):
            ctx.sample(dict(root=root, case=detail, fft_n=int(n), azimuthal_first_row=r_az[1][0].tolist(),
                            single_first_row=stack[0].tolist()))
        ex = r_az[3]
        if ex["azimuths"] != [float(a) for a in azs] or ex["rows_per_azimuth"] != [nwin] * len(azs):
            ctx.violation("C04:azimuthal:azimuths-or-row-count", root, detail=detail,
                          expected=dict(azimuths=azs, rows_per_azimuth=[nwin] * len(azs)), observed=ex,
                          explanation="the azimuthal result does not hold one HVSR set per requested azimuth, in order")
            continue
        if azs != sorted(azs):
            ctx.count("azimuthal_non_ascending_validated")
            if not bitwise_equal(stack, np.vstack([rows[i] for i in np.argsort(azs, kind="stable")])):
                ctx.count("azimuthal_order_matters")
        if not bitwise_equal(r_az[1], stack):
            worst = "differs-beyond-1e-9" if not close(r_az[1], stack, rtol=RTOL) else "differs-in-last-bits"
            if worst == "differs-beyond-1e-9" and sorted(x.tobytes() for x in r_az[1]) == \
                    sorted(x.tobytes() for x in stack):
                worst = "rows-in-another-order"
            ctx.violation(f"C04:azimuthal:stack-of-single-azimuth:{worst}", root, detail=dict(detail, fft_n=int(n)),
                          expected=stack.tolist(), observed=r_az[1].tolist(),
                          explanation="the azimuthal result is not exactly the stack of the single-azimuth results "
                                      "computed with the same settings and FFT length, entry i for the i-th "
                                      "requested azimuth")
        if not bitwise_equal(r_az[2], np.asarray(fcs, dtype=float)):
            ctx.violation("C04:azimuthal:frequency-vector", root, detail=detail, expected=fcs, observed=r_az[2].tolist(),
                          explanation="frequency vector of the azimuthal result is not the requested centres")


def _judge_rotdpp(ctx, root, detail, lo, hi, curves, tag):
    """RotDpp curves (percentile -> rows) against the envelope [lo, hi] of the single-azimuth curves, row for row."""
    slack = 1 + RTOL
    obs = {str(p): curves[p].tolist() for p in PERCENTILES}
    for p1, p2 in zip(PERCENTILES[:-1], PERCENTILES[1:]):
        if np.any(curves[p2] * slack < curves[p1]):
            ctx.violation(f"C04:rotdpp{tag}:not-monotone-in-percentile", root, detail=dict(detail, percentiles=[p1, p2]),
                          expected=f"RotD{p2} >= RotD{p1}", observed=obs,
                          explanation="RotDpp decreases when the percentile increases")
    for p in PERCENTILES:
        if np.any(curves[p] * slack < lo):
            ctx.violation(f"C04:rotdpp{tag}:below-minimum-over-azimuths", root, detail=dict(detail, percentile=p),
                          expected=dict(minimum=lo.tolist()), observed=obs,
                          explanation="RotDpp lies below the smallest single-azimuth HVSR of its azimuth set")
        if np.any(curves[p] > hi * slack):
            ctx.violation(f"C04:rotdpp{tag}:above-maximum-over-azimuths", root, detail=dict(detail, percentile=p),
                          expected=dict(maximum=hi.tolist()), observed=obs,
                          explanation="RotDpp lies above the largest single-azimuth HVSR of its azimuth set")
    if not close(curves[0], lo, rtol=RTOL):
        ctx.violation(f"C04:rotdpp{tag}:rotd0-is-not-the-minimum", root, detail=detail, expected=lo.tolist(),
                      observed=curves[0].tolist(), explanation="the 0th percentile over the azimuths is not "
                                                               "the minimum of the single-azimuth curves")
    if not close(curves[100], hi, rtol=RTOL):
        ctx.violation(f"C04:rotdpp{tag}:rotd100-is-not-the-maximum", root, detail=detail, expected=hi.tolist(),
                      observed=curves[100].tolist(), explanation="the 100th percentile over the azimuths is "
                                                                 "not the maximum of the single-azimuth curves")


# ---------------------------------------------------------------------------
# RotDpp: monotone in the percentile, inside the envelope of the single azimuths

def _part_rotdpp(root, ctx, tier):
    w = tuple(WINDOWS[root["wi"]])
    L, dt, d, nwin = w[3], w[4], root["d"], root["nwin"]
    arrays = window_arrays(w, nwin)
    azs = AZ_SETS[root["azset"]]
    space, fcs_sets = cfg_space(L, dt, ["nopad", "default"])
    for cfg in product.deviations(space, 2 if tier == "quick" else None):
        fcs = fcs_sets[cfg["fcs"]]
        ctx.count("states")
        detail = dict(config=cfg, fcs=fcs, azimuths=azs, deployed=d, nwin=nwin)
        singles = []
        for a in azs:
            r_1 = run_process(ctx, fresh(arrays, dt, d), make_settings(dict(kind="single", azimuth=a), cfg, fcs))
            if r_1[0] != "ok":
                ctx.violation(f"C04:single_azimuth:raises:{r_1[1]}", root, detail=dict(detail, azimuth=a),
                              expected="curves", observed=list(r_1[1:]), explanation="single-azimuth processing raised")
                break
            singles.append(r_1[1])
        if len(singles) != len(azs):
            continue
        lo = np.min(singles, axis=0)
        hi = np.max(singles, axis=0)
        curves = {}
        for p in PERCENTILES:
            r_p = run_process(ctx, fresh(arrays, dt, d),
                              make_settings(dict(kind="rotdpp", percentile=p, azimuths=azs), cfg, fcs))
            if r_p[0] != "ok" or r_p[1].shape != lo.shape:
                ctx.violation(f"C04:rotdpp:raises-or-shape", root, detail=dict(detail, percentile=p),
                              expected=f"curves of shape {list(lo.shape)}", observed=_obs(r_p),
                              explanation="RotDpp processing raised or returned another number of curves")
                continue
            curves[p] = r_p[1]
        if len(curves) != len(PERCENTILES):
            continue
        ctx.count("validated")
        ctx.nontrivial_case(("rotdpp", root["wi"], root["azset"], nwin, repr(cfg)))
        ctx.outcome(("rotdpp", root["wi"], root["azset"], cfg["smoothing"][0], cfg["fft"],
                     round(float(curves[50].flat[0]), 6)))
        if np.any(curves[100] > curves[0] * (1 + 1e-6)):
            ctx.count("rotdpp_strictly_increasing")
        if np.any(curves[25] > curves[0] * (1 + 1e-6)) and np.any(curves[100] > curves[50] * (1 + 1e-6)):
            ctx.count("rotdpp_interior_percentiles_distinct")
        if (root["wi"], root["azset"], nwin) == (0, "four", 1) and _is_default(space, cfg):
            ctx.sample(dict(root=root, case=detail, single_min=lo[0].tolist(), single_max=hi[0].tolist(),
                            rotd={str(p): curves[p][0].tolist() for p in PERCENTILES}))
        _judge_rotdpp(ctx, root, detail, lo, hi, curves, "")


# ---------------------------------------------------------------------------
# rotation-invariant combinations

def _part_invariant(root, ctx, tier):
    w = tuple(WINDOWS[root["wi"]])
    L, dt, method = w[3], w[4], root["method"]
    nwin = 2 if (root["wi"] % 2 or method == "diffuse_field") else 1
    arrays = window_arrays(w, nwin)
    control = method in CONTROL
    kind = dict(kind="diffuse") if method == "diffuse_field" else dict(kind="fd", method=method)
    space, fcs_sets = cfg_space(L, dt, ["nopad", "default"])
    space = dict(space, deployed=list(ANGLES), target=list(ANGLES))
    bases = {}
    full = tier != "quick" and method in FULL_PRODUCT_METHODS
    for case in product.deviations(space, None if full else 2):
        cfg = {k: case[k] for k in ("fft", "smoothing", "tukey", "fcs")}
        d, t = case["deployed"], case["target"]
        fcs = fcs_sets[cfg["fcs"]]
        key = repr(cfg)
        if key not in bases:
            bases[key] = run_process(ctx, fresh(arrays, dt, ANGLES[0]), make_settings(kind, cfg, fcs))
        base = bases[key]
        ctx.count("states")
        detail = dict(config=cfg, fcs=fcs, deployed=d, target=t, nwin=nwin, method=method)
        if base[0] != "ok":
            ctx.violation(f"C04:invariant:{method}:raises:{base[1]}", root, detail=detail, expected="a curve",
                          observed=list(base[1:]), explanation="processing of the unrotated recording raised")
            continue
        cls = _angle_class(t - d)
        variants = [("reoriented", lambda: fresh(arrays, dt, d, [t] * nwin))]
        if nwin > 1:
            t_other = ANGLES[(ANGLES.index(t) + 3) % len(ANGLES)]
            variants.append(("reoriented-per-record", lambda: fresh(arrays, dt, d, [t, t_other][:nwin])))
        if d == ANGLES[0]:
            # the same true motion recorded by a sensor deployed at t (reference geometry, no orient call)
            variants.append(("deployed", lambda: [mk(*RR.deploy(ns, ew, t), vt, dt, t) for ns, ew, vt in arrays]))
        if not control:
            ctx.count("validated")
        for vname, build in variants:
            if vname.startswith("reoriented"):
                ctx.count("transitions", nwin)
            res = run_process(ctx, build(), make_settings(kind, cfg, fcs))
            same = res[0] == "ok" and close(res[1], base[1], rtol=RTOL)
            if control:
                if cls != "zero" and vname != "reoriented-per-record":
                    ctx.count("control_evaluated")
                    if res[0] == "ok" and not close(res[1], base[1], rtol=1e-6):
                        ctx.count("control_changes_under_rotation")
                continue
            if cls in NONTRIVIAL:
                ctx.nontrivial_case(("invariant", root["wi"], method, repr(case), vname))
            ctx.outcome(("invariant", root["wi"], method, cfg["smoothing"][0], cfg["fft"], cfg["tukey"], cfg["fcs"],
                         round(float(base[1].flat[0]), 6)))
            if (root["wi"], method, d, t, vname) == (1, "squared_average", 30, 200, "reoriented") \
                    and _is_default(space, case, ("fft", "smoothing", "tukey", "fcs")):
                ctx.sample(dict(root=root, case=detail, unrotated=base[1][0].tolist(), reoriented=_obs(res)[0]))
            if not same:
                ctx.violation(f"C04:invariant:{method}:{vname}:{cls}", root, detail=detail, expected=base[1].tolist(),
                              observed=_obs(res),
                              explanation=f"{method} HVSR depends on the sensor orientation ({vname})")


# ---------------------------------------------------------------------------
# orientation step of preprocessing

PRE_L, PRE_DT = 64, 0.01
# how the caller spells the target: every real number type a target taken from a list, an np.arange or a file can have
TARGET_TYPES = {"int": int, "float": float, "np.int64": np.int64, "np.int32": np.int32, "np.float32": np.float32,
                "np.float64": np.float64, "array0d": lambda v: np.array(float(v))}
INTEGER_TARGET_TYPES = ("int", "np.int64", "np.int32")
# nearly tied orientations: the sensor is deployed a fraction of a degree away from the target (a compass reading of
# 30.06 degrees oriented to 30), or the target is a fraction of a degree away from the deployed orientation.  The
# base angle b is the root's deployed orientation: ["deployed", x] = deployed at b + x and oriented to b,
# ["target", x] = deployed at b and oriented to b + x.  A re-orientation by 0.03 degree is still a rotation.
PRE_TIES = [None, ["deployed", 0.06], ["deployed", -0.08], ["target", 0.03], ["deployed", 0.5]]


def _pre_settings(method, orient, cfg):
    kw = dict(orient_to_degrees_from_north=orient, filter_corner_frequencies_in_hz=list(cfg["corners"]),
              window_length_in_seconds=cfg["window"], detrend=cfg["detrend"])
    if method == "hvsr":
        return hvsrpy.settings.HvsrPreProcessingSettings(**kw)
    return hvsrpy.settings.PsdPreProcessingSettings(**kw)


def _preprocess(ctx, recs, settings):
    ctx.count("transitions")
    try:
        with warnings.catch_warnings():
            warnings.simplefilter("ignore")
            out = hvsrpy.preprocess(recs, settings)
    except Exception as e:      # noqa: BLE001
        return ("raised", type(e).__name__, str(e)[:300])
    return ("ok", [(r.ns.amplitude.copy(), r.ew.amplitude.copy(), r.vt.amplitude.copy(), r.degrees_from_north)
                   for r in out])


def _part_preprocess(root, ctx, tier):
    names = ROT_TRIPLES[root["triple"]]
    d = root["d"]
    arrays0 = [tuple(_sig(n, PRE_L, 1.0) for n in names),
               tuple(_sig(n, PRE_L, 1.0)[::-1].copy() * 1.5 for n in names)]
    big = max(float(np.abs(a).max()) for tr in arrays0 for a in tr[:2])
    atol = ATOL_REL * big * 10
    space = dict(target=list(ANGLES), method=["hvsr", "psd"], window=[None, 0.21],
                 detrend=["linear", "constant", "none"], corners=[[None, None], [5.0, None], [2.0, 20.0]],
                 nrec=[1, 2], ttype=list(TARGET_TYPES), tie=list(PRE_TIES))
    base_angle = d
    for cfg in product.deviations(space, 2 if tier == "quick" else None):
        tie = cfg["tie"]
        if tie is None:
            d, target = base_angle, cfg["target"]
        elif cfg["target"] != space["target"][0]:
            continue            # a nearly tied pair replaces the target dimension: no duplicates
        elif tie[0] == "deployed":
            d, target = base_angle + tie[1], base_angle
        else:
            d, target = base_angle, base_angle + tie[1]
        if cfg["ttype"] in INTEGER_TARGET_TYPES and target != int(target):
            continue            # an integer type cannot spell a fractional target
        t, nrec = TARGET_TYPES[cfg["ttype"]](target), cfg["nrec"]
        arrays = arrays0[:nrec]
        ctx.count("states")
        detail = dict(config=dict(cfg, target=target), deployed=d, signals=list(names), L=PRE_L, dt=PRE_DT)
        a_res = _preprocess(ctx, fresh(arrays, PRE_DT, d), _pre_settings(cfg["method"], t, cfg))
        turned = fresh(arrays, PRE_DT, d)
        for r in turned:
            _orient(ctx, r, t)
        b_res = _preprocess(ctx, turned, _pre_settings(cfg["method"], None, cfg))
        n_res = _preprocess(ctx, fresh(arrays, PRE_DT, d), _pre_settings(cfg["method"], None, cfg))
        if a_res[0] != "ok" or b_res[0] != "ok" or n_res[0] != "ok":
            if a_res[0] == b_res[0] == n_res[0]:
                ctx.count("preprocess_refused_both_ways")
                continue
            ctx.violation(f"C04:preprocess:{cfg['method']}:raises-one-way", root, detail=detail,
                          expected=list(b_res[:2]) if b_res[0] != "ok" else "windows",
                          observed=list(a_res[:2]) if a_res[0] != "ok" else "windows",
                          explanation="preprocess raises with the orientation step but not without (or vice versa)")
            continue
        ctx.count("validated")
        # the direction the caller's spelling of the target denotes (a single-precision 30.03 is 30.030000686...)
        t = float(np.asarray(t))
        label_atol = 1e-4 if cfg["ttype"] == "np.float32" else 1e-9
        cls = _angle_class(t - d)
        if cls in NONTRIVIAL:
            ctx.nontrivial_case(("preprocess", root["triple"], base_angle, repr(cfg)))
            if cfg["ttype"] not in ("int", "float"):
                ctx.count("preprocess_numpy_typed_targets")
        if tie is not None:
            ctx.count("preprocess_nearly_tied_validated")
        ctx.outcome(("preprocess", cfg["method"], len(a_res[1]), cls, cfg["detrend"], repr(cfg["corners"])))
        wa, wb, wn = a_res[1], b_res[1], n_res[1]
        okay = len(wa) == len(wb)
        if okay:
            for (ans, aew, avt, adfn), (bns, bew, bvt, _) in zip(wa, wb):
                okay = okay and close(ans, bns, rtol=RTOL, atol=atol) and close(aew, bew, rtol=RTOL, atol=atol) \
                    and bitwise_equal(avt, bvt)
        if not okay:
            ctx.violation(f"C04:preprocess:{cfg['method']}:orientation-step:{cls}", root, detail=detail,
                          expected=[[x.tolist() for x in win[:3]] for win in wb][:2],
                          observed=[[x.tolist() for x in win[:3]] for win in wa][:2],
                          explanation="preprocess(orient_to=t) differs from orient_sensor_to(t) followed by "
                                      "preprocess(orient_to=None)")
        if not all(RR.same_direction(win[3], t, atol=label_atol) for win in wa):
            ctx.violation(f"C04:preprocess:{cfg['method']}:degrees_from_north:not-target", root, detail=detail,
                          expected=f"{t} modulo 360", observed=[win[3] for win in wa],
                          explanation="windows returned by preprocess(orient_to=t) are not labelled with t")
        if not all(RR.same_direction(win[3], d) for win in wn):
            ctx.violation(f"C04:preprocess:{cfg['method']}:degrees_from_north:changed-without-orientation", root,
                          detail=detail, expected=f"{d} modulo 360", observed=[win[3] for win in wn],
                          explanation="windows returned by preprocess(orient_to=None) lost the deployed orientation")
        if cls != "zero":
            ctx.count("preprocess_orientation_evaluated")
            if len(wa) == len(wn) and not all(close(x[0], y[0], rtol=1e-6, atol=atol) for x, y in zip(wa, wn)):
                ctx.count("preprocess_orientation_changes_output")
            # the oracle must be able to tell a re-orientation by a fraction of a degree from none at all
            if tie is not None and len(wb) == len(wn) and not all(
                    close(x[0], y[0], rtol=RTOL, atol=atol) and close(x[1], y[1], rtol=RTOL, atol=atol)
                    for x, y in zip(wb, wn)):
                ctx.count("preprocess_nearly_tied_distinguishable")
        # with every other step switched off the windows are the reference rotation itself
        if cfg["window"] is None and cfg["detrend"] == "none" and cfg["corners"] == [None, None]:
            for (ans, aew, avt, _), (ns0, ew0, vt0) in zip(wa, arrays):
                rns, rew = RR.reorient(ns0, ew0, d, t)
                # a single-precision target is rotated with single-precision cos/sin: judged at that type's precision
                rt, at = (1e-6, 1e-6 * big) if cfg["ttype"] == "np.float32" else (RTOL, atol)
                if not (close(ans, rns, rtol=rt, atol=at) and close(aew, rew, rtol=rt, atol=at)
                        and bitwise_equal(avt, vt0)):
                    ctx.violation(f"C04:preprocess:{cfg['method']}:orientation-only:{cls}:reference-rotation", root,
                                  detail=detail, expected=dict(ns=rns.tolist(), ew=rew.tolist()),
                                  observed=dict(ns=ans.tolist(), ew=aew.tolist()),
                                  explanation="preprocess with only the orientation step active is not the "
                                              "clockwise-from-north rotation by t - deployed")


# ---------------------------------------------------------------------------
# lists of recordings with unequal time steps: azimuthal == stack of single azimuths, RotDpp inside the envelope

# a list of recordings is spelled as a word over the time steps a = dt, b = 2 dt (the 50 Hz station next to the
# 100 Hz ones), c = dt / 2; record i of the list has the i-th set of signals
MIXED_DT_FACTORS = {"a": 1.0, "b": 2.0, "c": 0.5}
# every word over {a, b} of 2-4 letters (the constant ones are the equal-time-step control), every order of one
# record per time step, and longer lists in which the records of a time step are interleaved with the others
MIXED_PATTERNS = ["".join(p) for n in (2, 3, 4) for p in itertools.product("ab", repeat=n)] \
    + ["abc", "acb", "bac", "bca", "cab", "cba", "abca", "abbab", "babaab", "acbcab"]
MIXED_PATTERNS_QUICK = ["ab", "ba", "aab", "aba", "bab", "bba", "abba", "baba", "cab", "acbcab"]
OMITTED = "<omitted>"
# how the caller treats handle_dissimilar_time_steps_by - at BOTH entry points alike: not passed at all, or passed
MIXED_OPTIONS = [OMITTED, "frequency_domain_resampling", "keeping_smallest_time_step", "keeping_majority_time_step"]
MIXED_AZSETS = ["unsorted3", "four"]
# "bare": window, smoothing and FFT settings are left to their defaults at both entry points as well (the default
# centre frequencies reach 50 Hz, so these lists use dt = 0.005 s); "bare_all": the azimuths too (0, 5 .. 175)
BARE_DT = 0.005
BARE_ALL_PATTERNS_QUICK = ["aab"]


def _mixed_records(w, pattern, dt, d):
    L = w[3]
    arrays = window_arrays(w, len(pattern))
    recs, dts = [], []
    for (ns, ew, vt), letter in zip(arrays, pattern):
        n = (L + 1) // 2 if letter == "b" else L        # the coarser station holds fewer samples
        step = dt * MIXED_DT_FACTORS[letter]
        recs.append(mk(ns[:n].copy(), ew[:n].copy(), vt[:n].copy(), step, d))
        dts.append(step)
    return recs, dts


def _is_involution(pattern):
    """False when bringing the curves (accumulated time step by time step) back to the order of the list is a
    permutation that differs from its inverse."""
    order = [i for letter in dict.fromkeys(pattern) for i, x in enumerate(pattern) if x == letter]
    return all(order[order[i]] == i for i in range(len(order)))


def _mixed_case(ctx, root, w, pattern, dt, d, detail, build, azs, fcs):
    """One list of recordings, one spelling of the settings.  ``build(kind, fft)`` -> a fresh settings object;
    ``azs`` None = the azimuths are left to their default as well."""
    ctx.count("states")
    s_az = build(dict(kind="azimuthal", azimuths=azs), None)
    if azs is None:
        azs = [float(a) for a in s_az.azimuths_in_degrees]
        detail = dict(detail, default_azimuths=azs)
    r_az = run_process(ctx, _mixed_records(w, pattern, dt, d)[0], s_az)
    if r_az[0] != "ok":
        ctx.violation(f"C04:azimuthal:mixed-time-steps:raises:{r_az[1]}", root, detail=detail, expected="curves",
                      observed=list(r_az[1:]), explanation="azimuthal processing of a list of recordings with "
                                                           "unequal time steps raised")
        return
    n = _n_after(s_az)
    if not isinstance(n, (int, np.integer)):
        ctx.count("azimuthal_fft_length_unknown")
        return
    fft = {"n": int(n)}
    detail = dict(detail, fft_n=int(n))
    singles = {}

    def single(a):
        if a not in singles:
            s_1 = build(dict(kind="single", azimuth=a), fft)
            r_1 = run_process(ctx, _mixed_records(w, pattern, dt, d)[0], s_1)
            if r_1[0] == "ok" and _n_after(s_1) != n:
                ctx.count("single_azimuth_resolves_other_fft_length")
                r_1 = ("other-n",)
            elif r_1[0] != "ok":
                ctx.violation(f"C04:single_azimuth:mixed-time-steps:raises:{r_1[1]}", root,
                              detail=dict(detail, azimuth=a), expected="curves", observed=list(r_1[1:]),
                              explanation="single-azimuth processing of a list of recordings with unequal time "
                                          "steps raised")
            singles[a] = r_1
        return singles[a]

    rows = [single(a) for a in azs]
    if any(r[0] != "ok" for r in rows):
        return
    rows = [r[1] for r in rows]
    ctx.count("validated")
    option = detail["option"]
    spelled = "option-omitted" if option == OMITTED else "option-passed"
    ctx.nontrivial_case(("mixed", root["wi"], pattern, repr(detail["config"]), option, detail["spelling"]))
    ctx.outcome(("mixed", pattern, option, detail["spelling"], rows[0].shape[0], round(float(rows[0].flat[0]), 6)))
    if len(set(pattern)) > 1:
        ctx.count("mixed_time_steps_validated")
        if rows[0].shape[0] == len(pattern):
            ctx.count("mixed_all_records_kept")
        else:
            ctx.count("mixed_records_dropped")
        if rows[0].shape[0] > 1 and not close(rows[0][0], rows[0][-1], rtol=1e-6):
            ctx.count("mixed_rows_differ_between_records")
        if rows[0].shape[0] == len(pattern) and not _is_involution(pattern):
            ctx.count("mixed_reordering_is_not_its_own_inverse")
    if (root["wi"], pattern, option, detail["spelling"]) == (0, "ab", OMITTED, "explicit") \
            and detail["config"].get("default"):
        ctx.sample(dict(root=root, case=detail, azimuthal_first_row=r_az[1][0].tolist(),
                        single_first_row=rows[0][0].tolist()))
    ex = r_az[3]
    expected_rows = [int(r.shape[0]) for r in rows]
    if ex["azimuths"] != [float(a) for a in azs]:
        ctx.violation("C04:azimuthal:mixed-time-steps:azimuths", root, detail=detail, expected=azs, observed=ex,
                      explanation="the azimuthal result does not hold one HVSR set per requested azimuth, in order")
    elif ex["rows_per_azimuth"] != expected_rows:
        ctx.violation(f"C04:azimuthal:mixed-time-steps:{spelled}:curves-per-azimuth-differ-from-single-azimuth", root,
                      detail=detail, expected=dict(curves_per_azimuth=expected_rows),
                      observed=dict(curves_per_azimuth=ex["rows_per_azimuth"]),
                      explanation="for a list of recordings with unequal time steps the azimuthal result holds "
                                  "another number of curves per azimuth than single-azimuth processing of the same "
                                  "list with the same settings (handle_dissimilar_time_steps_by "
                                  + ("left to its default at both entry points)" if option == OMITTED
                                     else f"= {option!r} at both entry points)"))
    else:
        stack = np.vstack(rows)
        if not bitwise_equal(r_az[1], stack):
            worst = "differs-beyond-1e-9" if not close(r_az[1], stack, rtol=RTOL) else "differs-in-last-bits"
            if worst == "differs-beyond-1e-9" and sorted(x.tobytes() for x in r_az[1]) == \
                    sorted(x.tobytes() for x in stack):
                worst = "rows-in-another-order"
            ctx.violation(f"C04:azimuthal:mixed-time-steps:{spelled}:stack-of-single-azimuth:{worst}", root,
                          detail=detail, expected=stack.tolist(), observed=r_az[1].tolist(),
                          explanation="for a list of recordings with unequal time steps the azimuthal result is not "
                                      "exactly the stack of the single-azimuth results computed with the same "
                                      "settings and FFT length")
    if fcs is not None and not bitwise_equal(r_az[2], np.asarray(fcs, dtype=float)):
        ctx.violation("C04:azimuthal:mixed-time-steps:frequency-vector", root, detail=detail, expected=fcs,
                      observed=r_az[2].tolist(),
                      explanation="frequency vector of the azimuthal result is not the requested centres")
    # RotDpp of the same list: row k inside the envelope of row k of the single-azimuth results
    curves, r_azs = {}, None
    for p in PERCENTILES:
        s_p = build(dict(kind="rotdpp", percentile=p, azimuths=None if "default_azimuths" in detail else azs), fft)
        r_azs = [float(a) for a in s_p.azimuths_in_degrees]
        r_p = run_process(ctx, _mixed_records(w, pattern, dt, d)[0], s_p)
        if r_p[0] != "ok":
            ctx.violation(f"C04:rotdpp:mixed-time-steps:raises:{r_p[1]}", root, detail=dict(detail, percentile=p),
                          expected="curves", observed=list(r_p[1:]),
                          explanation="RotDpp processing of a list of recordings with unequal time steps raised")
            return
        if _n_after(s_p) != n:
            ctx.count("rotdpp_resolves_other_fft_length")
            return
        curves[p] = r_p[1]
    env = [single(a) for a in r_azs]
    if any(r[0] != "ok" for r in env):
        return
    env = [r[1] for r in env]
    ctx.count("mixed_rotdpp_validated")
    if any(c.shape != env[0].shape for c in curves.values()):
        ctx.violation(f"C04:rotdpp:mixed-time-steps:{spelled}:number-of-curves-differs-from-single-azimuth", root,
                      detail=detail, expected=dict(curves=int(env[0].shape[0])),
                      observed={str(p): list(c.shape) for p, c in curves.items()},
                      explanation="for a list of recordings with unequal time steps RotDpp returns another number "
                                  "of curves than single-azimuth processing of the same list with the same settings")
        return
    lo, hi = np.min(env, axis=0), np.max(env, axis=0)
    if np.any(curves[100] > curves[0] * (1 + 1e-6)):
        ctx.count("rotdpp_strictly_increasing")
    _judge_rotdpp(ctx, root, dict(detail, rotdpp_azimuths=r_azs), lo, hi, curves, ":mixed-time-steps")


def _part_mixed(root, ctx, tier):
    w = tuple(WINDOWS[root["wi"]])
    L, dt, d, pattern = w[3], w[4], root["d"], root["pattern"]
    if root.get("bare_all"):
        options = MIXED_OPTIONS if tier != "quick" else MIXED_OPTIONS[:1]
        for option in options:
            kw = {} if option == OMITTED else dict(handle_dissimilar_time_steps_by=option)
            detail = dict(time_steps=_mixed_records(w, pattern, BARE_DT, d)[1], pattern=pattern, option=option,
                          spelling="bare_all", config={}, deployed=d, L=L)
            _mixed_case(ctx, root, w, pattern, BARE_DT, d, detail, lambda kind, fft, kw=kw: _construct(kind, kw),
                        None, None)
        return
    # the slowest station decides the Nyquist frequency: centres and bandwidths are laid out on its grid
    space, fcs_sets = cfg_space(L, dt * max(MIXED_DT_FACTORS[x] for x in pattern), ["default", "nopad"])
    if tier != "quick":
        space["fft"].append("n65536")
    space = dict(option=list(MIXED_OPTIONS), azset=list(MIXED_AZSETS), **space)
    for case in product.deviations(space, 1 if tier == "quick" else 2):
        cfg = {k: case[k] for k in ("fft", "smoothing", "tukey", "fcs")}
        option, azs, fcs = case["option"], AZ_SETS[case["azset"]], fcs_sets[case["fcs"]]
        detail = dict(time_steps=_mixed_records(w, pattern, dt, d)[1], pattern=pattern, option=option,
                      spelling="explicit", config=dict(cfg, default=_is_default(space, case)), fcs=fcs, azimuths=azs,
                      deployed=d, L=L)

        def build(kind, fft, cfg=cfg, fcs=fcs, option=option):
            s = make_settings(kind, cfg, fcs, fft=fft) if option == OMITTED else None
            if s is None:
                op, bw = cfg["smoothing"]
                s = _construct(kind, dict(
                    window_type_and_width=["tukey", cfg["tukey"]],
                    smoothing=dict(operator=op, bandwidth=bw, center_frequencies_in_hz=list(fcs)),
                    fft_settings=FFT_REQ[cfg["fft"]]() if fft is None else dict(fft),
                    handle_dissimilar_time_steps_by=option))
            return s
        _mixed_case(ctx, root, w, pattern, dt, d, detail, build, azs, fcs)
    # nothing but the azimuths (thorough: and the option) passed: every other argument at its default
    for option in (MIXED_OPTIONS[:1] if tier == "quick" else MIXED_OPTIONS):
        kw = {} if option == OMITTED else dict(handle_dissimilar_time_steps_by=option)
        azs = AZ_SETS["two"]
        detail = dict(time_steps=_mixed_records(w, pattern, BARE_DT, d)[1], pattern=pattern, option=option,
                      spelling="bare", config={}, azimuths=azs, deployed=d, L=L)
        _mixed_case(ctx, root, w, pattern, BARE_DT, d, detail, lambda kind, fft, kw=kw: _construct(kind, kw), azs, None)


PARTS = dict(orient=_part_orient, steps=_part_steps, history=_part_history, polarised=_part_polarised, single=_part_single, azimuthal=_part_azimuthal,
             rotdpp=_part_rotdpp, invariant=_part_invariant, preprocess=_part_preprocess, mixed=_part_mixed)


# ---------------------------------------------------------------------------

def warm():
    w = WINDOWS[1]
    arrays = window_arrays(w, 1)
    space, fcs_sets = cfg_space(w[3], w[4], ["nopad"])

    class _C:
        def count(self, *a, **k):
            pass
    for op in space["smoothing"]:
        cfg = dict(fft="nopad", smoothing=op, tukey=0.1, fcs="mid")
        run_process(_C(), fresh(arrays, w[4], 0), make_settings(dict(kind="single", azimuth=30), cfg, fcs_sets["mid"]))


NON_VACUITY = [
    ("anticlockwise_differs", "the anticlockwise rotation never differed from the observed re-orientation"),
    ("orient_changes_samples", "orient_sensor_to never changed the horizontals"),
    ("steps_first_step_distinguishable", "a re-orientation by a fraction of a degree was never distinguishable "
                                         "from no rotation at the comparison tolerance"),
    ("history_operation_changes_horizontals", "the operations between two re-orientations never changed the "
                                              "horizontals"),
    ("history_depth3_validated", "no history with three re-orientations was compared"),
    ("azimuthal_order_matters", "the stack of single-azimuth results never depended on the order of a "
                                "non-ascending azimuth sequence"),
    ("azimuth_changes_curve", "the single-azimuth HVSR never depended on the azimuth"),
    ("rotdpp_strictly_increasing", "RotD100 never exceeded RotD0"),
    ("rotdpp_interior_percentiles_distinct", "RotD25/RotD50 never differed from RotD0/RotD100"),
    ("control_changes_under_rotation", "the geometric-mean control never changed under rotation: the invariance "
                                       "oracle cannot fail on the enumerated cases"),
    ("preprocess_orientation_changes_output", "the orientation step of preprocess never changed the windows"),
    ("preprocess_nearly_tied_distinguishable", "a re-orientation by a fraction of a degree before preprocessing was "
                                               "never distinguishable from none at the comparison tolerance"),
    ("mixed_all_records_kept", "no list of recordings with unequal time steps was processed with all records kept"),
    ("mixed_records_dropped", "no handle_dissimilar_time_steps_by option ever dropped a recording"),
    ("mixed_rows_differ_between_records", "the curves of the records of a mixed list never differed: a curve "
                                          "attributed to the wrong record would go unseen"),
    ("mixed_reordering_is_not_its_own_inverse", "no mixed list needed a re-ordering that differs from its inverse"),
    ("mixed_rotdpp_validated", "RotDpp was never judged on a list of recordings with unequal time steps"),
]


def finalize(ctx, tier):
    for name, text in NON_VACUITY:
        if not ctx.counters.get(name, 0):
            ctx.violation(f"C04:harness:non-vacuity:{name}", dict(kind="non-vacuity"), observed=0, explanation=text)


def describe(tier):
    quick = tier == "quick"
    dev = "every configuration within 2 deviations of the default" if quick else "the full product"
    return dict(
        rule="angle alphabet {0, 30, 90, 200, 359, -45, 400, 725} for deployed orientation, target, second target "
             "and true azimuth; orient adds {0.08, 359.95, 360, 30.05} (re-orientations by 0.03-0.08 degree), "
             "polarised adds deployed {0.08, 359.95, 30.05} and target 360.  orient: full product deployed x target "
             "x second target (12^3) on "
             f"{2 if quick else 4} signal triples x L {{8, 33}} x {2 if quick else 3} amplitude scales; steps: 8 "
             "deployed orientations (targets counted from the wrapped and from the caller's value) x step {0.05, "
             "-0.09, 1e-3, 1e-6} degree x {1, 2, 20, 200} steps on the same signals, n calls vs one call vs the "
             "reference; history: orient(a); op1; orient(b) for the full product a x b x 13 operations "
             "(butterworth_filter high/low/band-pass, detrend linear/constant, window 0.1/1.0, trim, assignment of "
             "ns / ew / all amplitudes, in-place scaling, replacement of the ns and ew TimeSeries), and the depth-3 "
             "histories orient(a); op1; orient(b); op2; orient(c) for "
             f"{'4 (a, b) pairs' if quick else '16 (a, b) pairs (every angle twice first, twice second)'} x 13 op1 "
             "x 6 op2 (none, detrend, window, trim, assignment, filter) x c in {back to a, 0, 90.05, -45} on "
             f"{2 if quick else 4} signal triples x L {{33, 64}} x {2 if quick else 3} scales x 2 deployed "
             "orientations, each re-orientation compared with the reference rotation of the samples snapshotted "
             "just before it; polarised: true azimuth x deployed x target (north first) on "
             f"{2 if quick else 4} motions x L x scales; single: {dev} of {{2 FFT requests, 3 operators, 3 Tukey "
             "widths, 2 centre sets} x 7 azimuths x "
             f"{4 if quick else 8} deployed orientations x {4 if quick else 6} windows; azimuthal: {dev} of {{4 FFT "
             "requests, 3 operators, 3 tapers, 2 centre sets} x 7 azimuth sequences (3 ascending, shuffled, "
             "unsorted, descending, one with a repeated azimuth), entry i paired with the caller's i-th azimuth; "
             "rotdpp: the same configurations x 5 azimuth sequences (3 ascending, 2 not) x percentiles "
             "{0, 25, 50, 100} x {1, 2} windows; invariant: "
             f"{dev} of {{configuration, deployed, target}} x 7 invariant method names (+ geometric mean as control"
             + ("" if quick else "; the four alias names within 2 deviations only") + "), re-oriented by hvsrpy (all "
             "records alike, and each record differently) and deployed by the reference geometry; "
             f"preprocess: {dev} of {{target, hvsr/psd, window length, detrend, filter corners, 1-2 recordings, type of the target (int, float, "
             "np.int64, np.int32, np.float32, np.float64, 0-d array)}} x 8 "
             "deployed orientations x 2 signal triples.  A case is non-trivial when the rotation involved is not a "
             "multiple of 90 degrees (orient/history/polarised/single/invariant/preprocess), every steps case, resp. "
             "per distinct (window, azimuth set, configuration) (azimuthal/rotdpp)",
        bounds=dict(angles=ANGLES, orient_angles=ORIENT_ANGLES, polarised_deployed=POL_DEPLOYED,
                    polarised_targets=POL_TARGETS, step_sizes_in_degrees=STEP_SIZES, step_counts=STEP_COUNTS,
                    history_operations=HIST_OPS, history_second_operations=HIST_OPS2,
                    history_third_targets=HIST_THIRD, history_lengths=HIST_LENGTHS,
                    history_depth3_pairs=HIST_PAIRS_QUICK if quick else f"offsets {HIST_PAIR_OFFSETS_THOROUGH} in "
                                                                        "the angle alphabet",
                    azimuths=AZIMUTHS, azimuth_sets={k: AZ_SETS[k] for k in AZIMUTHAL_SETS},
                    rotdpp_azimuth_sets=ROTDPP_SETS, percentiles=PERCENTILES,
                    deviations=2 if quick else "full product", windows=4 if quick else 6,
                    window_lengths=sorted({w[3] for w in WINDOWS}), orient_lengths=ROT_LENGTHS),
        exhaustive=True,
        assumptions=[
            "single-azimuth processing ignores degrees_from_north; 'orienting the sensor to a' is read as turning it "
            "by a relative to its current orientation (DESIGN C04)",
            "azimuthal vs single-azimuth: the single-azimuth runs request the FFT length that the azimuthal run "
            "wrote back into its settings (with {'n': None} the nested call re-resolves the length to 32768, "
            "finding #17 of C09); bitwise equality is required at that common length",
            "an azimuth sequence is taken as given: entry i of the azimuthal result must be labelled with and "
            "computed for the caller's i-th azimuth, also when the sequence is not ascending; a sequence with a "
            "repeated azimuth may be refused (raise), but if it is accepted every entry must be present",
            "re-orienting rotates the samples the recording holds when orient_sensor_to is called: amplitudes "
            "changed through the public operations or by assignment between two re-orientations belong to the "
            "recording; an operation that raises on the short records (band-pass padding on 33 samples) is skipped",
            "RotD0 == min and RotD100 == max over the azimuths (rtol 1e-9) is required in addition to the bounds: "
            "a percentile definition with another value at 0/100 is not accepted",
            "preprocess(orient=t) is compared with orient-then-preprocess at rtol 1e-9 / atol 1e-11*scale for the "
            "horizontals (the position of the orientation step among the linear steps is not pinned), bitwise for "
            "the vertical",
            "only smoothing configurations whose windows are non-empty on the unpadded grid are enumerated "
            "(Konno-Ohmachi b=10, rectangular +-3 bins, Parzen +-3 bins); empty windows belong to C02",
            "sample comparisons use atol 1e-12 * largest horizontal sample, curve comparisons rtol 1e-9 (200 "
            "consecutive re-orientations accumulate well below that)",
        ])


_describe_base = describe


def describe(tier):     # noqa: F811 - the base description plus what later rounds added to the space
    d = _describe_base(tier)
    d["rule"] = d["rule"] + " " + 'Every recording is constructed with metadata carried over from another recording (deployed and current orientation 123 degrees).'
    quick = tier == "quick"
    d["rule"] += (
        "  preprocess additionally has the dimension 'tie' (nearly tied orientations, base angle b = the root's "
        "deployed orientation): deployed b + {0.06, -0.08, 0.5} oriented to b, and deployed b oriented to b + 0.03 "
        "(the target dimension is replaced; integer target types only with whole-degree targets).  mixed: lists "
        f"of recordings whose time steps spell {'10 words' if quick else 'every word'} over a = dt, b = 2 dt "
        + ("(ab ba aab aba bab bba abba baba) and c = dt / 2 (cab acbcab)" if quick else
           "of 2-4 letters, every order of abc, and abca abbab babaab acbcab (c = dt / 2)")
        + ", record i with the i-th signal set (b: half the samples), on "
        f"{'one window set per word' if quick else 'two window sets per word'}; "
        f"{'every configuration within 1 deviation' if quick else 'every configuration within 2 deviations'} of "
        "{handle_dissimilar_time_steps_by omitted / frequency_domain_resampling / keeping_smallest_time_step / "
        "keeping_majority_time_step (spelled the same way for the azimuthal, single-azimuth and RotDpp settings), "
        f"2 azimuth sequences, {2 if quick else 3} FFT requests, 3 operators, 3 tapers, 2 centre sets}}; plus the "
        "'bare' spelling (window, smoothing, FFT settings omitted at every entry point, azimuths [0, 90], dt = "
        f"0.005 s) with the option {'omitted' if quick else 'omitted and with each of its 3 values'}; plus "
        "'bare_all' (the azimuths omitted too: 0, 5 .. 175) for "
        f"{'the word aab' if quick else 'every word of 2-3 letters with two or three time steps, all 4 options'}.  "
        "Oracles: azimuthal result == stack of the single-azimuth results of the same list (azimuths, curves per "
        "azimuth, bit for bit at the FFT length the azimuthal run reports); RotD0/25/50/100 of the same list: same "
        "number of curves, monotone, row k inside [min, max] of row k over the azimuths, RotD0 == min, RotD100 == max.")
    d["bounds"].update(preprocess_ties=PRE_TIES,
                       mixed_patterns=MIXED_PATTERNS_QUICK if quick else MIXED_PATTERNS,
                       mixed_time_step_factors=MIXED_DT_FACTORS, mixed_options=MIXED_OPTIONS,
                       mixed_azimuth_sets=MIXED_AZSETS, mixed_deviations=1 if quick else 2,
                       bare_time_step=BARE_DT,
                       bare_all_patterns=BARE_ALL_PATTERNS_QUICK if quick else "words of 2-3 letters with >= 2 time steps")
    d["assumptions"] += [
        "lists with unequal time steps: 'the same settings' means the same spelling at both entry points - an "
        "argument omitted for the azimuthal settings is omitted for the single-azimuth (and RotDpp) settings too; "
        "the number of curves is whatever single-azimuth processing returns for the list (records dropped by a "
        "keeping_* option are dropped on both sides); which records an option keeps is C03's subject",
        "nearly tied orientations: a sensor deployed 0.03-0.5 degree away from the target is rotated like any "
        "other (rtol 1e-9 against orient_sensor_to and against the reference rotation); degrees_from_north of a "
        "single-precision target is compared at 1e-4 degree",
    ]
    return d
