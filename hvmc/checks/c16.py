"""C16 - SESAME reliability and clarity verdicts match the 2004 guideline.

E2.  A root is (grid, f0, second peak, search range, order of the two limits[, tie]); roots come from the product
of the alphabets below plus two explicit families: END roots (the curve ends 1, 2 or 4 samples beside the peak;
search-range limits outside the sampled band or exactly on its end samples) and TIE roots (samples other than the
peak carry exactly its amplitude; flat-topped peaks).  Below every root the
configuration space (peak height, left / right flank shape, standard-deviation
curve, window length, window count, sigma_f) is enumerated by deviation count
(or as a full product), every case is executed on the real
``hvsrpy.sesame.reliability`` / ``clarity`` with verbose = 0, 1 and 2 (stdout
captured) and every verdict is compared with ``hvmc.ref.sesame`` evaluated on
the peak of the mean curve inside the search range.  The monotonicity claims are
checked on the observed verdicts of all comparable pairs of one curve.

Violation keys
  C16:<fn>:criterion-<n>:verdict             verdict differs from the guideline
  C16:<fn>:verbosity:verdicts-differ         verdicts depend on ``verbose``
  C16:clarity:verbose2-empty-flank:raises    verbose=2 raises when no sample lies
                                             strictly inside (f0/4, f0) or (f0, 4 f0)
                                             although verbose=0/1 give a verdict (DESIGN 9 #13)
  C16:clarity:sigma-curve-without-peak:raises  mean*exp(+-std) has no interior peak:
                                             raises instead of failing criterion iv (#16)
  C16:clarity:other-input:raises, C16:reliability:any-input:raises   any other exception
  C16:reliability:criterion-ii:monotone-windows, C16:clarity:criterion-v:monotone-sigma-f
  C16:<fn>:malformed-return, C16:harness:vacuous-enumeration
  C16:<fn>:reversed-range:<any of the above>  the same oracles when the search range was given as (high, low);
                                             the guideline's verdicts do not depend on the order of the limits
  C16:<fn>:tied-sample:<...>                 the same oracles on a curve where a sample that is NOT the peak (the first /
                                             last sample of the range, or a sample on the monotone stretch next to it)
                                             carries exactly the amplitude of the peak
  C16:<fn>:flat-top:<...>                    ... on a peak whose top is a run of 3 / 4 exactly equal samples (every
                                             sample of the run is an admissible f0; nothing outside the run is)
  C16:<fn>:limit-beyond-band:<...>           ... with a search-range limit strictly below the first / above the last
                                             frequency of the curve (selects what a missing limit selects), on grids
                                             whose peak is 1, 2 or 4 samples from that end of the curve
"""
import contextlib
import io
import math

import numpy as np

from hvsrpy import sesame

from hvmc.engine import product
from hvmc.ref import sesame as RS

PROPERTY = "C16"
VERBOSITY = (0, 1, 2)
ROMAN = ("i", "ii", "iii", "iv", "v", "vi")

# ---------------------------------------------------------------------------
# alphabets

GRID_NAMES = ["geo13", "lin16", "geo103", "lintie", "geo5", "lin08", "edge5"]
F0S = [1.0, 0.1, 0.2, 0.3, 0.5, 0.7, 1.5, 2.0, 3.0]
SECONDS = ["none", "right2", "left2"]
RANGES = ["none", "wide", "narrow", "lo_only", "hi_only", "tie",
          "excl_open", "excl_closed", "at_peak", "adj_lo", "adj_hi"]
# the two limits in the order (low, high) or (high, low); only ranges with two numbers can be turned round
ORDERS = ["asc", "desc"]
TWO_SIDED = ("wide", "narrow", "tie", "excl_closed", "adj_lo", "adj_hi",
             "beyond_hi", "beyond_lo", "beyond_both", "at_ends")
# ranges with a limit outside the sampled band (0.5 x first / 1.5 x last frequency) or exactly on its end samples;
# enumerated on the END_GRIDS (the peak 1, 2 or 4 samples from the last / first sample of the curve)
BEYOND = ("beyond_hi", "beyond_lo", "beyond_both")
END_RANGES = list(BEYOND) + ["at_ends", "none", "lo_only", "hi_only"]
END_GRIDS = ["tail1", "tail2", "tail4", "head1", "head2", "head4"]
# samples that carry EXACTLY the amplitude of the peak (placed relative to the samples the range selects):
#   first / last   the first / last sample of the range (an end sample is never a peak)
#   lead / trail   the curve comes down from 1.25 A0 at the first (goes up to 1.25 A0 at the last) sample of the range
#                  and passes through exactly A0 on the sample next to it
#   flat3 / flat4  the top of the peak is a run of 3 (p-1..p+1) / 4 (p-1..p+2) equal samples
TIES = ["first", "lead", "last", "trail", "flat3", "flat4"]

A0S = [4.0, 2.5, 2.0, 1.5]
# shelf: beside the peak the curve comes down by one part in 1e7 only and stays there (a peak whose prominence
# is far below any absolute floor; still THE strict local maximum of the curve)
SIDES = ["low", "one", "high", "drop_in", "drop_out", "shelf"]
STD_CONST = {"c0.1": 0.1, "c1.5": math.log(1.5), "c1.7": math.log(1.7), "c1.9": math.log(1.9),
             "c2.2": math.log(2.2), "c2.8": math.log(2.8), "c3.5": math.log(3.5)}
# iv_<p|m>_<lo|hi>_<in|out>: the peak of the mean*sigma_A (p) or mean/sigma_A (m) curve is moved to the sample
# nearest to the 0.95 f0 (lo) / 1.05 f0 (hi) edge of the band of criterion iv) that is still inside (in) or already
# outside (out) of it; the other curve keeps its peak at f0
IV_STDS = [f"iv_{c}_{side}_{io}" for c in "pm" for side in ("lo", "hi") for io in ("in", "out")]
STDS = list(STD_CONST) + ["b_f0", "b_lo_in", "b_lo_out", "b_hi_in", "b_hi_out",
                          "t2_small", "t2_big", "tup_big", "tneg_big"] + IV_STDS
IV_FLOOR = 0.1                  # standard deviation beside the moved peak (plus) / at the moved peak (minus)
IV_LIFT = 1.2                   # the moved peak stands this factor above the curve's value at f0
SIGMA_F = [0.04, 0.09, 0.14, 0.19, 0.24, 0.3, 0.0]     # multiples of the root's f0 (0: all windows peak on one sample)
LWS = [60.0, 5.0, 20.0, 120.0]
NWS = [20, 1, 5, 100]
REL_SIDES = ["low/low", "high/high", "drop_in/one"]

W_FLANK = math.log(1.25)        # half width of the triangular peak in ln f


def make_grid(name, f0):
    """(frequencies, index of f0); frequency[p] == f0 exactly."""
    if name == "geo13":
        ks = range(-8, 9)
        return [f0 * 1.3 ** k for k in ks], 8
    if name in END_GRIDS:
        # geo13 cut 1 / 2 / 4 samples above (tail) or below (head) the peak: the peak is the last-but-one (second)
        # sample; the last (first) sample is the outermost one within a factor 2 of f0 (reliability iii);
        # the last (first) sample is the only one a factor >= 2.5 away from f0 on that side (clarity i / ii)
        k = int(name[4])
        ks = range(-8, k + 1) if name.startswith("tail") else range(-k, 9)
        return [f0 * 1.3 ** j for j in ks], (8 if name.startswith("tail") else k)
    if name == "geo13lin":
        # same length, first, last and f0 sample as geo13, but both halves linearly spaced: the samples
        # nearest to a given limit sit at OTHER positions than on geo13
        lo, hi = f0 * 1.3 ** -8, f0 * 1.3 ** 8
        return ([lo + (f0 - lo) * j / 8.0 for j in range(8)] + [f0] +
                [f0 + (hi - f0) * j / 8.0 for j in range(1, 8)] + [hi]), 8
    if name == "geo103":
        ks = range(-56, 57)
        return [f0 * 1.03 ** k for k in ks], 56
    if name == "lin16":
        ks = range(-6, 32)
        return [f0 * (1.0 + 0.16 * k) for k in ks], 6
    if name == "lintie":                      # samples exactly on f0/4, f0/2, 2 f0, 4 f0
        return [f0 * (j / 4.0) for j in range(1, 23)], 3
    if name == "geo5":                        # no sample between f0/4 and f0, nor f0 and 4 f0
        ks = range(-3, 4)
        return [f0 * 5.0 ** k for k in ks], 3
    if name == "lin08":                       # no sample between f0/4 and f0
        ks = range(-1, 8)
        return [f0 * (1.0 + 0.8 * k) for k in ks], 1
    if name == "edge5":
        # irregular sampling with one sample 0.1 % inside and one 0.1 % outside either edge of the +-5 % band
        # of criterion iv) (0.949 | 0.951 and 1.049 | 1.051), and samples between them and f0
        return [f0 * x for x in EDGE5], EDGE5.index(1.0)
    raise KeyError(name)


EDGE5 = [0.2, 0.3, 0.45, 0.6, 0.8, 0.9, 0.949, 0.951, 0.97, 1.0, 1.03, 1.049, 1.051, 1.1, 1.3, 1.7, 2.3, 3.0, 4.5]


def _level(kind, a0, ratio):
    if kind == "one":
        return 1.0
    if kind == "low":
        return 0.4 * a0
    if kind == "high":
        return 0.6 * a0
    if kind == "drop_in":                     # below A0/2 only from a factor 2.5 away
        return 0.4 * a0 if ratio >= 2.5 else 0.6 * a0
    if kind == "drop_out":                    # below A0/2 only beyond a factor 4
        return 0.4 * a0 if ratio > 4.01 else 0.6 * a0
    if kind == "shelf":
        return a0 * (1.0 - 1e-7)
    raise KeyError(kind)


def _nearest(freq, value):
    return min(range(len(freq)), key=lambda i: (abs(freq[i] - value), i))


def second_index(freq, p, second):
    if second == "none":
        return None
    target = 3.0 * freq[p] if second == "right2" else freq[p] / 3.0
    return _nearest(freq, target)


def mean_curve(freq, p, a0, left, right, second):
    f0 = freq[p]
    out = []
    for i, f in enumerate(freq):
        if i == p:
            out.append(a0)
            continue
        ratio = f / f0 if i > p else f0 / f
        lv = _level(right if i > p else left, a0, ratio)
        out.append(lv + (a0 - lv) * max(0.0, 1.0 - math.log(ratio) / W_FLANK))
    s = second_index(freq, p, second)
    if s is not None:
        fs = freq[s]
        for i, f in enumerate(freq):
            v2 = 0.9 * a0 * max(0.0, 1.0 - abs(math.log(f / fs)) / W_FLANK)
            if v2 > out[i]:
                out[i] = v2
    return out


def apply_tie(m, tie, slices):
    """Copy of the mean curve m in which further samples carry exactly the amplitude of the peak of the range.

    The tie is placed relative to the samples the search range selects (first candidate slice) and to the peak
    of the untouched curve in there; None when the curve has no unique single-sample peak or is too short."""
    lo, hi = slices[0]
    i0 = RS.peak(m[lo:hi])
    if i0 is None:
        return None
    pk = lo + i0
    a = m[pk]
    m = list(m)
    if tie == "first":
        targets = {lo: a}
    elif tie == "last":
        targets = {hi - 1: a}
    elif tie == "lead":
        targets = {lo: 1.25 * a, lo + 1: a}
    elif tie == "trail":
        targets = {hi - 1: 1.25 * a, hi - 2: a}
    elif tie == "flat3":
        targets = {pk - 1: a, pk + 1: a}
    elif tie == "flat4":
        targets = {pk - 1: a, pk + 1: a, pk + 2: a}
    else:
        raise KeyError(tie)
    for i, v in targets.items():
        if not lo <= i < hi or i == pk:
            return None
        m[i] = v
    return m


def iv_target(name, freq, t):
    """Sample the +sigma / -sigma peak is moved to by an iv_* standard-deviation curve, or None."""
    _, _c, side, io = name.split("_")
    ft = freq[t]
    n = len(freq)
    if side == "hi":
        edge = 1.05 * ft
        if io == "in":
            c = [i for i in range(n) if ft < freq[i] < edge * (1 - 1e-6)]
            return max(c) if c else None
        c = [i for i in range(n) if freq[i] >= edge * (1 - 1e-6)]
        return min(c) if c else None
    edge = 0.95 * ft
    if io == "in":
        c = [i for i in range(n) if edge * (1 + 1e-6) < freq[i] < ft]
        return min(c) if c else None
    c = [i for i in range(n) if freq[i] <= edge * (1 + 1e-6)]
    return max(c) if c else None


def std_curve(name, freq, t, mean=None):
    """Standard-deviation curve; bumps and tilts are placed relative to sample t
    (the peak the criteria will be evaluated on).  None: the kind does not exist on this grid."""
    n = len(freq)
    if name in STD_CONST:
        return [STD_CONST[name]] * n
    ft = freq[t]
    if name.startswith("iv_"):
        j = iv_target(name, freq, t)
        if j is None or not mean[j] > 0.0:
            return None
        d = math.log(IV_LIFT * mean[t] / mean[j])       # > 0: mean[t] is the highest value within the range
        if not d > 0.0:
            return None
        if name[3] == "p":       # mean*exp(+s): sample j stands out, everything else keeps the mean's shape
            out = [IV_FLOOR] * n
            out[j] = IV_FLOOR + d
        else:                    # mean*exp(-s): everything except sample j is pushed down
            out = [IV_FLOOR + d] * n
            out[j] = IV_FLOOR
        return out
    if name.startswith("b_"):
        base, bump = math.log(1.5), math.log(3.5)
        idx = None
        if name == "b_f0":
            idx = t
        elif name == "b_lo_in":
            c = [i for i in range(n) if freq[i] > 0.5 * ft * (1 + 1e-6)]
            idx = min(c) if c else None
        elif name == "b_lo_out":
            c = [i for i in range(n) if freq[i] <= 0.5 * ft * (1 + 1e-6)]
            idx = max(c) if c else None
        elif name == "b_hi_in":
            c = [i for i in range(n) if freq[i] < 2.0 * ft * (1 - 1e-6)]
            idx = max(c) if c else None
        elif name == "b_hi_out":
            c = [i for i in range(n) if freq[i] >= 2.0 * ft * (1 - 1e-6)]
            idx = min(c) if c else None
        out = [base] * n
        if idx is not None:
            out[idx] = bump
        return out
    s0 = 0.5
    out = []
    for f in freq:
        x = math.log(f / ft)
        if name == "t2_small":
            out.append(s0 + 4.0 * min(0.04, max(-0.04, x)))
        elif name == "t2_big":
            out.append(s0 + 4.0 * min(0.1, max(-0.1, x)))
        elif name == "tup_big":
            out.append(s0 + 4.0 * min(0.1, max(0.0, x)))
        elif name == "tneg_big":
            out.append(s0 - 4.0 * min(0.1, max(-0.1, x)))
        else:
            raise KeyError(name)
    return out


def search_range(kind, freq, p, second, order="asc"):
    """Search range in Hz, or 'invalid' when the kind makes no sense for the root."""
    rng = _search_range(kind, freq, p, second)
    if order == "asc" or rng == "invalid":
        return rng
    if kind not in TWO_SIDED:
        return "invalid"
    return (rng[1], rng[0])


def _off_sample(freq, i, outward):
    """A frequency whose nearest sample is i, 30 % of the way towards the next sample on the outward side."""
    k = i + outward
    if 0 <= k < len(freq):
        return freq[i] + 0.3 * (freq[k] - freq[i])
    return freq[i] * (1.0 + 0.1 * outward)


def _search_range(kind, freq, p, second):
    f0 = freq[p]
    n = len(freq)
    if kind in ("adj_lo", "adj_hi"):        # the sample next to the peak is the first / last one of the range
        if p < 1 or p + 1 >= n:
            return "invalid"
        if kind == "adj_lo":
            return (_off_sample(freq, p - 1, -1), f0 * 2.2)
        return (f0 / 2.2, _off_sample(freq, p + 1, +1))
    if kind == "none":
        return (None, None)
    if kind == "beyond_hi":                  # upper limit strictly above the last frequency: an open upper end
        return (f0 / 2.2, 1.5 * freq[-1])
    if kind == "beyond_lo":
        return (0.5 * freq[0], f0 * 2.2)
    if kind == "beyond_both":
        return (0.5 * freq[0], 1.5 * freq[-1])
    if kind == "at_ends":                    # limits exactly on the first and the last frequency
        return (freq[0], freq[-1])
    if kind == "wide":
        return (f0 / 5.5, f0 * 5.5)
    if kind == "narrow":
        return (f0 / 2.2, f0 * 2.2)
    if kind == "lo_only":
        return (f0 / 2.2, None)
    if kind == "hi_only":
        return (None, f0 * 2.2)
    if kind == "tie":                        # limits half way between two samples
        if p < 3 or p + 3 >= n:
            return "invalid"
        return ((freq[p - 3] + freq[p - 2]) / 2.0, (freq[p + 2] + freq[p + 3]) / 2.0)
    if second == "none":
        return "invalid"
    right = second == "right2"
    if kind == "excl_open":                  # excludes the highest peak
        return (1.8 * f0, None) if right else (None, f0 / 1.8)
    if kind == "excl_closed":
        return (1.8 * f0, 5.5 * f0) if right else (f0 / 5.5, f0 / 1.8)
    if kind == "at_peak":                    # the limit sample is the highest peak itself
        return (f0, None) if right else (None, f0)
    raise KeyError(kind)


# ---------------------------------------------------------------------------
# executing the real code

class ArgumentModified(Exception):
    pass


def _call(fn, args, rng, verbose):
    buf = io.StringIO()
    # the range is the caller's object: a tuple for the silent call, a list (which the caller keeps and would
    # use for the next curve) for the verbose ones; after the call it must still hold what the caller wrote
    arg = tuple(rng) if verbose == 0 else list(rng)
    try:
        with contextlib.redirect_stdout(buf):
            out = fn(*args, search_range_in_hz=arg, verbose=verbose)
    except Exception as e:      # noqa: BLE001 - judged by the caller
        return ("raised", type(e).__name__, str(e)[:160]), buf.getvalue()
    if list(arg) != list(rng):
        return ("raised", "ArgumentModified", f"search_range_in_hz {list(rng)} was overwritten with {list(arg)}"), \
            buf.getvalue()
    return out, buf.getvalue()


def _as_verdicts(out, n):
    """Tuple of n ints in {0, 1}, or None when the return value is malformed."""
    try:
        a = np.asarray(out, dtype=float)
    except Exception:           # noqa: BLE001
        return None
    if a.shape != (n,):
        return None
    vals = a.tolist()
    if any(v not in (0.0, 1.0) for v in vals):
        return None
    return tuple(int(v) for v in vals)


def _sets_json(sets):
    return [sorted(s) for s in sets]


# ---------------------------------------------------------------------------
# one root

class Root:
    def __init__(self, root):
        self.root = root
        self.freq, self.p = make_grid(root["grid"], root["f0"])
        assert self.freq[self.p] == root["f0"]
        self.second = root["second"]
        self.order = root.get("order", "asc")
        self.tie = root.get("tie", "none")
        self.rng = search_range(root["range"], self.freq, self.p, self.second, self.order)
        self.valid = self.rng != "invalid"
        if self.valid:
            self.slices = RS.trim(self.freq, self.rng)
        self._mean = {}
        self._interp = {}

    def mean(self, a0, left, right):
        """(mean curve, per candidate slice the admissible peak samples [primary first] or None)."""
        key = (a0, left, right)
        if key not in self._mean:
            m = mean_curve(self.freq, self.p, a0, left, right, self.second)
            if self.tie != "none":
                m = apply_tie(m, self.tie, self.slices)
            # the peak of the mean curve within the search range, per candidate slice
            peaks = []
            for lo, hi in self.slices:
                if m is None:
                    peaks.append(None)
                    continue
                c = RS.peak_candidates(m[lo:hi])
                peaks.append(None if c is None else [lo + i for i in c])
            self._mean[key] = (m, peaks)
        return self._mean[key]

    def curves(self, a0, left, right, std_name):
        """(mean, std, [(lo, hi, i0_full)]) or None when there is no (unique) peak."""
        m, peaks = self.mean(a0, left, right)
        if any(pk is None for pk in peaks):
            return None
        s = std_curve(std_name, self.freq, peaks[0][0], m)
        if s is None:
            return "no_such_std"
        return m, s, [(lo, hi, pk) for (lo, hi), pks in zip(self.slices, peaks) for pk in pks]

    def clarity_static(self, key, m, s, interp):
        """Acceptable verdicts of clarity i-iv, vi (and the facts used to classify
        exceptions), union over the admissible interpretations."""
        ck = ("c",) + key
        if ck not in self._interp:
            sets_t, sets_f, infos = [], [], []
            for lo, hi, pk in interp:
                st, info = RS.clarity(self.freq[lo:hi], m[lo:hi], s[lo:hi], 0.0, pk - lo)
                sets_t.append(st)
                infos.append(info)
                if (lo, hi) != (0, len(self.freq)):
                    sf_, _ = RS.clarity(self.freq, m, s, 0.0, pk)
                    sets_f.append(sf_)
            self._interp[ck] = (sets_t, sets_f, infos)
        return self._interp[ck]

    def reliability_static(self, key, m, s, interp):
        ck = ("r",) + key
        if ck not in self._interp:
            t, f = [], []
            for lo, hi, pk in interp:
                t.append(RS.reliability_iii(self.freq[lo:hi], s[lo:hi], pk - lo))
                if (lo, hi) != (0, len(self.freq)):
                    f.append(RS.reliability_iii(self.freq, s, pk))
            self._interp[ck] = (t, f)
        return self._interp[ck]


def _union_sets(list_of_vectors):
    n = len(list_of_vectors[0])
    return [frozenset().union(*[v[c] for v in list_of_vectors]) for c in range(n)]


def _input_class(root):
    tie = root.get("tie", "none")
    out = ""
    if tie != "none":
        out += ":flat-top" if tie.startswith("flat") else ":tied-sample"
    if root.get("range") in BEYOND:
        out += ":limit-beyond-band"
    return out


def _judge(ctx, root, fname, ncrit, acceptable, results, detail, exc_class):
    """Compare the three verbosity results of one case with the reference."""
    tag = fname + (":reversed-range" if root.get("order", "asc") == "desc" else "") + _input_class(root)
    ok = []
    silent_raised = any(isinstance(out, tuple) and out and out[0] == "raised"
                        for v, (out, _text) in zip(VERBOSITY, results) if v < 2)
    for v, (out, _text) in zip(VERBOSITY, results):
        if isinstance(out, tuple) and out and out[0] == "raised":
            key = f"C16:{tag}:{exc_class(v, silent_raised)}:raises"
            ctx.violation(key, root, detail=dict(detail, verbose=v),
                          expected=_sets_json(acceptable), observed=list(out),
                          explanation=f"{fname}(verbose={v}) raised {out[1]} ({out[2]}) where the "
                                      "guideline gives a verdict for every criterion")
            ctx.outcome(f"{fname}:raised:{out[1]}")
            continue
        vec = _as_verdicts(out, ncrit)
        if vec is None:
            ctx.violation(f"C16:{tag}:malformed-return", root, detail=dict(detail, verbose=v),
                          observed=repr(out)[:200],
                          explanation=f"{fname} did not return {ncrit} verdicts in {{0, 1}}")
            continue
        ok.append((v, vec))
    if not ok:
        return None
    v0, base = ok[0]
    for v, vec in ok[1:]:
        if vec != base:
            ctx.violation(f"C16:{tag}:verbosity:verdicts-differ", root,
                          detail=dict(detail, verbose=[v0, v]), expected=list(base), observed=list(vec),
                          explanation=f"{fname} returns different verdicts for verbose={v0} and verbose={v}")
    ctx.outcome((fname,) + base)
    knife = False
    for c in range(ncrit):
        ctx.count(f"obs_{fname}_{ROMAN[c]}_{base[c]}")
        if len(acceptable[c]) == 2:
            knife = True
            ctx.count("knife_edge")
            continue
        if base[c] not in acceptable[c]:
            ctx.violation(f"C16:{tag}:criterion-{ROMAN[c]}:verdict", root,
                          detail=dict(detail, verbose=v0), expected=_sets_json(acceptable),
                          observed=list(base),
                          explanation=f"{fname} criterion {ROMAN[c]}) verdict {base[c]} but the SESAME "
                                      f"(2004) criterion gives {sorted(acceptable[c])[0]}")
    if knife:
        ctx.count("cases_with_knife_edge")
    return base


def _clarity_vec(freq, m, s, fn_std, a, b, pk):
    v, _ = RS.clarity(freq[a:b], m[a:b], s[a:b], fn_std, pk - a)
    return v


def _count_input_classes(ctx, R, fname, m, interp, vecs, beyond_lo, beyond_hi, verdicts):
    """Non-vacuity counters of the input classes 'tied sample', 'flat top' and 'limit beyond the band'.
    vecs[i]: reference verdict sets of interp[i]; verdicts(a, b, pk): the same on the samples [a, b) for the
    peak sample pk."""
    lo, hi, pk0 = interp[0]
    run = sorted(pk for a, b, pk in interp if (a, b) == (lo, hi))
    a0 = m[pk0]
    if len(run) > 1:
        ctx.count(f"cases_flat_top_{len(run)}")
        vs = [v for (a, b, pk), v in zip(interp, vecs) if (a, b) == (lo, hi)]
        if any(v != vs[0] for v in vs[1:]):
            ctx.count("cases_flat_top_verdicts_depend_on_sample")
        if len({tuple(RS.table_rows(R.freq[pk])) for pk in run}) > 1:
            ctx.count("cases_flat_top_straddles_band_edge")
    # a sample of the range outside the top of the peak with exactly the amplitude of the peak
    before = [i for i in range(lo, run[0]) if m[i] == a0]
    after = [i for i in range(run[-1] + 1, hi) if m[i] == a0]
    for name, idx in (("before", before), ("after", after)):
        if idx:
            ctx.count(f"cases_tied_sample_{name}_peak")
            i = idx[0]
            if lo < i < hi - 1 and verdicts(lo, hi, i) != vecs[0]:
                # evaluated on the tied interior sample the guideline would give other verdicts
                ctx.count(f"cases_tied_sample_{name}_peak_would_change_verdicts")
            elif i in (lo, hi - 1):
                ctx.count(f"cases_tied_{'first' if i == lo else 'last'}_sample_of_range")
    # a limit outside the band: would the verdicts change if the end sample of the curve were not selected?
    n = len(R.freq)
    for flag, name, a, b in ((beyond_hi, "hi", lo, hi - 1), (beyond_lo, "lo", lo + 1, hi)):
        if not flag:
            continue
        ctx.count(f"cases_limit_beyond_band_{name}_{fname}")
        if (name == "hi" and hi != n) or (name == "lo" and lo != 0):
            continue
        if not all(a < pk < b - 1 for pk in run):
            ctx.count(f"cases_limit_beyond_band_{name}_peak_next_to_end_sample")
        elif verdicts(a, b, pk0) != vecs[0]:
            ctx.count(f"cases_limit_beyond_band_{name}_end_sample_decides_{fname}")


def _clarity_cases(space, k, tier):
    """All configurations within k deviations of the default; the thorough tier
    adds the full product left flank x right flank x std curve (default A0, sigma_f)."""
    cases = list(product.deviations(space, k))
    if tier != "quick":
        seen = {tuple(c[d] for d in space) for c in cases}
        sub = dict(space, a0=space["a0"][:1], sf=space["sf"][:1])
        for c in product.deviations(sub, None):
            t = tuple(c[d] for d in space)
            if t not in seen:
                seen.add(t)
                cases.append(c)
    return cases


def _spaces(tier):
    cl = dict(a0=A0S, left=SIDES, right=SIDES, std=STDS, sf=SIGMA_F)
    if tier == "quick":
        rel = dict(a0=[4.0, 1.5], sides=REL_SIDES, std=STDS, lw=LWS, nw=NWS)
        return cl, 2, rel, 2
    rel = dict(a0=[4.0], sides=REL_SIDES[:2], std=[n for n in STDS if not n.startswith("t")],
               lw=LWS, nw=NWS)
    return cl, 2, rel, None


def dtype_roots(tier):
    """Integer-valued mean curves handed over as integer arrays (round 6): the verdicts depend on the values of
    a curve, not on the NumPy type that holds them."""
    out = []
    for a0 in ((3, 6, 9) if tier == "quick" else (3, 4, 5, 6, 7, 9, 12)):
        for base in (1, 2):
            out.append(dict(part="dtype", a0=a0, base=base))
    return out


DTYPE_STDS = (0.1, 0.2, 0.3, 0.45, 0.5, 0.7, 1.0)
DTYPE_TYPES = ("int64", "int32", "int16", "uint8")


def _run_dtype(root, ctx):
    a0, base = root["a0"], root["base"]
    freq = np.geomspace(0.1, 10.0, 41)
    for p in (8, 14, 20, 26, 32):           # f0 = 0.25, 0.5, 1.0, 2.0, 4.0 Hz (every threshold band of table vi)
        m = [base] * len(freq)
        m[p] = a0
        half = (a0 + base) // 2
        m[p - 1] = m[p + 1] = max(half, base)
        for sd in DTYPE_STDS:
            std = np.full(len(freq), sd)
            ref_m = np.array(m, dtype=float)
            outs = {}
            for fname, call in (("clarity", lambda mc: sesame.clarity(np.array(freq), mc, np.array(std), 0.05,
                                                                      search_range_in_hz=(None, None), verbose=0)),
                                ("reliability", lambda mc: sesame.reliability(30.0, 20, np.array(freq), mc,
                                                                              np.array(std),
                                                                              search_range_in_hz=(None, None),
                                                                              verbose=0))):
                def run(mc):
                    try:
                        with contextlib.redirect_stdout(io.StringIO()):
                            return ("ok", np.asarray(call(mc), dtype=float).tolist())
                    except Exception as e:      # noqa: BLE001 - compared like a result
                        return ("raised", type(e).__name__)
                want = run(np.array(ref_m))
                ctx.count("transitions")
                for tname in DTYPE_TYPES:
                    got = run(np.array(m, dtype=tname))
                    ctx.count("transitions")
                    ctx.count("dtype_calls_compared")
                    if got != want:
                        ctx.violation(f"C16:{fname}:verdicts-depend-on-the-array-type", root,
                                      detail=dict(function=fname, frequency=freq.tolist(), mean_curve=m,
                                                  std_curve=sd, dtype=tname),
                                      expected=want, observed=got,
                                      explanation="the same curve values held in an integer array give other "
                                                  "verdicts than held in a float64 array")
                outs[fname] = want
            ctx.count("states")
            ctx.count("validated")
            ctx.nontrivial_case(f"dtype|{outs}")


def run_root(root, ctx, tier):
    if root.get("part") == "dtype":
        _run_dtype(root, ctx)
        return
    if root.get("grids"):
        # two grids with equal length and end points, one after the other in the same process
        for g in root["grids"]:
            sub = dict(root, grid=g)
            del sub["grids"]
            run_root(sub, ctx, tier)
        ctx.count("grid_pair_roots")
        return
    R = Root(root)
    if not R.valid:
        ctx.count("roots_invalid")
        return
    cl_space, cl_k, rel_space, rel_k = _spaces(tier)
    freq = R.freq
    f0_root = root["f0"]
    rng = R.rng
    nfull = len(freq)
    rinfo = dict(grid=root["grid"], range_kind=root["range"], range_order=R.order, second=root["second"],
                 tie=R.tie)
    rtag = f"{root['grid']}|{f0_root}|{root['second']}|{root['range']}|{R.order}|{R.tie}"
    lims = [x for x in rng if x is not None]
    beyond_hi = bool(lims) and max(lims) > freq[-1]
    beyond_lo = bool(lims) and min(lims) < freq[0]
    reversed_range = R.order == "desc"
    if reversed_range:
        assert rng[0] > rng[1]

    # ---------------- clarity ------------------------------------------
    mono_v = {}
    n_cl = n_rel = 0
    for case in _clarity_cases(cl_space, cl_k, tier):
        ckey = (case["a0"], case["left"], case["right"], case["std"])
        cur = R.curves(*ckey)
        if cur is None:
            ctx.count("skipped_no_unique_peak")
            continue
        if cur == "no_such_std":
            ctx.count("skipped_std_kind_not_on_grid")
            continue
        m, s, interp = cur
        fn_std = case["sf"] * f0_root
        ctx.count("states")
        sets_t, sets_f, infos = R.clarity_static(ckey, m, s, interp)
        vecs = []
        for (lo, hi, pk), st in zip(interp, sets_t):
            v = list(st)
            v[4] = RS.clarity_v(fn_std, freq[pk])
            vecs.append(v)
        vecs_t = list(vecs)
        for (lo, hi, pk), sf_ in zip(interp, sets_f):
            v = list(sf_)
            v[4] = RS.clarity_v(fn_std, freq[pk])
            vecs.append(v)
        acceptable = _union_sets(vecs)
        if len(R.slices) > 1:
            ctx.count("knife_edge_trim_cases")
        _count_input_classes(ctx, R, "clarity", m, interp, vecs_t, beyond_lo, beyond_hi,
                             lambda a, b, pk, m=m, s=s, fn_std=fn_std: _clarity_vec(freq, m, s, fn_std, a, b, pk))
        if sets_f and _union_sets(vecs_t) != acceptable:
            ctx.count("trimmed_vs_full_curve_differ")
        no_sigma_peak = any(i["no_sigma_peak"] for i in infos)
        flank_empty = any(i["flank_low_empty"] or i["flank_high_empty"] for i in infos)

        def exc_class(v, silent_raised, no_sigma_peak=no_sigma_peak, flank_empty=flank_empty):
            # input class of the failing call.  When both classes apply, the
            # verbose=2 failure belongs to the empty flank only if the quieter
            # calls on the same input came back with a verdict.
            if v == 2 and flank_empty and not (no_sigma_peak and silent_raised):
                return "verbose2-empty-flank"
            if no_sigma_peak:
                return "sigma-curve-without-peak"
            return "other-input"

        results = []
        for v in VERBOSITY:
            args = (np.array(freq), np.array(m), np.array(s), fn_std)
            results.append(_call(sesame.clarity, args, rng, v))
            ctx.count("transitions")
        pk0 = interp[0][2]
        detail = dict(rinfo, function="clarity", frequency=freq, mean_curve=m, std_curve=s,
                      fn_std=fn_std, search_range_in_hz=list(rng), config=case,
                      reference_f0=freq[pk0], reference_a0=m[pk0],
                      reference_f_plus=infos[0]["f_plus"], reference_f_minus=infos[0]["f_minus"])
        base = _judge(ctx, root, "clarity", 6, acceptable, results, detail, exc_class)
        ctx.count("validated")
        ctx.nontrivial_case(f"clarity|{rtag}|{_sets_json(acceptable)}")
        if freq[pk0] in (0.2, 0.5, 1.0, 2.0):
            ctx.count("cases_f0_on_band_edge")
        if flank_empty:
            ctx.count("cases_empty_flank")
        if no_sigma_peak:
            ctx.count("cases_sigma_curve_without_peak")
        if any(f != freq[pk0] for f in infos[0]["f_plus"] + infos[0]["f_minus"]) and \
                acceptable[3] == RS.PASS:
            ctx.count("cases_iv_pass_with_shifted_peak")
        if len(acceptable[3]) == 1 and not any(i["sigma_peak_ambiguous"] for i in infos):
            # a +-sigma peak within 0.3 % of an edge of the +-5 % band, the verdict being decided
            for f in set(infos[0]["f_plus"] + infos[0]["f_minus"]):
                x = f / freq[pk0]
                for edge, side in ((0.95, "lo"), (1.05, "hi")):
                    if 0.0 < abs(x - edge) <= 0.003:
                        inside = (x > edge) if side == "lo" else (x < edge)
                        ctx.count(f"cases_iv_sigma_peak_just_{'inside' if inside else 'outside'}_{side}_edge")
        if reversed_range:
            ctx.count("cases_reversed_range")
        if any(pk - lo == 1 or hi - pk == 2 for lo, hi, pk in interp) and nfull != interp[0][1] - interp[0][0]:
            ctx.count("cases_peak_next_to_range_limit" + ("_reversed" if reversed_range else ""))
        if base is not None:
            mono_v.setdefault(ckey, []).append((fn_std, base[4], case))
        n_cl += 1
        if n_cl == 58 and len(ctx.samples) < 4:
            ctx.sample(dict(root=root, function="clarity", config=case, search_range_in_hz=list(rng),
                            reference=_sets_json(acceptable),
                            observed=None if base is None else list(base)))

    for ckey, lst in mono_v.items():
        for sa, va, ca in lst:
            for sb, vb, cb in lst:
                if sa < sb:
                    ctx.count("monotone_pairs")
                    if vb == 1 and va == 0:
                        ctx.violation("C16:clarity:criterion-v:monotone-sigma-f", root,
                                      detail=dict(rinfo, curve=list(ckey), fn_std_small=sa, fn_std_large=sb,
                                                  search_range_in_hz=list(rng), config_small=ca, config_large=cb),
                                      expected="criterion v passes for the smaller fn_std as well",
                                      observed=dict(small=va, large=vb),
                                      explanation="a smaller fn standard deviation fails clarity criterion v "
                                                  "although a larger one passes it")

    # ---------------- reliability --------------------------------------
    mono_ii = {}
    for case in product.deviations(rel_space, rel_k):
        left, right = case["sides"].split("/")
        ckey = (case["a0"], left, right, case["std"])
        cur = R.curves(*ckey)
        if cur is None:
            ctx.count("skipped_no_unique_peak")
            continue
        if cur == "no_such_std":
            ctx.count("skipped_std_kind_not_on_grid")
            continue
        m, s, interp = cur
        lw, nw = case["lw"], case["nw"]
        ctx.count("states")
        t3, f3 = R.reliability_static(ckey, m, s, interp)
        vecs = []
        for (lo, hi, pk), c3 in zip(interp, t3):
            vecs.append([RS.reliability_i(lw, freq[pk]), RS.reliability_ii(lw, nw, freq[pk]), c3])
        vecs_t = list(vecs)
        for (lo, hi, pk), c3 in zip(interp, f3):
            vecs.append([RS.reliability_i(lw, freq[pk]), RS.reliability_ii(lw, nw, freq[pk]), c3])
        acceptable = _union_sets(vecs)
        if f3 and _union_sets(vecs_t) != acceptable:
            ctx.count("trimmed_vs_full_curve_differ")
        _count_input_classes(ctx, R, "reliability", m, interp, vecs_t, beyond_lo, beyond_hi,
                             lambda a, b, pk, s=s, lw=lw, nw=nw: [
                                 RS.reliability_i(lw, freq[pk]), RS.reliability_ii(lw, nw, freq[pk]),
                                 RS.reliability_iii(freq[a:b], s[a:b], pk - a)])
        results = []
        for v in VERBOSITY:
            args = (lw, nw, np.array(freq), np.array(m), np.array(s))
            results.append(_call(sesame.reliability, args, rng, v))
            ctx.count("transitions")
        pk0 = interp[0][2]
        detail = dict(rinfo, function="reliability", windowlength=lw, passing_window_count=nw,
                      frequency=freq, mean_curve=m, std_curve=s, search_range_in_hz=list(rng),
                      config=case, reference_f0=freq[pk0])
        base = _judge(ctx, root, "reliability", 3, acceptable, results, detail,
                      lambda v, silent_raised: "any-input")
        ctx.count("validated")
        ctx.nontrivial_case(f"reliability|{rtag}|{_sets_json(acceptable)}")
        if base is not None:
            mono_ii.setdefault(ckey, []).append((lw, nw, base[1], case))
        n_rel += 1
        if n_rel == 24 and len(ctx.samples) < 6:
            ctx.sample(dict(root=root, function="reliability", config=case, search_range_in_hz=list(rng),
                            reference=_sets_json(acceptable),
                            observed=None if base is None else list(base)))

    for ckey, lst in mono_ii.items():
        for la, na, va, ca in lst:
            for lb, nb, vb, cb in lst:
                if la <= lb and na <= nb and (la, na) != (lb, nb):
                    ctx.count("monotone_pairs")
                    if va == 1 and vb == 0:
                        ctx.violation("C16:reliability:criterion-ii:monotone-windows", root,
                                      detail=dict(rinfo, curve=list(ckey), fewer=[la, na], more=[lb, nb],
                                                  search_range_in_hz=list(rng), config_fewer=ca, config_more=cb),
                                      expected="criterion ii still passes with longer / more windows",
                                      observed=dict(fewer=va, more=vb),
                                      explanation="reliability criterion ii passes with (windowlength, count) = "
                                                  f"({la}, {na}) but fails with ({lb}, {nb})")


# ---------------------------------------------------------------------------
# runner interface

ROOT_SPACE = dict(grid=GRID_NAMES, f0=F0S, second=SECONDS, range=RANGES, order=ORDERS)


def roots(tier, seed):
    k = 2 if tier == "quick" else None
    out = []
    for r in product.deviations(ROOT_SPACE, k):
        # drop combinations that have no meaning (cheap to re-check in run_root too)
        if r["range"] in ("excl_open", "excl_closed", "at_peak") and r["second"] == "none":
            continue
        if r["order"] == "desc" and r["range"] not in TWO_SIDED:
            continue
        out.append(dict(r))
    for f0 in ([1.0, 0.3] if tier == "quick" else F0S):
        for rng in ("wide", "narrow", "lo_only", "hi_only"):
            for grids in (["geo13", "geo13lin"], ["geo13lin", "geo13"]):
                out.append(dict(grid=grids[0], grids=grids, f0=f0, second="none", range=rng))
    out.extend(end_roots(tier))
    out.extend(tie_roots(tier))
    out.extend(dtype_roots(tier))
    return out


def end_roots(tier):
    """Curves that end 1, 2 or 4 samples beside the peak x ranges with limits outside the band / on its end samples."""
    out = []
    quick = tier == "quick"
    for grid in END_GRIDS:
        inward = "left2" if grid.startswith("tail") else "right2"     # a second peak on the long side of the curve
        for f0 in ([1.0] if quick else [1.0, 0.5]):
            for second in ["none", inward]:
                for rng in (END_RANGES[:4] if quick else END_RANGES):
                    if quick and second != "none" and rng == "at_ends":
                        continue
                    for order in ORDERS:
                        if order == "desc" and (rng not in TWO_SIDED or
                                                (quick and (rng != "beyond_both" or second != "none"))):
                            continue
                        out.append(dict(grid=grid, f0=f0, second=second, range=rng, order=order))
    return out


def tie_roots(tier):
    """Curves with samples that carry exactly the amplitude of the peak (TIES)."""
    out = []
    if tier == "quick":
        for grid, f0s, rngs in (("geo13", (1.0, 2.0), ("none", "narrow")), ("lin16", (1.0,), ("none",))):
            for f0 in f0s:
                for tie in TIES:
                    for rng in rngs:
                        out.append(dict(grid=grid, f0=f0, second="none", range=rng, order="asc", tie=tie))
        for f0 in (0.2, 0.5, 1.0, 2.0):         # 3 % spacing: a flat top straddles the band edge
            for tie in (("flat3", "flat4") if f0 in (0.5, 2.0) else ("flat3",)):
                out.append(dict(grid="geo103", f0=f0, second="none", range="none", order="asc", tie=tie))
        return out
    for grid in ("geo13", "lin16", "geo103"):
        for f0 in ((1.0, 0.2, 0.5, 2.0) if grid == "geo103" else (1.0, 2.0)):
            for tie in TIES:
                for second, rng in (("none", "none"), ("none", "narrow"), ("none", "adj_lo"),
                                    ("none", "beyond_both"), ("left2", "lo_only"), ("right2", "hi_only")):
                    out.append(dict(grid=grid, f0=f0, second=second, range=rng, order="asc", tie=tie))
    return out


def finalize(ctx, tier):
    c = ctx.counters
    missing = []
    for fname, n in (("reliability", 3), ("clarity", 6)):
        for i in range(n):
            for val in (0, 1):
                if not c.get(f"obs_{fname}_{ROMAN[i]}_{val}"):
                    missing.append(f"{fname} {ROMAN[i]}) = {val}")
    for name in ("knife_edge", "cases_f0_on_band_edge", "cases_empty_flank",
                 "cases_sigma_curve_without_peak", "cases_iv_pass_with_shifted_peak",
                 "monotone_pairs", "knife_edge_trim_cases", "cases_reversed_range",
                 "cases_peak_next_to_range_limit", "cases_peak_next_to_range_limit_reversed",
                 "cases_iv_sigma_peak_just_inside_lo_edge", "cases_iv_sigma_peak_just_outside_lo_edge",
                 "cases_iv_sigma_peak_just_inside_hi_edge", "cases_iv_sigma_peak_just_outside_hi_edge",
                 "cases_flat_top_3", "cases_flat_top_4", "cases_flat_top_straddles_band_edge",
                 "cases_flat_top_verdicts_depend_on_sample",
                 "cases_tied_sample_before_peak", "cases_tied_sample_after_peak",
                 "cases_tied_first_sample_of_range", "cases_tied_last_sample_of_range",
                 "cases_tied_sample_before_peak_would_change_verdicts",
                 "cases_tied_sample_after_peak_would_change_verdicts",
                 "cases_limit_beyond_band_hi_clarity", "cases_limit_beyond_band_lo_clarity",
                 "cases_limit_beyond_band_hi_reliability", "cases_limit_beyond_band_lo_reliability",
                 "cases_limit_beyond_band_hi_peak_next_to_end_sample",
                 "cases_limit_beyond_band_lo_peak_next_to_end_sample",
                 "cases_limit_beyond_band_hi_end_sample_decides_clarity",
                 "cases_limit_beyond_band_lo_end_sample_decides_clarity",
                 "cases_limit_beyond_band_hi_end_sample_decides_reliability",
                 "cases_limit_beyond_band_lo_end_sample_decides_reliability"):
        if not c.get(name):
            missing.append(name)
    ctx.notes["vacuity_missing"] = missing
    if missing:
        ctx.violation("C16:harness:vacuous-enumeration", dict(tier=tier), observed=missing,
                      explanation="the enumerated space never produced these outcomes / input classes; "
                                  "the oracle would be vacuous for them")


def describe(tier):
    cl, ck, rel, rk = _spaces(tier)
    return dict(
        rule="roots: (grid in 6 geometric/linear grids built around f0 plus one irregular grid with a sample 0.1 % inside "
             "and 0.1 % outside either edge of the +-5 % band of clarity iv), f0 in {0.1,0.2,0.3,0.5,0.7,1,1.5,2,3} Hz "
             "exactly on a sample, second lower peak none/right/left, 11 search-range kinds (two of them with the peak "
             "right next to the first / last sample of the range), limits given as (low, high) or - ranges with two "
             "numbers - as (high, low)) - "
             + ("all roots within 2 deviations of the default root" if tier == "quick" else "full product")
             + "; plus END roots: geo13 cut 1 / 2 / 4 samples above (tail) or below (head) the peak x f0 x second peak "
             "none / on the long side x ranges with a limit at 0.5 x the first / 1.5 x the last frequency (one side, the "
             "other side, both), limits exactly on the end samples"
             + (" (both limit orders for beyond_both)" if tier == "quick" else
                ", none, low only, high only (both limit orders where there are two numbers)")
             + "; plus TIE roots: grids geo13, lin16, geo103 x f0 x 6 kinds of samples carrying EXACTLY the amplitude of "
             "the peak (first / last sample of the range; the sample next to it on a stretch that comes down from / goes "
             "up to 1.25 A0 there; flat top of 3 or 4 equal samples, on geo103 with f0 on a band edge so that the flat "
             "top straddles it) x ranges "
             + ("none, narrow" if tier == "quick" else "none, narrow, adj_lo, beyond_both, second peak + one-sided")
             + "; below each root clarity cases = all configurations of (A0, left flank, right flank, std curve, "
             f"sigma_f) within {ck} deviations of the default"
             + ("" if tier == "quick" else " plus the full product left flank x right flank x std curve")
             + " and reliability cases = "
             + (f"all configurations of (A0, flanks, std curve, window length, count) within {rk} deviations"
                if rk is not None else "the full product of (2 flank pairs, constant and bump std curves, "
                                       "window length, count)")
             + "; every case is executed with verbose 0 (range as a tuple), 1 and 2 (range as a list that must afterwards "
             "still hold what the caller wrote); flank kind 'shelf' = a peak of prominence 1e-7; std curves iv_* move the "
             "peak of mean*sigma_A or of mean/sigma_A (the other one stays at f0) to the grid sample nearest to the 0.95 f0 / "
             "1.05 f0 edge on its inner or on its outer side (8 kinds; skipped where the grid has no such sample); "
             "a case is non-trivial/distinct by "
             "(function, grid, f0, second peak, range kind, order of the limits, reference verdict sets)",
        bounds=dict(end_grids=END_GRIDS, end_ranges=END_RANGES, ties=TIES,
                    end_roots=len(end_roots(tier)), tie_roots=len(tie_roots(tier)),
                    grids=GRID_NAMES, f0=F0S, second=SECONDS, ranges=RANGES, limit_orders=ORDERS,
                    ranges_that_can_be_reversed=list(TWO_SIDED), edge5_grid_over_f0=EDGE5, a0=A0S, flanks=SIDES,
                    std_curves=STDS, sigma_f_over_f0=SIGMA_F, window_lengths=LWS, window_counts=NWS,
                    clarity_deviations=ck, reliability_deviations=rk if rk is not None else "full product",
                    root_deviations=2 if tier == "quick" else "full product"),
        exhaustive=True,
        assumptions=[
            "f0 is the highest interior local maximum of the mean curve cut to the samples nearest to the "
            "search-range limits (inclusive); curves whose highest maximum is not unique are not enumerated",
            "a sample that merely carries the amplitude of the peak (an end sample of the range, a sample on a monotone "
            "stretch) is not a peak: the verdicts must be those of the local maximum",
            "which sample of a flat-topped highest maximum (a run of exactly equal samples) is 'the peak' is not pinned: "
            "a verdict is accepted if it is the guideline's for any sample of the run (so taking the left edge, the "
            "middle or the right edge of the run are all accepted; a sample outside the run is not)",
            "a limit outside the sampled band selects what a missing limit selects (nearest sample = the end sample, "
            "inclusive)",
            "whether the remaining criteria look at the cut curve or at the whole curve is not pinned by the "
            "statement: a verdict is accepted if it agrees with either (counter trimmed_vs_full_curve_differ)",
            "table rows are half-open bands [lo, hi); reliability iii uses 2 for f0 > 0.5 Hz and 3 otherwise",
            "a sample exactly on an interval limit, a value within 1e-9 of a threshold and a range limit "
            "equidistant between two samples are knife-edge: both verdicts are accepted (counter knife_edge)",
            "sigma_A(f) = exp(std_curve(f)); a mean*sigma_A^(+-1) curve without interior peak fails criterion iv",
            "criterion iv: both peaks strictly between 0.95 f0 and 1.05 f0 (5 % of f0, the peak of the MEAN curve)",
            "a search range is the set of frequencies between its two limits: (high, low) selects what (low, high) "
            "selects (hvsrpy sorts the limits); a missing limit (None) is positional and is not turned round",
            "family 'dtype' (round 6): integer-valued mean curves (peak 3..12 over a base of 1 or 2, f0 in every "
            "band of the threshold table, seven constant std curves) handed over as int64 / int32 / int16 / uint8 "
            "arrays must give the verdicts (or the refusal) of the same values in a float64 array - a differential "
            "oracle; the float64 verdicts of these particular curves are not re-derived"])
