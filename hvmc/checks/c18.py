"""C18 - recordings persist exactly; copies are independent; trim keeps the right samples.

E1: breadth-first search over histories of trim / butterworth_filter / detrend /
window / orient_sensor_to / split applied to a real SeismicRecording3C.  In
every reachable state

1. save() -> load() must restore every sample bit for bit, the time step, the
   orientation (modulo 360) and the metadata content (tuples == lists);
2. every copy route (from_seismic_recording_3c, TimeSeries.from_timeseries,
   components handed to the constructor, split products) must give arrays with
   np.shares_memory == False against the source, with writes on either side
   invisible on the other;
   Split is exercised with the boundary sizes of its window length (round 6): one
   window spanning the whole record (two spellings), one sample short of it, one and
   two samples longer, twice the record (refused lengths have no products and are
   recorded only), a third and a half of the record, and - in shallow states - one
   sample interval; on SeismicRecording3C.split and on TimeSeries.split of every
   component.
3. trim(a, b) for a menu of intervals must keep exactly the samples
   nearest(a)..nearest(b) (exact integer arithmetic on the dyadic floats, see
   hvmc/ref/trim.py) or raise IndexError, leaving the samples alone, for a < 0,
   a >= b, b after the last sample.

Round 5 additions.  (a) The constructor is also handed ONE TimeSeries object for
two or three components (every index triple over the three given series in
shallow states, the five partition patterns in every state); the stored
components must equal what was given, share nothing with the given series nor
with EACH OTHER (an edit of one stored component leaves the other two alone) and
trim on the recording so built must keep nearest(a)..nearest(b) in every
component; recordings built this way are roots of the search as well, and the
harness' private copies reproduce which component objects are one object.
(b) Family "pair": two different objects (TimeSeries or SeismicRecording3C, every
ordered pair of (length, time step) configurations, same and different lengths
and time steps) are trimmed directly one after the other with identical
arguments, both judged against the exact reference - nothing found for one
object may be carried to the next.
"""
import copy
import json
import math
import os
import shutil
import tempfile

import numpy as np

from hvsrpy.timeseries import TimeSeries
from hvsrpy.seismic_recording_3c import SeismicRecording3C

from hvmc import alphabets as A
from hvmc.engine import explorer
from hvmc.engine.core import arr_digest, bitwise_equal
from hvmc.ref import trim as RT

PROPERTY = "C18"
COMPONENTS = ("ns", "ew", "vt")
LENGTHS = (9, 64, 201)
DTS = (0.01, 1 / 75)
DEPLOYED = (0, 33, 400)
ORIENT_TO = (400, -33, 77.5)
TUKEY_WIDTHS = (0.1, 0.5, 1.0)
FILTERS = ((2.0, None), (None, 20.0), (3.0, 15.0))


# ---------------------------------------------------------------------------
# root recordings

def root_meta():
    """Nested metadata with lists, tuples, dicts, strings and numbers (string keys only)."""
    return {"site": "A-1 / éü \"quoted\"",
            "coords": (1.5, -2.25, 1 / 3),
            "tags": ["a", ("b", 3, (4.5, "c")), []],
            "nested": {"k": [1, 2.5, {"z": None, "t": (True, False)}], "flag": True,
                       "empty": {}},
            "count": 7,
            "big": 2 ** 53 + 1,
            "tiny": 1e-300,
            "neg": -0.1}


_SIGNALS = {}


def component_signals(L):
    """Three different signals with offset, trend and very different scales (cached, read-only)."""
    if L not in _SIGNALS:
        ramp = A.sig_array("ramp", L)
        ns = A.sig_array("offgrid_sine", L) + 0.25 * A.sig_array("noise1", L) + 0.5 + ramp
        ew = 1.5e3 * A.sig_array("noise2", L) - 2.0e3 * ramp
        vt = 1e-3 * (0.7 * A.sig_array("two_sines", L) + 0.1 * A.sig_array("noise3", L) - 0.3 * ramp)
        for a in (ns, ew, vt):
            a.setflags(write=False)
        _SIGNALS[L] = (ns, ew, vt)
    return _SIGNALS[L]


def make_recording(root):
    L, dt = root["L"], root["dt"]
    ns, ew, vt = (np.array(a, copy=True) for a in component_signals(L))
    deg = DEG_TYPES[root.get("deg_type", "plain")](root["deg"])
    series = [TimeSeries(ns, dt), TimeSeries(ew, dt), TimeSeries(vt, dt)]
    i, j, k = root.get("given", (0, 1, 2))      # which of the three series is handed over as ns, ew, vt
    return SeismicRecording3C(series[i], series[j], series[k], degrees_from_north=deg, meta=root_meta())


# the orientation as an element of an integer azimuth array, a single-precision value, a 0-d array ...
DEG_TYPES = {"plain": lambda v: v, "np.int64": np.int64, "np.int32": np.int32, "np.float32": np.float32,
             "np.float64": np.float64, "array0d": lambda v: np.array(float(v))}


def own_time_vectors(rec):
    """The caller owns what time() returned: shift it in place (an absolute time axis for a plot)."""
    for c in COMPONENTS:
        t = getattr(rec, c).time()
        if isinstance(t, np.ndarray) and t.flags.writeable:
            t += 1000.0


# ---------------------------------------------------------------------------
# interval alphabet (positions in units of samples of the CURRENT record)

def intervals(n, dt):
    """(label, a, b) - times are float products position*dt, like a user would write."""
    m = n - 1

    def t(x):
        return float(x * dt)
    return [
        ("on-sample", t(1), t(m - 1)),
        ("between", t(1.3), t(m - 1.7)),
        ("between-up", t(0.7), t(m - 0.3)),
        ("half-way", t(1.5), t(m - 1.5)),
        ("half-way-end", t(2), t(m - 0.5)),
        ("whole", t(0), t(m)),
        ("whole-inside", t(0), t(m - 0.25)),
        ("single-sample", t(0.6), t(1.4)),
        ("start-negative", t(-0.5), t(m - 1)),
        ("end-beyond", t(1), t(m + 1)),
        ("end-just-beyond", t(1), t(m + 0.4)),
        # beyond the last sample by 5e-10 and 2e-12 of its time: outside the record, however little
        ("end-ppb-beyond", t(1), t(m) * (1 + 5e-10)),
        ("end-ppt-beyond", t(1), t(m) * (1 + 2e-12)),
        ("empty", t(2), t(2)),
        ("inverted", t(3), t(1)),
    ]


MENU_INTERVALS = ("on-sample", "between", "between-up", "half-way", "whole-inside",
                  "single-sample", "start-negative", "end-just-beyond", "end-ppb-beyond", "end-ppt-beyond")


# which of the three given series is handed to the constructor as (ns, ew, vt): the five ways in which
# three arguments can coincide (quick), every index triple (thorough)
PATTERNS_QUICK = ((0, 1, 2), (0, 0, 2), (0, 1, 0), (0, 1, 1), (0, 0, 0))
PATTERNS_ALL = tuple((i, j, k) for i in range(3) for j in range(3) for k in range(3))
# states reached by at most WIDE_DEPTH[tier] operations get every index triple and three trims of the
# recording so built, deeper states the five partition patterns and one trim
CONSTRUCTED_TRIMS = {"narrow": ("between",), "wide": ("between", "single-sample", "end-just-beyond", "end-ppb-beyond")}
WIDE_DEPTH = {"quick": 0, "thorough": 1}


# window lengths of split, in sample intervals of the CURRENT record of n samples (m = n - 1 intervals):
# the two interior lengths and the boundary sizes on both ends of the admissible range
SPLIT_BOUNDARY = ("whole-record", "whole-record-as-quotient", "whole-minus-one-sample", "one-sample-longer",
                  "two-samples-longer", "twice-the-record", "one-sample-interval")
SPLIT_SMALL_DEPTH = 1           # states reached by at most this many operations also get the 1-interval window


def split_lengths(n, dt, small=False):
    """(label, window length in seconds); lengths are float products k*dt, like a user would write.

    third / half: several windows (the lengths the menu uses); whole-record: ONE window spanning the
    record (k = m), also spelled as the quotient m / fs when fs = 1/dt is an integer to 1e-9;
    whole-minus-one-sample: one window, one sample short (k = m - 1); one / two samples longer than the
    record and twice the record (refused, or whatever split makes of it); one-sample-interval: the
    shortest window, m windows of two samples (shallow states only - m products).  Lengths below one
    sample interval are left out, equal lengths are judged once under their first label.
    """
    m = n - 1
    out = [("third", float(max(1, m // 3) * dt)), ("half", float(max(1, m // 2) * dt))]
    cand = [("whole-record", m, None), ("whole-minus-one-sample", m - 1, None), ("one-sample-longer", m + 1, None),
            ("two-samples-longer", m + 2, None), ("twice-the-record", 2 * m, None)]
    fs = round(1.0 / dt)
    if fs >= 1 and abs(fs * dt - 1.0) <= 1e-9:
        cand.insert(1, ("whole-record-as-quotient", m, float(m / fs)))
    if small:
        cand.append(("one-sample-interval", 1, None))
    for label, k, w in cand:
        if k >= 1:
            out.append((label, float(k * dt) if w is None else w))
    seen, uniq = set(), []
    for label, w in out:
        if w not in seen:
            seen.add(w)
            uniq.append((label, w))
    return uniq


class Holder:
    def __init__(self, rec):
        self.rec = rec


# ---------------------------------------------------------------------------
# snapshots and comparisons

def samples(rec):
    return tuple(np.array(getattr(rec, c).amplitude, copy=True) for c in COMPONENTS)


def norm_meta(x):
    """tuples -> lists, recursively (what the statement calls the same content)."""
    if isinstance(x, dict):
        return {k: norm_meta(v) for k, v in x.items()}
    if isinstance(x, (list, tuple)):
        return [norm_meta(v) for v in x]
    return x


def same_content(a, b):
    """Content equality: containers by structure, numbers by value, bool/None/str by type."""
    if isinstance(a, dict) or isinstance(b, dict):
        return (isinstance(a, dict) and isinstance(b, dict) and set(a) == set(b)
                and all(same_content(a[k], b[k]) for k in a))
    if isinstance(a, (list, tuple)) or isinstance(b, (list, tuple)):
        return (isinstance(a, (list, tuple)) and isinstance(b, (list, tuple)) and len(a) == len(b)
                and all(same_content(x, y) for x, y in zip(a, b)))
    if isinstance(a, bool) or isinstance(b, bool) or a is None or b is None \
            or isinstance(a, str) or isinstance(b, str):
        return type(a) is type(b) and a == b
    try:
        return float(a) == float(b) and a == b
    except (TypeError, ValueError):
        return False


def same_bits(a, b):
    """Bitwise-equal float64 arrays; a NaN restored as a NaN counts as restored."""
    a = np.asarray(a)
    b = np.asarray(b)
    if a.shape != b.shape or a.dtype != np.float64 or b.dtype != np.float64:
        return False
    if a.tobytes() == b.tobytes():
        return True
    ua, ub = a.view(np.uint64), b.view(np.uint64)
    diff = ua != ub
    return bool(np.all(np.isnan(a[diff]) & np.isnan(b[diff])))


def has_tuple(x):
    if isinstance(x, tuple):
        return True
    if isinstance(x, dict):
        return any(has_tuple(v) for v in x.values())
    if isinstance(x, list):
        return any(has_tuple(v) for v in x)
    return False


def private_copy(rec, deep_meta=True):
    """A copy made by the harness, never by hvsrpy's copy code.

    deep_meta=False copies the metadata dict one level deep only (enough for
    trim, which only assigns meta["trim"]; the invariant re-checks afterwards
    that the judged recording did not move).
    """
    if deep_meta:
        return copy.deepcopy(rec)
    new = copy.copy(rec)
    memo = {}                   # like deepcopy: components that are ONE object stay one object
    for c in COMPONENTS:
        old = getattr(rec, c)
        if id(old) not in memo:
            ts = copy.copy(old)
            ts.amplitude = np.array(ts.amplitude, copy=True)
            memo[id(old)] = ts
        setattr(new, c, memo[id(old)])
    new.meta = dict(rec.meta)
    return new


def sharing(rec):
    """Which pairs of stored components are one object / share sample storage."""
    out = []
    for i, a in enumerate(COMPONENTS):
        for b in COMPONENTS[i + 1:]:
            x, y = getattr(rec, a), getattr(rec, b)
            out.append((a, b, x is y, bool(np.shares_memory(x.amplitude, y.amplitude))))
    return tuple(out)


def _fl(v):
    return [float(x) for x in np.asarray(v).ravel()[:6]]


# ---------------------------------------------------------------------------

class System:
    def __init__(self, root, ctx=None, tmpdir=None):
        self.root = root
        self.prefix = tuple(root.get("prefix", ()))
        self.tmpdir = tmpdir
        self.nfile = 0
        self._outcomes = set()
        self.wide_depth = WIDE_DEPTH["quick"]           # run_root sets it for the thorough tier

    def _outcome(self, ctx, x):
        if x not in self._outcomes:
            self._outcomes.add(x)
            ctx.outcome(x)

    # ---- E1 interface -----------------------------------------------------
    def initial(self, root):
        h = Holder(make_recording(root))
        for op in self.prefix:
            self.apply(h, op)
        return h

    def menu(self, h):
        r = h.rec
        n, dt = r.ns.n_samples, r.ns.dt_in_seconds
        ops = []
        for label, a, b in intervals(n, dt):
            if label in MENU_INTERVALS:
                ops.append(dict(op="trim", cls=label, a=a, b=b))
        for lo, hi in FILTERS:
            ops.append(dict(op="filter", fcs=[lo, hi]))
        for ty in ("linear", "constant"):
            ops.append(dict(op="detrend", type=ty))
        for w in TUKEY_WIDTHS:
            ops.append(dict(op="window", width=w))
        for d in ORIENT_TO:
            ops.append(dict(op="orient", deg=d))
        ops.append(dict(op="split", w=self._split_length(n, dt)))
        return ops

    @staticmethod
    def _split_length(n, dt):
        return float(max(1, (n - 1) // 3) * dt)

    def apply(self, h, op):
        r = h.rec
        try:
            k = op["op"]
            if k == "trim":
                r.trim(op["a"], op["b"])
            elif k == "filter":
                r.butterworth_filter(tuple(op["fcs"]))
            elif k == "detrend":
                r.detrend(type=op["type"])
            elif k == "window":
                r.window(type="tukey", width=op["width"])
            elif k == "orient":
                r.orient_sensor_to(op["deg"])
            elif k == "split":
                h.rec = r.split(op["w"])[0]
            else:
                raise KeyError(k)
        except KeyError:
            raise
        except Exception as e:          # noqa: BLE001 - an outcome; the state stays a valid recording
            return ("raised", type(e).__name__)
        return None

    def canon(self, h):
        r = h.rec
        return (arr_digest(r.ns.amplitude, r.ew.amplitude, r.vt.amplitude),
                tuple(float(getattr(r, c).dt_in_seconds) for c in COMPONENTS),
                float(r.degrees_from_north),
                json.dumps(norm_meta(r.meta), sort_keys=True, default=repr),
                tuple(s[2:] for s in sharing(r)))

    def observe(self, h):
        # "touch": checkpoint the recording to disk between operations, the way a user saves
        # intermediate results (state computed lazily at save time must not go stale); states are
        # still merged on canon only
        try:
            h.rec.save(os.path.join(self.tmpdir, "touch.json"))
        except Exception:       # noqa: BLE001 - judged by the invariant's own save/load
            pass
        own_time_vectors(h.rec)
        return None

    # ---- invariant --------------------------------------------------------
    def invariant(self, h, hist, ctx, root):
        hist = list(self.prefix) + list(hist)
        rec = h.rec
        n = rec.ns.n_samples
        finite = all(np.all(np.isfinite(getattr(rec, c).amplitude)) for c in COMPONENTS)
        if not finite:
            ctx.count("states_nonfinite")
        if has_tuple(rec.meta):
            ctx.count("states_with_tuple_in_meta")
        before = self.canon(h)
        self._persist(rec, hist, ctx, root)
        self._copies(rec, hist, ctx, root)
        self._siblings(ctx, root, "state", hist, rec, write_on=private_copy(rec, deep_meta=False))
        self._trims(rec, hist, ctx, root)
        if self.canon(h) != before:
            ctx.violation("C18:harness:state-changed-by-judging", root, detail=dict(hist=hist),
                          explanation="save / a copy route / a trim on a private copy changed the "
                                      "recording being judged")
        ctx.count("validated")
        ctx.outcome(("state", n, sorted(rec.meta), float(rec.degrees_from_north) % 360))

    # (1) persistence --------------------------------------------------------
    def _persist(self, rec, hist, ctx, root):
        self.nfile += 1
        fname = os.path.join(self.tmpdir, f"r{self.nfile}.json")
        snap = samples(rec)
        dts = [getattr(rec, c).dt_in_seconds for c in COMPONENTS]
        deg = float(rec.degrees_from_north)
        meta = copy.deepcopy(rec.meta)
        detail = dict(hist=hist, n_samples=len(snap[0]), dt=dts[0], degrees_from_north=deg)
        ctx.count("transitions")
        ctx.count("save_load_roundtrips")
        try:
            rec.save(fname)
            back = SeismicRecording3C.load(fname)
        except Exception as e:          # noqa: BLE001
            ctx.violation("C18:save-load:raises", root, detail=detail,
                          observed=f"{type(e).__name__}: {e}",
                          explanation="save() / load() raised on a reachable recording")
            return
        finally:
            if os.path.exists(fname):
                os.remove(fname)
        for c, s in zip(COMPONENTS, snap):
            got = getattr(back, c).amplitude
            if not same_bits(got, s):
                bad = None
                if np.shape(got) == s.shape:
                    idx = np.flatnonzero(np.asarray(got, dtype=float) != s)
                    bad = [int(idx[0]), float(s[idx[0]]), float(np.asarray(got)[idx[0]])] if len(idx) else None
                ctx.violation("C18:save-load:samples", root, detail=dict(component=c, **detail),
                              expected=dict(n=len(s), first=_fl(s)),
                              observed=dict(n=int(np.size(got)), first=_fl(got),
                                            first_difference_index_expected_observed=bad),
                              explanation=f"samples of component {c} are not restored bit for bit "
                                          f"by save() -> load()")
        for c, d in zip(COMPONENTS, dts):
            got = getattr(back, c).dt_in_seconds
            if not (isinstance(got, float) and got == d):
                ctx.violation("C18:save-load:dt", root, detail=dict(component=c, **detail),
                              expected=d, observed=got,
                              explanation="time step not restored by save() -> load()")
        dd = (float(back.degrees_from_north) - deg) % 360.0
        if min(dd, 360.0 - dd) > 1e-9:
            ctx.violation("C18:save-load:orientation", root, detail=detail,
                          expected=deg % 360.0, observed=float(back.degrees_from_north),
                          explanation="orientation (modulo 360) not restored by save() -> load()")
        if not same_content(back.meta, meta):
            ctx.violation("C18:save-load:meta", root, detail=detail,
                          expected=norm_meta(meta), observed=norm_meta(back.meta),
                          explanation="metadata content not restored by save() -> load()")

    # (2) copies ---------------------------------------------------------------
    def _independent(self, ctx, root, route, hist, pairs, extra=None):
        """pairs: list of (label, source_array_getter, copy_array_getter).

        Getters are called again after every write so that a re-bound array is
        seen as well.
        """
        detail = dict(hist=hist, route=route, **(extra or {}))
        for label, gs, gc in pairs:
            if np.shares_memory(gs(), gc()):
                ctx.violation(f"C18:{route}:shares-memory", root, detail=dict(pair=label, **detail),
                              expected=False, observed=True,
                              explanation=f"{route}: the copy's samples share storage with the "
                                          f"source ({label})")
        ctx.count("copy_pairs_checked", len(pairs))
        # write to every copy array, the sources must not move
        src0 = [np.array(gs(), copy=True) for _, gs, _ in pairs]
        for _, _, gc in pairs:
            arr = gc()
            if arr.size:
                arr[...] = arr * 0.5 + 12345.678
        for (label, gs, _), s0 in zip(pairs, src0):
            if not bitwise_equal(gs(), s0):
                ctx.violation(f"C18:{route}:write-to-copy-visible-in-source", root,
                              detail=dict(pair=label, **detail),
                              expected=_fl(s0), observed=_fl(gs()),
                              explanation=f"{route}: editing the copy's samples altered the source ({label})")
        # write to every source array, the copies must not move
        cp0 = [np.array(gc(), copy=True) for _, _, gc in pairs]
        for _, gs, _ in pairs:
            arr = gs()
            if arr.size:
                arr[...] = -arr - 777.25
        for (label, _, gc), c0 in zip(pairs, cp0):
            if not bitwise_equal(gc(), c0):
                ctx.violation(f"C18:{route}:write-to-source-visible-in-copy", root,
                              detail=dict(pair=label, **detail),
                              expected=_fl(c0), observed=_fl(gc()),
                              explanation=f"{route}: editing the source's samples altered the copy ({label})")

    def _same_recording(self, ctx, root, route, hist, src_snap, src_deg, src_dt, cp):
        for c, s in zip(COMPONENTS, src_snap):
            if not same_bits(getattr(cp, c).amplitude, s):
                ctx.violation(f"C18:{route}:content", root, detail=dict(hist=hist, component=c),
                              expected=_fl(s), observed=_fl(getattr(cp, c).amplitude),
                              explanation=f"{route}: the copy's {c} samples differ from the source's")
            if getattr(cp, c).dt_in_seconds != src_dt:
                ctx.violation(f"C18:{route}:content-dt", root, detail=dict(hist=hist, component=c),
                              expected=src_dt, observed=getattr(cp, c).dt_in_seconds,
                              explanation=f"{route}: the copy's time step differs")
        dd = (float(cp.degrees_from_north) - src_deg) % 360.0
        if min(dd, 360.0 - dd) > 1e-9:
            ctx.violation(f"C18:{route}:content-orientation", root, detail=dict(hist=hist),
                          expected=src_deg % 360.0, observed=float(cp.degrees_from_north),
                          explanation=f"{route}: the copy's orientation differs (modulo 360)")

    @staticmethod
    def _all_pairs(src, cp, tag=""):
        pairs = []
        for cs in COMPONENTS:
            for cc in COMPONENTS:
                pairs.append((f"source.{cs} / {tag}copy.{cc}",
                              (lambda o=src, c=cs: getattr(o, c).amplitude),
                              (lambda o=cp, c=cc: getattr(o, c).amplitude)))
        return pairs

    def _copies(self, rec, hist, ctx, root):
        # -- SeismicRecording3C.from_seismic_recording_3c
        src = private_copy(rec, deep_meta=False)
        snap, deg, dt = samples(src), float(src.degrees_from_north), src.ns.dt_in_seconds
        ctx.count("transitions")
        ctx.count("copy_routes_exercised")
        try:
            cp = SeismicRecording3C.from_seismic_recording_3c(src)
        except Exception as e:          # noqa: BLE001
            ctx.violation("C18:from_seismic_recording_3c:raises", root, detail=dict(hist=hist),
                          observed=f"{type(e).__name__}: {e}", explanation="copy constructor raised")
        else:
            self._same_recording(ctx, root, "from_seismic_recording_3c", hist, snap, deg, dt, cp)
            self._independent(ctx, root, "from_seismic_recording_3c", hist, self._all_pairs(src, cp))
            if any(a is b for a in _containers(src.meta) for b in _containers(cp.meta)):
                ctx.count("info_meta_nested_aliased_by_copy_constructor")

        # -- TimeSeries.from_timeseries, each component
        src = private_copy(rec, deep_meta=False)
        for c in COMPONENTS:
            ts = getattr(src, c)
            s0 = np.array(ts.amplitude, copy=True)
            ctx.count("transitions")
            ctx.count("copy_routes_exercised")
            try:
                cp = TimeSeries.from_timeseries(ts)
            except Exception as e:      # noqa: BLE001
                ctx.violation("C18:from_timeseries:raises", root, detail=dict(hist=hist, component=c),
                              observed=f"{type(e).__name__}: {e}", explanation="copy constructor raised")
                continue
            if not same_bits(cp.amplitude, s0) or cp.dt_in_seconds != ts.dt_in_seconds:
                ctx.violation("C18:from_timeseries:content", root, detail=dict(hist=hist, component=c),
                              expected=_fl(s0), observed=_fl(cp.amplitude),
                              explanation="TimeSeries.from_timeseries: the copy differs from the source")
            self._independent(ctx, root, "from_timeseries", hist,
                              [(f"source {c} / copy", (lambda o=ts: o.amplitude), (lambda o=cp: o.amplitude))],
                              extra=dict(component=c))

        # -- components handed to the constructor: every pattern of which given series is handed over
        #    for which component (one series may be handed over for two or three of them)
        wide = len(hist) <= self.wide_depth
        for idx in (PATTERNS_ALL if wide else PATTERNS_QUICK):
            self._constructor_route(rec, hist, ctx, root, tuple(idx),
                                    CONSTRUCTED_TRIMS["wide" if wide else "narrow"])

        # -- split products: every window length of the boundary alphabet (see split_lengths)
        n, dt = rec.ns.n_samples, rec.ns.dt_in_seconds
        for label, w in split_lengths(n, dt, small=len(hist) <= SPLIT_SMALL_DEPTH):
            self._split_route(rec, hist, ctx, root, label, w)

    def _split_route(self, rec, hist, ctx, root, label, w):
        """Products of split(w) - however many there are - share no sample storage with the split object.

        Refusal is not judged (the statement does not say which lengths split must refuse); a refused
        split has no products and is recorded as an outcome only.
        """
        n = rec.ns.n_samples
        extra = dict(window_length=w, window_class=label, n_samples=n, dt=rec.ns.dt_in_seconds,
                     window_length_in_sample_intervals=w / rec.ns.dt_in_seconds)
        src = private_copy(rec, deep_meta=False)
        snap = samples(src)
        ctx.count("transitions")
        ctx.count(f"split_calls:{label}")
        try:
            prods = src.split(w)
        except Exception as e:      # noqa: BLE001 - no products, nothing to judge
            ctx.count("split_refused")
            ctx.count(f"split_refused:{label}")
            self._outcome(ctx, ("split", label, "raised", type(e).__name__))
            if not all(bitwise_equal(getattr(src, c).amplitude, s) for c, s in zip(COMPONENTS, snap)):
                ctx.count("info_refused_split_changed_source_samples")      # not part of the statement
        else:
            ctx.count("copy_routes_exercised")
            ctx.count("split_products_checked", len(prods))
            ctx.count(f"split_products_checked:{label}", len(prods))
            n0 = prods[0].ns.n_samples if prods else 0
            if len(prods) == 1 and n0 == n:
                ctx.count("split_single_product_spanning_the_record")
            ctx.outcome(("split", label, len(prods), n0 if n0 in (n, n - 1) else "shorter"))
            if not all(bitwise_equal(getattr(src, c).amplitude, s) for c, s in zip(COMPONENTS, snap)):
                ctx.count("info_split_changed_source_samples")      # not part of the statement
            pairs = []
            for k, p in enumerate(prods):
                pairs += self._all_pairs(src, p, tag=f"window[{k}] ")
            self._independent(ctx, root, "split", hist, pairs, extra=extra)
        # the component-level split used by it is a splitting route of its own
        for c in (COMPONENTS if label in SPLIT_BOUNDARY else ("vt",)):
            ts = copy.deepcopy(getattr(rec, c))
            ctx.count("transitions")
            try:
                tprods = ts.split(w)
            except Exception as e:      # noqa: BLE001
                ctx.count("split_refused")
                ctx.count(f"timeseries_split_refused:{label}")
                self._outcome(ctx, ("TimeSeries.split", label, "raised", type(e).__name__))
                continue
            ctx.count("copy_routes_exercised")
            ctx.count("split_products_checked", len(tprods))
            ctx.count(f"timeseries_split_products_checked:{label}", len(tprods))
            if len(tprods) == 1 and tprods[0].n_samples == n:
                ctx.count("timeseries_split_single_product_spanning_the_record")
            self._independent(ctx, root, "TimeSeries.split", hist,
                              [(f"source / window[{k}]", (lambda o=ts: o.amplitude), (lambda o=p: o.amplitude))
                               for k, p in enumerate(tprods)], extra=dict(component=c, **extra))

    def _constructor_route(self, rec, hist, ctx, root, idx, trims):
        route = "constructor" if len(set(idx)) == 3 else "constructor-one-series-for-several-components"
        extra = dict(given_as_ns_ew_vt=[COMPONENTS[i] for i in idx])

        def build():
            src = private_copy(rec, deep_meta=False)
            series = [src.ns, src.ew, src.vt]
            given = [series[i] for i in idx]
            ctx.count("transitions")
            return src, given, SeismicRecording3C(given[0], given[1], given[2],
                                                  degrees_from_north=src.degrees_from_north, meta=src.meta)
        ctx.count("copy_routes_exercised")
        ctx.count("constructor_patterns_exercised")
        if len(set(idx)) < 3:
            ctx.count("constructor_repeated_series_cases")
        try:
            src, given, cp = build()
        except Exception as e:          # noqa: BLE001
            ctx.violation(f"C18:{route}:raises", root, detail=dict(hist=hist, **extra),
                          observed=f"{type(e).__name__}: {e}", explanation="constructor raised")
            return
        snap = tuple(np.array(g.amplitude, copy=True) for g in given)
        self._same_recording(ctx, root, route, hist, snap, float(src.degrees_from_north),
                             src.ns.dt_in_seconds, cp)
        # stored components against each other, then against what was given
        self._siblings(ctx, root, route, hist, cp, extra=extra)
        pairs = []
        for i in sorted(set(idx)):
            for cc in COMPONENTS:
                pairs.append((f"given series {COMPONENTS[i]} / stored {cc}",
                              (lambda o=[src.ns, src.ew, src.vt][i]: o.amplitude),
                              (lambda o=cp, c=cc: getattr(o, c).amplitude)))
        self._independent(ctx, root, route, hist, pairs, extra=extra)
        # the recording so built is a recording: trim keeps nearest(a)..nearest(b) in every component
        n, dt = rec.ns.n_samples, rec.ns.dt_in_seconds
        for label, a, b in intervals(n, dt):
            if label not in trims:
                continue
            try:
                _, _, cp2 = build()
            except Exception:           # noqa: BLE001 - reported above
                return
            ctx.count("constructed_recording_trims")
            self._trim_one(ctx, root, hist, f"{route}:SeismicRecording3C.trim", label, a, b,
                           RT.expected(n, dt, a, b), cp2, COMPONENTS, extra=extra)

    def _siblings(self, ctx, root, route, hist, rec, write_on=None, extra=None):
        """The three stored components are three storages: none shares with, or moves with, another."""
        detail = dict(hist=hist, route=route, **(extra or {}))
        for a, b, same_obj, shared in sharing(rec):
            ctx.count("sibling_pairs_checked")
            if same_obj or shared:
                ctx.violation(f"C18:{route}:stored-components:shares-memory", root,
                              detail=dict(pair=f"stored {a} / stored {b}", one_object=same_obj, **detail),
                              expected=False, observed=True,
                              explanation=f"{route}: the stored components {a} and {b} share sample storage")
        obj = rec if write_on is None else write_on
        for c in COMPONENTS:
            others = [o for o in COMPONENTS if o != c]
            before = {o: np.array(getattr(obj, o).amplitude, copy=True) for o in others}
            arr = getattr(obj, c).amplitude
            if not arr.size:
                continue
            arr[...] = arr * 0.25 - 4321.5
            ctx.count("sibling_edits_checked")
            for o in others:
                if not bitwise_equal(getattr(obj, o).amplitude, before[o]):
                    ctx.violation(f"C18:{route}:stored-components:edit-of-one-visible-in-another", root,
                                  detail=dict(edited=c, moved=o, **detail),
                                  expected=_fl(before[o]), observed=_fl(getattr(obj, o).amplitude),
                                  explanation=f"{route}: editing the stored {c} samples altered the stored {o} samples")

    # (3) trim -----------------------------------------------------------------
    def _trims(self, rec, hist, ctx, root):
        n, dt = rec.ns.n_samples, rec.ns.dt_in_seconds
        for label, a, b in intervals(n, dt):
            exp = RT.expected(n, dt, a, b)
            self._trim_one(ctx, root, hist, "SeismicRecording3C.trim", label, a, b, exp,
                           private_copy(rec, deep_meta=False), COMPONENTS)
            ts = copy.copy(rec.ns)
            ts.amplitude = np.array(ts.amplitude, copy=True)
            self._trim_one(ctx, root, hist, "TimeSeries.trim", label, a, b, exp, ts, (None,))
            # non-vacuity: truncating instead of rounding would give other samples
            if exp["refuse"] is False and not exp["knife"]:
                fa = math.floor(RT.position(dt, a))
                fb = math.floor(RT.position(dt, b))
                if [fa] != exp["starts"] or [fb] != exp["ends"]:
                    ctx.count("wrong_variant_floor_differs")
                if exp["ends"][0] - 1 >= exp["starts"][0]:
                    ctx.count("wrong_variant_end_exclusive_differs")

    def _trim_one(self, ctx, root, hist, site, label, a, b, exp, obj, comps, extra=None):
        def arr(c):
            return obj.amplitude if c is None else getattr(obj, c).amplitude
        pre = {c: np.array(arr(c), copy=True) for c in comps}
        n = len(pre[comps[0]])
        dtv = (obj if comps[0] is None else obj.ns).dt_in_seconds
        detail = dict(hist=hist, call=f"{site}({a!r}, {b!r})", interval=label, n_samples=n, dt=dtv,
                      start_in_samples=a / dtv, end_in_samples=b / dtv, last_sample_index=n - 1,
                      **(extra or {}))
        ctx.count("transitions")
        ctx.count("trim_calls")
        raised = None
        try:
            obj.trim(a, b)
        except Exception as e:          # noqa: BLE001
            raised = e
        if exp["knife"]:
            ctx.count("knife_edge")
        if raised is not None:
            self._outcome(ctx, ("trim", site, label, "raised", type(raised).__name__))
            unchanged = all(bitwise_equal(arr(c), pre[c]) for c in comps)
            if exp["refuse"] is False:
                ctx.violation(f"C18:{site}:{label}:refuses-valid-range", root, detail=detail,
                              expected=dict(kept_first=exp["starts"], kept_last=exp["ends"]),
                              observed=f"{type(raised).__name__}: {raised}",
                              explanation="trim raised although 0 <= start < end <= last sample time")
                return
            ctx.count("trim_refusals_judged")
            if not isinstance(raised, IndexError):
                ctx.violation(f"C18:{site}:{label}:exception-type", root, detail=detail,
                              expected="IndexError", observed=f"{type(raised).__name__}: {raised}",
                              explanation="a range outside the record is refused with something other "
                                          "than IndexError")
            if not unchanged:
                ctx.violation(f"C18:{site}:{label}:refusal-changes-samples", root, detail=detail,
                              expected=n, observed=[len(arr(c)) for c in comps],
                              explanation="trim raised but the samples were changed")
            return
        if exp["refuse"] is True:
            ctx.violation(f"C18:{site}:{label}:not-refused", root, detail=dict(reason=exp["reason"], **detail),
                          expected="IndexError", observed=dict(n_kept=[len(arr(c)) for c in comps]),
                          explanation=f"trim accepted a range outside the record ({exp['reason']})")
            return
        ctx.count("trim_kept_judged")
        for c in comps:
            got = arr(c)
            ok = any(bitwise_equal(got, pre[c][i:j + 1]) for i in exp["starts"] for j in exp["ends"])
            if not ok:
                where = _locate(pre[c], got)
                ctx.violation(f"C18:{site}:{label}:kept-samples", root,
                              detail=dict(component=c, **detail),
                              expected=dict(first_index=exp["starts"], last_index=exp["ends"]),
                              observed=dict(n_kept=len(got), first_last_index=where),
                              explanation="trim did not keep exactly the samples nearest(start)..nearest(end)")
        got = arr(comps[0])
        self._outcome(ctx, ("trim", site, label, "kept", len(got), n))


def _locate(pre, got):
    """First/last index of ``got`` as a contiguous slice of ``pre`` (None if it is not one)."""
    k = len(got)
    for i in range(0, len(pre) - k + 1):
        if k and bitwise_equal(pre[i:i + k], got):
            return [i, i + k - 1]
    return None


def _containers(x):
    out = []
    if isinstance(x, dict):
        for v in x.values():
            if isinstance(v, (dict, list)):
                out.append(v)
            out += _containers(v)
    elif isinstance(x, (list, tuple)):
        for v in x:
            if isinstance(v, (dict, list)):
                out.append(v)
            out += _containers(v)
    return out


# ---------------------------------------------------------------------------
# runner interface

def _recordings(tier="thorough"):
    out = [dict(L=L, dt=dt, deg=deg) for L in LENGTHS for dt in DTS for deg in DEPLOYED]
    out += [dict(L=64, dt=0.01, deg=deg, deg_type=t) for deg, t in ((33, "np.int64"), (400, "np.int32"),
                                                                    (77.5, "np.float32"), (33, "np.float64"),
                                                                    (33, "array0d"))]
    # one TimeSeries object handed to the constructor for two or three components
    if tier == "quick":
        out += [dict(L=9, dt=1 / 75, deg=33, given=list(g)) for g in ((0, 0, 0), (0, 1, 1))]
    else:
        out += [dict(L=9, dt=1 / 75, deg=33, given=list(g)) for g in PATTERNS_QUICK[1:]]
        out += [dict(L=64, dt=0.01, deg=33, given=[0, 0, 0])]
    return out


# ---------------------------------------------------------------------------
# long records: trim where the sample times are many thousands of time steps (an hour at 100 Hz)

LONG = [dict(L=400001, dt=0.01), dict(L=270000, dt=1 / 75), dict(L=131072, dt=0.005)]


def long_root(root, ctx):
    L, dt = root["L"], root["dt"]
    base = ((np.arange(L) * 7919) % 1013) / 1013.0 - 0.5
    sysm = System(dict(root, prefix=[]))
    own = TimeSeries(np.array(base, copy=True), dt)
    own_time_vectors(SeismicRecording3C(own, TimeSeries(base + 1.0, dt), TimeSeries(base * 2.0, dt)))
    m = L - 1
    extra = [("long:mid-on-sample", float((m // 2) * dt), float((m // 2 + 1000) * dt)),
             ("long:mid-between", float((m // 2 + 0.3) * dt), float((m - 1000.7) * dt)),
             ("long:late-third", float((2 * m // 3 + 0.45) * dt), float((m - 0.55) * dt)),
             ("long:round-seconds", float(round(0.45 * m * dt)), float(round(0.75 * m * dt)))]
    for label, a, b in intervals(L, dt) + extra:
        exp = RT.expected(L, dt, a, b)
        ctx.count("states")
        ctx.count("long_trim_cases")
        sysm._trim_one(ctx, root, [], "TimeSeries.trim", label, a, b, exp, TimeSeries(np.array(base, copy=True), dt),
                       (None,))
        if label in ("on-sample", "between", "long:mid-between", "long:round-seconds", "end-just-beyond"):
            rec = SeismicRecording3C(TimeSeries(np.array(base, copy=True), dt), TimeSeries(base + 1.0, dt),
                                     TimeSeries(base * 2.0, dt))
            sysm._trim_one(ctx, root, [], "SeismicRecording3C.trim", label, a, b, exp, rec, COMPONENTS)
    ctx.count("validated")
    ctx.nontrivial_case(("long", L, dt))


# ---------------------------------------------------------------------------
# family "pair": two different objects trimmed one directly after the other with identical arguments

PAIR_LENGTHS = {"quick": (9, 64, 65), "thorough": (9, 64, 65, 201)}
PAIR_DTS = {"quick": (0.01, 0.02, 1 / 75, 0.005), "thorough": (0.01, 0.02, 1 / 75, 0.005)}
PAIR_KINDS = ("TimeSeries", "SeismicRecording3C")


def _pair_object(kind, L, dt, which):
    """Distinct sample values everywhere (1013 is prime), other values for the second object."""
    base = ((np.arange(L) * 7919) % 1013) / 1013.0 - 0.5
    if which:
        base = 3.0 - 2.0 * base
    if kind == "TimeSeries":
        return TimeSeries(np.array(base, copy=True), dt), (None,)
    return SeismicRecording3C(TimeSeries(np.array(base, copy=True), dt), TimeSeries(base + 10.0, dt),
                              TimeSeries(base * 4.0, dt)), COMPONENTS


def pair_root(root, ctx, tier):
    LA, dtA = root["L"], root["dt"]
    sysm = System(dict(root, prefix=[]))
    for LB in PAIR_LENGTHS[tier]:
        for dtB in PAIR_DTS[tier]:
            ownA = {(a, b): label for label, a, b in intervals(LA, dtA)}
            ownB = {(a, b): label for label, a, b in intervals(LB, dtB)}
            menu = {**ownA, **ownB}         # every interval of either record, in absolute seconds
            for kA in PAIR_KINDS:
                for kB in PAIR_KINDS:
                    for (a, b) in menu:
                        # the interval class as seen from the object that is trimmed
                        labelA = ownA.get((a, b), "interval-of-the-other-record")
                        labelB = ownB.get((a, b), "interval-of-the-other-record")
                        first, compsA = _pair_object(kA, LA, dtA, 0)
                        second, compsB = _pair_object(kB, LB, dtB, 1)
                        ctx.count("states")
                        ctx.count("pair_cases")
                        if LA == LB and dtA != dtB:
                            ctx.count("pair_cases_same_length_other_time_step")
                        expA = RT.expected(LA, dtA, a, b)
                        expB = RT.expected(LB, dtB, a, b)
                        if LA == LB and (expA["refuse"], expA["starts"], expA["ends"]) != \
                                (expB["refuse"], expB["starts"], expB["ends"]):
                            ctx.count("pair_cases_same_length_other_expectation")
                        sysm._trim_one(ctx, root, [], f"{kA}.trim", labelA, a, b, expA, first, compsA)
                        sysm._trim_one(ctx, root, [], f"after-same-trim-of-another-object:{kB}.trim", labelB, a, b,
                                       expB, second, compsB,
                                       extra=dict(directly_before=f"{kA}.trim({a!r}, {b!r}) on another object of "
                                                                  f"{LA} samples at dt={dtA!r}",
                                                  this_object=f"{kB} of {LB} samples at dt={dtB!r}",
                                                  interval_seen_from_the_other_object=labelA))
                        ctx.count("validated")
    ctx.nontrivial_case(("pair", LA, dtA))


def roots(tier, seed):
    out = []
    out += [dict(kind="pair", L=L, dt=dt) for L in PAIR_LENGTHS[tier] for dt in PAIR_DTS[tier]]
    out += [dict(kind="long", **r) for r in (LONG[:2] if tier == "quick" else LONG)]
    if tier == "quick":
        for r in _recordings("quick"):
            out.append(dict(depth=2, prefix=[], **r))
        return out
    # thorough: depth 3 = every first operation as its own root (load balance),
    # each explored two operations further; plus the depth-1 neighbourhood itself.
    for r in _recordings():
        out.append(dict(depth=1, prefix=[], **r))
        s = System(dict(prefix=[], **r))
        for op in s.menu(s.initial(r)):
            out.append(dict(depth=2, prefix=[op], **r))
    return out


def run_root(root, ctx, tier):
    if root.get("kind") == "long":
        long_root(root, ctx)
        return
    if root.get("kind") == "pair":
        pair_root(root, ctx, tier)
        return
    tmp = tempfile.mkdtemp(prefix="hvmc-c18-")
    try:
        sysm = System(root, tmpdir=tmp)
        if tier == "thorough":
            sysm.wide_depth = WIDE_DEPTH["thorough"]
        seen = explorer.bfs(sysm, root, root["depth"], ctx, key_prefix="C18",
                            check_determinism=(tier == "thorough"), touch=True)
        ctx.nontrivial_case((root["L"], root["dt"], root["deg"], root.get("deg_type"),
                             tuple(root.get("given", ())), root.get("prefix", [])))
        ctx.notes["max_history_length"] = max(ctx.notes.get("max_history_length", 0),
                                              len(root.get("prefix", [])) + root["depth"])
        if len(ctx.samples) < 2:
            h = sysm.initial(root)
            n, dt = h.rec.ns.n_samples, h.rec.ns.dt_in_seconds
            ctx.sample(dict(root=root, states=len(seen), menu=sysm.menu(h),
                            trim_reference_in_first_state=[
                                dict(interval=lab, a=a, b=b, **RT.expected(n, dt, a, b))
                                for lab, a, b in intervals(n, dt)]))
    finally:
        shutil.rmtree(tmp, ignore_errors=True)


def finalize(ctx, tier):
    c = ctx.counters
    need = ["save_load_roundtrips", "copy_pairs_checked", "split_products_checked",
            "trim_kept_judged", "trim_refusals_judged", "knife_edge",
            "states_with_tuple_in_meta", "wrong_variant_floor_differs",
            "wrong_variant_end_exclusive_differs",
            "constructor_repeated_series_cases", "constructed_recording_trims", "sibling_pairs_checked",
            "sibling_edits_checked", "pair_cases_same_length_other_time_step",
            "pair_cases_same_length_other_expectation",
            "split_single_product_spanning_the_record", "timeseries_split_single_product_spanning_the_record",
            "split_products_checked:whole-record", "timeseries_split_products_checked:whole-record",
            "split_products_checked:whole-minus-one-sample",
            "timeseries_split_products_checked:whole-minus-one-sample",
            "split_refused:two-samples-longer", "timeseries_split_refused:two-samples-longer",
            "split_refused:twice-the-record", "split_products_checked:one-sample-interval"]
    for k in need:
        if not c.get(k, 0):
            ctx.violation(f"C18:vacuous:{k}", None, explanation=f"counter {k} is zero - the oracle "
                                                                f"was never exercised")


def describe(tier):
    return dict(
        rule="roots: SeismicRecording3C with L in {9,64,201} samples x dt in {0.01, 1/75} x deployed "
             "orientation in {0,33,400}, three different component signals, nested meta (lists, tuples, "
             "dicts, strings, numbers); BFS over all histories of {8 trim intervals relative to the "
             "current record (on-sample, between, half-way, whole, single sample, two refused), 3 "
             "Butterworth filters, 2 detrends, 3 Tukey widths, 3 re-orientations, split -> window 0}, "
             "states deduplicated on (sample bytes, dt, orientation, JSON-normalised meta); in every state: "
             "save->load, 4 copy routes (copy constructor, TimeSeries copy constructor x3, constructor, "
             "split with the window-length alphabet below) with shares_memory and writes on both sides, and 13 trim "
             "intervals on SeismicRecording3C and TimeSeries against exact integer arithmetic; a case "
             "is non-trivial/distinct by (L, dt, orientation, first operation); five more roots give the deployed orientation as np.int64/np.int32/np.float32/np.float64/0-d array; the time vectors returned by time() are shifted in place by the harness between operations; family long: 13 + 4 trim intervals on TimeSeries (5 of them also on SeismicRecording3C) of 400001 samples at 0.01 s, 270000 at 1/75 s (and 131072 at 0.005 s, thorough); constructor route: in every state the three series are handed to the constructor in the five partition patterns (a,b,c), (a,a,c), (a,b,a), (a,b,b), (a,a,a) - one TimeSeries object for two or three components - and, in states reached by at most 0 (quick) / 1 (thorough) operations, in all 27 index triples; judged: stored samples equal the given ones, no stored component shares storage with a given series or with another stored component, an edit of one stored component leaves the other two alone, and trim of the recording so built (1 interval; 3 in shallow states) keeps nearest(a)..nearest(b) in every component; the same sibling oracle holds in every reachable state; further roots are recordings built from one series for several components (2 patterns at L=9 quick; 4 at L=9 and (a,a,a) at L=64 thorough), and the harness' private copies keep components that are one object one object; family pair: for every ordered pair of configurations (L, dt) from L in {9,64,65} (thorough also 201) x dt in {0.01, 0.02, 1/75, 0.005}, every pair of kinds (TimeSeries, SeismicRecording3C) and every one of the 13 intervals of either record (absolute seconds), a fresh first object is trimmed and directly afterwards a fresh second object with other samples is trimmed with the identical arguments; both are judged against the exact reference for their own (L, dt) (same length / other time step, same time step / other length, refused first / accepted second and vice versa are all inside)",
        bounds=dict(split_window_lengths="in every state, on SeismicRecording3C.split and TimeSeries.split (all three "
                             "components for the boundary sizes, vt otherwise), with m = n_samples - 1: m//3 and m//2 "
                             "intervals (several windows), m (ONE window spanning the record; as m*dt and as m/fs), "
                             "m - 1 (one window, one sample short), m + 1, m + 2 and 2m (longer than the record: "
                             "refused or not, products judged if any), and 1 interval (m two-sample windows) in states "
                             "reached by at most 1 operation; every product against every component of the split "
                             "object: shares_memory and writes on both sides",
                    depth="2 quick; 3 thorough (every first operation is a root explored 2 further)",
                    menu=20, trim_intervals_judged_per_state=13,
                    constructor_patterns_per_state="5; 27 in states within 0 (quick) / 1 (thorough) operations",
                    pair_family="ordered pairs of 12 (quick) / 16 (thorough) configurations x 4 kind pairs x "
                                "<= 26 intervals; sequences of exactly two trims on two objects"),
        exhaustive=True,
        assumptions=["thorough only: every history is replayed a second time and must reach the same state",
                     "metadata keys are strings and values are finite JSON numbers, strings, booleans, None, "
                     "lists, tuples, dicts (JSON cannot keep other keys)",
                     "independence is required of sample storage only (the statement does not speak of "
                     "metadata); nested-metadata aliasing is counted, not judged",
                     "a trim time within 1e-9 of a sample interval of the half-way point, or an end time "
                     "within 1e-9 relative of the last sample time, is knife-edge: either neighbour / either "
                     "decision is accepted",
                     "sample time i is i*dt with dt the stored float (exact dyadic arithmetic)",
                     "a NaN sample restored as a NaN with another payload counts as restored",
                     "stored components sharing storage with EACH OTHER is judged as a breach: the statement "
                     "names source and copy only, but per-component trim (keeps nearest(a)..nearest(b) in every "
                     "component) cannot hold when two stored components are one storage; the trim oracle on the "
                     "constructed recording judges the same thing through the statement's own clause",
                     "split: which window lengths are refused is not judged (the statement only speaks of the "
                     "products); a length that is accepted is judged through its products, whatever their number; "
                     "products are compared with the split object only, not with each other",
                     "carried state between objects is searched with sequences of two trims only (first object, "
                     "then second object, identical arguments); longer interleavings across objects are not "
                     "enumerated"])
