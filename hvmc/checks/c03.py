"""C03 - one curve per window, in input order, independent of the other windows.

E2 (joint part): a pool of distinguishable three-component recordings per time step
(dt in {0.01, 0.02, 0.05, 1/100.4}); EVERY list of length 1..4 over the pool (all arrangements of
time steps, all permutations, all sub-lists, repeated recordings) x the three
dissimilar-time-step policies x {geometric mean, single azimuth, RotDpp, azimuthal} is run
through the real hvsrpy.process() with a fixed FFT length and compared with

* the reference policy model (hvmc.ref.dtpolicy): which recordings are retained, in which
  order, and whether the centre frequencies must be refused (Nyquist of a PROCESSED
  recording);
* process([record_i]) of every retained recording alone (fresh recording, fresh settings,
  same FFT length): row i must be bit-identical (same code path);
* frequency vector == requested centres exactly (in the order of the request - the Nyquist block
  also asks for descending and unsorted centre vectors, including vectors whose LARGEST centre is
  only slightly above a Nyquist frequency and is not the last element), amplitudes finite and >= 0;
* the curve of a recording for a permuted centre vector == the correspondingly permuted curve for
  the ascending vector (the value at a centre does not depend on where the centre stands).

The 'scale' block mixes copies of pool recordings multiplied by 1e9 and 1e-9 (raw counts next to
metres; H/V is unit invariant) in one list, same time step and different time steps: every row
must still be bit-identical to the curve of that same scaled recording processed alone.

Families: 'nopad' (equal-length records, fft_settings={"n": None}), 'default'
(fft_settings=None -> 32768, records of different lengths).

E1 part (histories of depth 2): process(X, s); process(Y, s) with ONE settings object s whose
fft_settings carry an explicit n (so the FFT length cannot change between the calls): the
result for Y must be bit-identical to the result with a fresh settings object.

Degenerate part: recordings whose ratio is undefined/negative (empty smoothing window, dead
vertical, all-zero, negative Savitzky-Golay output): process() must either refuse or return
finite non-negative amplitudes.

Recordings are always built fresh per call (process() tapers its inputs in place for the
frequency-domain methods today - C09's defect, not this property's).  A list that contains
a recording twice is built from two equal-valued fresh objects; the variant with the very
same object twice is judged only if process() left its inputs unchanged.
"""
import contextlib
import io
import itertools
import warnings

import numpy as np

import hvsrpy
from hvsrpy import TimeSeries, SeismicRecording3C

from hvmc import alphabets as A
from hvmc.engine.core import bitwise_equal, arr_digest, digest
from hvmc.ref import dtpolicy as RP

PROPERTY = "C03"

# the fourth time step is a sampling rate of 100.4 Hz: it rounds to the same whole rate as 0.01 s, gives the same
# sample counts and FFT lengths, and a frequency axis that is 0.4 % off
# the fifth is 5 ppm below 0.01 s: a tolerance-based comparison of time steps (np.isclose) would merge the two
DTS = [0.01, 0.02, 0.05, 1 / 100.4, 0.00999995]
MEMBERS = 4                          # pool index p = BASE_POOL * (index of scale) + 4 * (index of dt) + member
BASE_POOL = len(DTS) * MEMBERS       # 20
SCALES = [1.0, 1e9, 1e-9]            # amplitude factor of pool member p: SCALES[p // BASE_POOL]
L_NOPAD = 64
L_VARIED = [64, 48, 33, 57]          # length of pool member p in the padded families: [(d + m) % 4]
POLICIES = list(RP.POLICIES)

KINDS = {
    "geometric_mean": dict(cls="traditional", method="geometric_mean"),
    "single_azimuth": dict(cls="single", azimuth=30),
    "rotdpp": dict(cls="rotdpp", azimuths=[0, 45, 90, 135], percentile=50),
    "azimuthal": dict(cls="azimuthal", azimuths=[30, 120]),
}

# family -> (fft_settings factory, record lengths, smoothing)
FAMILIES = {
    "nopad": dict(fft=lambda: {"n": None}, varied=False, smoothing=("konno_and_ohmachi", 10.0)),
    "nopad_parzen": dict(fft=lambda: {"n": None}, varied=False, smoothing=("parzen", 1.5)),
    "nopad_rectangular": dict(fft=lambda: {"n": None}, varied=False, smoothing=("linear_rectangular", 4.0)),
    "default": dict(fft=lambda: None, varied=True, smoothing=("konno_and_ohmachi", 40.0)),
    "n128": dict(fft=lambda: {"n": 128}, varied=True, smoothing=("konno_and_ohmachi", 40.0)),
}

# Nyquist frequencies: dt 0.05 -> 10 Hz, 0.02 -> 25 Hz, 0.01 -> 50 Hz (none of the sets is near one)
FCS = {
    "low": [2.0, 3.3, 5.0, 7.1, 9.5],         # below every Nyquist
    "mid": [2.0, 5.0, 12.0, 20.0],            # above the Nyquist of dt=0.05 only
    "high": [2.0, 12.0, 30.0, 45.0],          # above the Nyquist of dt=0.05 and 0.02
    "over": [2.0, 30.0, 60.0],                # above every Nyquist
    # ascending sets whose largest centre is above a Nyquist frequency by a factor < 2, i.e. within the
    # Konno-Ohmachi b=10 window (10**(3/10) = 2.0) of the 64-point grids: without a guard a FINITE value
    # would be reported there (further away the window is empty and the NaN is refused anyway)
    "mid_near": [2.0, 5.0, 12.0],             # above the Nyquist of dt=0.05 only
    "high_near": [2.0, 12.0, 30.0],           # above the Nyquist of dt=0.05 and 0.02
    "over_near": [2.0, 30.0, 60.0],           # above every Nyquist
    # the same centres descending / unsorted (the largest centre is never the last one)
    "low_desc": [9.5, 7.1, 5.0, 3.3, 2.0],
    "low_mix": [5.0, 9.5, 2.0, 7.1, 3.3],
    "mid_desc": [12.0, 5.0, 2.0],
    "mid_mix": [5.0, 12.0, 2.0],
    "high_desc": [30.0, 12.0, 2.0],
    "high_mix": [12.0, 30.0, 2.0],
    "over_desc": [60.0, 30.0, 2.0],
}
# permuted set -> ascending set with the same centres
PERMUTATION_OF = {"low_desc": "low", "low_mix": "low", "mid_desc": "mid_near", "mid_mix": "mid_near",
                  "high_desc": "high_near", "high_mix": "high_near", "over_desc": "over_near"}
ORDER_RTOL = 1e-9


# ---------------------------------------------------------------------------
# recordings

_PRISTINE = {}


def pool_dt(p):
    return DTS[(p % BASE_POOL) // MEMBERS]


def pool_scale(p):
    return SCALES[p // BASE_POOL]


def pool_len(p, varied):
    b = p % BASE_POOL
    return L_VARIED[(b // MEMBERS + b % MEMBERS) % 4] if varied else L_NOPAD


def pristine(p, varied):
    """(ns, ew, vt) of pool member p: broadband, pairwise different, never modified.
    p >= BASE_POOL: the arrays of member p % BASE_POOL multiplied by SCALES[p // BASE_POOL]."""
    key = (p, varied)
    if key not in _PRISTINE and p >= BASE_POOL:
        c = pool_scale(p)
        _PRISTINE[key] = tuple(c * x for x in pristine(p % BASE_POOL, varied))
    if key not in _PRISTINE:
        L = pool_len(p, varied)
        ns = A.sig_array(f"noise{3 * p + 1}", L)
        ew = A.sig_array(f"noise{3 * p + 2}", L)
        vt = A.sig_array(f"noise{3 * p + 3}", L)
        m = p % MEMBERS
        if m == 1:
            ns = ns + A.sig_array("ramp", L)
        elif m == 2:
            ew = A.sig_array("offgrid_sine", L) + 0.1 * ew
        elif m == 3:
            vt = A.sig_array("ramp", L) + 0.2 * vt
        _PRISTINE[key] = (ns, ew, vt)
    return _PRISTINE[key]


def _rec(ns, ew, vt, dt):
    return SeismicRecording3C(TimeSeries(np.array(ns, dtype=float), dt), TimeSeries(np.array(ew, dtype=float), dt),
                              TimeSeries(np.array(vt, dtype=float), dt))


def build_list(ids, varied, alias=False):
    """Fresh recordings for the pool indices; alias=True re-uses ONE object for equal indices."""
    made, recs = {}, []
    for p in ids:
        if alias and p in made:
            recs.append(made[p])
            continue
        r = _rec(*pristine(p, varied), pool_dt(p))
        made[p] = r
        recs.append(r)
    return recs


def inputs_unchanged(recs, ids, varied):
    for r, p in zip(recs, ids):
        ns, ew, vt = pristine(p, varied)
        if not (np.array_equal(r.ns.amplitude, ns) and np.array_equal(r.ew.amplitude, ew)
                and np.array_equal(r.vt.amplitude, vt)):
            return False
    return True


def make_settings(kind, policy, fcs, fft, smoothing=("konno_and_ohmachi", 10.0), tukey=0.1):
    k = KINDS[kind]
    kw = dict(window_type_and_width=["tukey", tukey],
              smoothing=dict(operator=smoothing[0], bandwidth=smoothing[1], center_frequencies_in_hz=list(fcs)),
              fft_settings=fft, handle_dissimilar_time_steps_by=policy)
    if k["cls"] == "traditional":
        return hvsrpy.HvsrTraditionalProcessingSettings(method_to_combine_horizontals=k["method"], **kw)
    if k["cls"] == "single":
        return hvsrpy.HvsrTraditionalSingleAzimuthProcessingSettings(azimuth_in_degrees=k["azimuth"], **kw)
    if k["cls"] == "rotdpp":
        return hvsrpy.HvsrTraditionalRotDppProcessingSettings(
            azimuths_in_degrees=list(k["azimuths"]), ppth_percentile_for_rotdpp_computation=k["percentile"], **kw)
    if k["cls"] == "azimuthal":
        return hvsrpy.HvsrAzimuthalProcessingSettings(azimuths_in_degrees=list(k["azimuths"]), **kw)
    raise KeyError(kind)


def family_settings(family, kind, policy, fcsname):
    f = FAMILIES[family]
    return make_settings(kind, policy, FCS[fcsname], f["fft"](), f["smoothing"])


def run_process(recs, settings):
    """-> dict(status='ok', blocks=[2-D array per azimuth (one block if not azimuthal)], freqs=[...],
    azimuths=list|None, n=FFT length after the call)  or  dict(status='raised', type=..., msg=...)."""
    try:
        with warnings.catch_warnings(), contextlib.redirect_stdout(io.StringIO()):
            warnings.simplefilter("ignore")
            with np.errstate(all="ignore"):
                h = hvsrpy.process(recs, settings)
    except Exception as e:      # noqa: BLE001
        return dict(status="raised", type=type(e).__name__, msg=str(e)[:300])
    n = None if settings.fft_settings is None else settings.fft_settings.get("n")
    if isinstance(h, hvsrpy.HvsrAzimuthal):
        return dict(status="ok", blocks=[np.array(t.amplitude, dtype=float, ndmin=2) for t in h.hvsrs],
                    freqs=[np.array(t.frequency, dtype=float) for t in h.hvsrs],
                    azimuths=[float(a) for a in h.azimuths], n=n)
    return dict(status="ok", blocks=[np.array(h.amplitude, dtype=float, ndmin=2)],
                freqs=[np.array(h.frequency, dtype=float)], azimuths=None, n=n)


def n_blocks(kind):
    return len(KINDS[kind]["azimuths"]) if kind == "azimuthal" else 1


def _obs(res):
    if res["status"] == "raised":
        return dict(raised=res["type"], message=res["msg"])
    return dict(rows_per_block=[b.tolist() for b in res["blocks"]], fft_n=res["n"])


# ---------------------------------------------------------------------------
# process([record]) alone, cached per worker process

_ALONE = {}
_SERVER = None      # engine/pristine.py server, started in warm()


def _alone_in_pristine_process(req):
    family, kind, policy, fcsname, p = req
    s = family_settings(family, kind, policy, fcsname)
    return run_process(build_list([p], FAMILIES[family]["varied"]), s)


def alone(ctx, family, kind, policy, fcsname, p):
    """process([record]) alone - computed in a process WITHOUT history when the pristine server is
    up, so that process-global state (a memo keyed too coarsely ...) cannot make the joint run and
    its reference wrong in the same way."""
    key = (family, kind, policy, fcsname, p)
    if key not in _ALONE:
        if _SERVER is not None:
            _ALONE[key] = _SERVER.request(key)
            ctx.count("alone_executions_in_pristine_process")
        else:
            s = family_settings(family, kind, policy, fcsname)
            _ALONE[key] = run_process(build_list([p], FAMILIES[family]["varied"]), s)
        ctx.count("transitions")
        ctx.count("alone_executions")
    return _ALONE[key]


# ---------------------------------------------------------------------------
# the oracle for one joint result

def dt_class(dts):
    return "uniform-dt" if len(set(dts)) == 1 else "mixed-dt"


def _key(kind, policy, dts, oracle, variant=""):
    return f"C03:process:{kind}:{policy}:{dt_class(dts)}:{oracle}{variant}"


def judge(ctx, root, family, kind, policy, fcsname, ids, res, variant=""):
    """Compare one joint result with the policy model and the alone-results.  True if judged ok."""
    fcs = FCS[fcsname]
    dts = [pool_dt(p) for p in ids]
    detail = dict(family=family, kind=kind, kind_parameters=KINDS[kind], policy=policy, centre_frequencies=fcs,
                  pool_indices=list(ids), time_steps=dts, amplitude_scales=[pool_scale(p) for p in ids],
                  variant=variant or "fresh-objects",
                  lengths=[pool_len(p, FAMILIES[family]["varied"]) for p in ids],
                  fft_settings=repr(FAMILIES[family]["fft"]()), smoothing=list(FAMILIES[family]["smoothing"]),
                  how="recordings = hvmc.checks.c03.build_list(pool_indices, varied=%r) (member p %% BASE_POOL (20) of the "
                      "pool times amplitude scale SCALES[p // BASE_POOL]); settings = "
                      "family_settings(family, kind, policy, fcs name)" % FAMILIES[family]["varied"])
    cands = RP.retained_candidates(dts, policy)
    decisions = [RP.nyquist_decision([dts[i] for i in c], fcs) for c in cands]
    if len(cands) > 1:
        ctx.count("majority_tie_cases")
    if any(len(c) < len(ids) for c in cands):
        ctx.count("dropped_recordings_cases")

    # ---- refusal -----------------------------------------------------------
    if res["status"] == "raised":
        if res["type"] == "ValueError" and any(d in ("refuse", "knife") for d in decisions):
            ctx.count("nyquist_refused")
            if any(d == "refuse" and RP.nyquist_decision([dts[i] for i in c], fcs[-1:]) == "accept"
                   for c, d in zip(cands, decisions)):
                ctx.count("nyquist_refused_although_last_centre_is_below")   # the largest centre is not the last
            ctx.outcome(("refused", policy, tuple(dts), fcsname))
            return True
        nyq = res["type"] == "ValueError" and "Nyquist" in res["msg"]
        oracle = "refuses-centres-below-nyquist-of-every-processed-recording" if nyq else "raises:" + res["type"]
        ctx.violation(_key(kind, policy, dts, oracle, variant), root, detail=detail,
                      expected=dict(retained_candidates=[list(c) for c in cands], nyquist=decisions),
                      observed=_obs(res),
                      explanation="process() raised although every centre frequency is below the Nyquist frequency "
                                  "of every recording the policy retains" if nyq else
                                  "process() raised where one curve per retained recording is expected")
        return False

    # ---- shape, frequency, finiteness ----------------------------------------
    ok = True
    if len(res["blocks"]) != n_blocks(kind) or (kind == "azimuthal" and
                                                 res["azimuths"] != [float(a) for a in KINDS[kind]["azimuths"]]):
        ctx.violation(_key(kind, policy, dts, "azimuth-blocks", variant), root, detail=detail,
                      expected=KINDS[kind].get("azimuths"), observed=res["azimuths"],
                      explanation="result does not hold one curve set per requested azimuth")
        return False
    want_f = np.array(fcs, dtype=float)
    for f in res["freqs"]:
        if not bitwise_equal(f, want_f):
            ctx.violation(_key(kind, policy, dts, "frequency-vector", variant), root, detail=detail, expected=fcs,
                          observed=f.tolist(), explanation="returned frequencies are not exactly the requested centres")
            ok = False
            break
    for b in res["blocks"]:
        if b.ndim != 2 or b.shape[1] != len(fcs):
            ctx.violation(_key(kind, policy, dts, "row-length", variant), root, detail=detail, expected=len(fcs),
                          observed=list(b.shape), explanation="a curve does not have one amplitude per centre")
            return False
        if not (np.all(np.isfinite(b)) and np.all(b >= 0)):
            ctx.violation(_key(kind, policy, dts, "amplitude-not-finite-nonnegative", variant), root, detail=detail,
                          expected="finite, >= 0", observed=b.tolist(),
                          explanation="returned amplitudes are not finite and non-negative")
            ok = False
            break

    # ---- Nyquist -------------------------------------------------------------
    if all(d == "refuse" for d in decisions):
        ctx.violation(_key(kind, policy, dts, "centres-above-nyquist-of-processed-recording-not-refused", variant),
                      root, detail=detail, expected="ValueError", observed=_obs(res),
                      explanation="a centre frequency lies above the Nyquist frequency of a recording that is "
                                  "processed, and process() returned curves instead of raising")
        return False
    if any(d == "knife" for d in decisions):
        ctx.count("knife_edge")

    # ---- rows == alone rows of exactly the retained recordings, in order --------
    nrows = [b.shape[0] for b in res["blocks"]]
    matched = None
    admissible = []
    for c, d in zip(cands, decisions):
        if d == "refuse":
            continue
        al = [alone(ctx, family, kind, policy, fcsname, ids[i]) for i in c]
        bad = [a for a in al if a["status"] != "ok" or len(a["blocks"]) != n_blocks(kind)
               or any(b.shape[0] != 1 for b in a["blocks"])]
        if bad:
            ctx.violation(_key(kind, policy, [dts[c[0]]], "alone:" + (
                "raises:" + bad[0]["type"] if bad[0]["status"] != "ok" else "row-count"), variant), root,
                          detail=dict(detail, alone_pool_index=[ids[i] for i in c]), expected="one curve",
                          observed=_obs(bad[0]),
                          explanation="process([record]) of a single healthy recording does not give one curve")
            return False
        if any(a["n"] != res["n"] for a in al):
            ctx.count("skipped_fft_length_differs")     # premise 'fixed FFT length' not met: nothing to compare
            return ok
        exp = [np.vstack([a["blocks"][k] for a in al]) for k in range(n_blocks(kind))]
        admissible.append((c, exp))
        if all(bitwise_equal(b, e) for b, e in zip(res["blocks"], exp)):
            matched = c
            break
    if matched is not None:
        if ok and fcsname in PERMUTATION_OF:
            ok = all([_centre_order(ctx, root, detail, family, kind, policy, fcsname, ids[i], variant)
                      for i in dict.fromkeys(matched)])
        if ok:
            _stats(ctx, policy, dts, ids, matched, fcs, fcsname)
        return ok

    # ---- classify the mismatch --------------------------------------------------
    c, exp = admissible[0]
    expected = dict(retained_pool_positions=[list(cc) for cc, _ in admissible],
                    rows_per_block=[e.tolist() for e in exp])
    if all(any(n != len(cc) for n in nrows) for cc, _ in admissible):
        oracle = "row-count"
        text = "number of curves differs from the number of retained recordings"
    else:
        def rowset(blocks):
            return sorted(arr_digest(*[b[i] for b in blocks]) for i in range(blocks[0].shape[0]))
        every = {}
        for i, p in enumerate(ids):
            a = alone(ctx, family, kind, policy, fcsname, p)
            if a["status"] == "ok":
                every[arr_digest(*[b[0] for b in a["blocks"]])] = i
        got = rowset(res["blocks"])
        if any(got == rowset(e) for _, e in admissible):
            oracle = "row-order"
            text = "the curves are those of the retained recordings but not in the order the recordings were given"
        elif all(g in every for g in got):
            oracle = "retained-set"
            text = "the curves belong to recordings of the list, but not to exactly the recordings the policy retains"
        else:
            oracle = "row-differs-from-alone"
            text = "a curve differs from the curve of the same recording processed alone with the same FFT length"
    ctx.violation(_key(kind, policy, dts, oracle, variant), root, detail=detail, expected=expected,
                  observed=_obs(res), explanation=text)
    return False


_ORDER_DONE = {}


def _centre_order(ctx, root, detail, family, kind, policy, fcsname, p, variant=""):
    """The curve of recording p alone for a permuted centre vector must be the permuted curve for the
    ascending vector with the same centres (both accepted: the centres are the same).  Once per worker
    and (settings, recording)."""
    key = (family, kind, policy, fcsname, p)
    if key in _ORDER_DONE:
        return _ORDER_DONE[key]
    base = PERMUTATION_OF[fcsname]
    a = alone(ctx, family, kind, policy, fcsname, p)
    b = alone(ctx, family, kind, policy, base, p)
    good = True
    if b["status"] != "ok" or len(b["blocks"]) != len(a["blocks"]):
        good = False
        observed = _obs(b)
        expected = "one curve for the ascending centres " + repr(FCS[base])
    else:
        pos = [FCS[base].index(f) for f in FCS[fcsname]]
        ctx.count("centre_order_compared")
        for x, y in zip(a["blocks"], b["blocks"]):
            want = y[:, pos]
            if x.shape != want.shape or not np.allclose(x, want, rtol=ORDER_RTOL, atol=0.0):
                good = False
                observed = dict(centres=FCS[fcsname], curve=x.tolist())
                expected = dict(centres=FCS[base], curve=y.tolist())
                break
    if not good:
        ctx.violation(_key(kind, policy, [pool_dt(p)], "curve-depends-on-order-of-centres", variant), root,
                      detail=dict(detail, alone_pool_index=p, ascending_centres=FCS[base], rtol=ORDER_RTOL),
                      expected=expected, observed=observed,
                      explanation="process([record]) with a permuted centre-frequency vector does not give, centre "
                                  "by centre, the values it gives for the ascending vector of the same centres")
    _ORDER_DONE[key] = good
    return good


def _stats(ctx, policy, dts, ids, kept, fcs, fcsname):
    """Non-vacuity bookkeeping for a case that was compared and agreed."""
    order = []
    for dt in dict.fromkeys(dts[i] for i in kept):
        order += [i for i in kept if dts[i] == dt]
    if order != list(kept):
        ctx.count("grouping_by_dt_permutes_rows")
    dropped = [dts[i] for i in range(len(ids)) if i not in kept]
    if dropped and RP.nyquist_decision(dropped, fcs) == "refuse":
        ctx.count("accepted_above_nyquist_of_dropped_only")
    if len(set(ids[i] for i in kept)) < len(kept):
        ctx.count("repeated_recording_retained")
    if fcs[-1] != max(fcs):
        ctx.count("rows_compared_for_unsorted_centres")
    by_dt = {}
    for i in kept:
        by_dt.setdefault(dts[i], []).append(pool_scale(ids[i]))
    if any(max(v) / min(v) > 1e16 for v in by_dt.values()):
        ctx.count("rows_compared_same_dt_amplitude_ratio_above_1e16")
    if len(by_dt) > 1 and max(map(max, by_dt.values())) / min(map(min, by_dt.values())) > 1e16:
        ctx.count("rows_compared_mixed_dt_amplitude_ratio_above_1e16")
    ctx.outcome(("rows", policy, tuple(dts), tuple(kept), fcsname))


# ---------------------------------------------------------------------------
# roots

def _pool(dt_idx, members):
    return [MEMBERS * d + m for d in dt_idx for m in members]


def _scaled(base, scale_index):
    return BASE_POOL * scale_index + base


def _joint_roots(family, kinds, pool, fcsnames, groups):
    out = []
    for kind in kinds:
        for policy in POLICIES:
            for fcsname in fcsnames:
                for lens in groups:
                    for first in pool:
                        out.append(dict(part="joint", family=family, kind=kind, policy=policy, fcs=fcsname,
                                        pool=list(pool), first=first, lens=list(lens)))
    return out


def _lists(pool, maxlen):
    return [list(t) for n in range(1, maxlen + 1) for t in itertools.product(pool, repeat=n)]


DEGENERATE = ["empty_smoothing_window", "zero_vertical", "zero_everything", "negative_smoothed_horizontal",
              "negative_smoothed_vertical"]
TD3 = ["geometric_mean", "single_azimuth", "rotdpp"]


def plan(tier):
    q = tier == "quick"
    p = dict(
        main=dict(family="nopad", kinds=TD3, pool=_pool([0, 1, 2], [0, 1] if q else [0, 1, 2, 3]), fcs=["low"],
                  groups=[[1, 2, 3], [4]]),
        azim=dict(family="nopad", kinds=["azimuthal"], pool=_pool([0, 2] if q else [0, 1, 2], [0, 1]), fcs=["low"],
                  groups=[[1, 2, 3], [4]]),
        nyq=dict(family="nopad", kinds=list(KINDS), pool=_pool([0, 1, 2], [0] if q else [0, 1]),
                 fcs=["mid", "high", "over"], groups=[[1, 2, 3, 4]] if q else [[1, 2, 3], [4]]),
        # descending / unsorted centre vectors; the largest centre is never last and, where it is above a
        # Nyquist frequency, close enough to it that a finite value would come out without the guard
        nyqorder=dict(family="nopad", kinds=list(KINDS), pool=_pool([0, 1, 2], [0] if q else [0, 1]),
                      fcs=sorted(PERMUTATION_OF), groups=[[1, 2, 3]] if q else [[1, 2, 3], [4]]),
        # recordings in raw counts (x 1e9) next to recordings in metres (x 1e-9), same and different time steps
        scale=dict(family="nopad", kinds=list(KINDS),
                   pool=[_scaled(0, 1), _scaled(1, 2), _scaled(8, 1), _scaled(9, 2)] +
                        ([] if q else [_scaled(0, 2), 2]),
                   fcs=["low"], groups=[[1, 2, 3]] if q else [[1, 2, 3], [4]]),
        # two sampling rates that round to the same whole number (100 and 100.4 Hz), equal sample counts
        nearrate=dict(family="nopad", kinds=TD3 if q else list(KINDS), pool=_pool([0, 3], [0, 1]), fcs=["low"],
                      groups=[[1, 2, 3]]),
        # two time steps 5 ppm apart: different floats, hence different groups, axes and 'smallest'
        closerate=dict(family="nopad", kinds=TD3 if q else list(KINDS), pool=_pool([0, 4], [0, 1]), fcs=["low"],
                       groups=[[1, 2, 3]]),
        nearrate_dflt=dict(family="default", kinds=["geometric_mean"] if q else TD3, pool=_pool([0, 3], [0]),
                           fcs=["low"], groups=[[1, 2, 3]]),
        dflt=dict(family="default", kinds=TD3 if q else list(KINDS), pool=_pool([0, 2] if q else [0, 1, 2], [0, 1]),
                  fcs=["low"], groups=[[1, 2, 3]] if q else [[1, 2, 3], [4]]),
        hist=dict(kinds=["geometric_mean", "single_azimuth"] if q else list(KINDS), pool=_pool([0, 1, 2], [0]),
                  fcs=["low", "mid"], xlen=2 if q else 3, ylen=2),
    )
    if not q:       # two more smoothing operators (their row stacking differs) on a pool of 2 per time step
        for fam in ("nopad_parzen", "nopad_rectangular"):
            p[fam] = dict(family=fam, kinds=TD3, pool=_pool([0, 1, 2], [0, 1]), fcs=["low"], groups=[[1, 2, 3], [4]])
    return p


def roots(tier, seed):
    p = plan(tier)
    out = []
    for name, b in p.items():
        if name == "hist":
            continue
        out += _joint_roots(b["family"], b["kinds"], b["pool"], b["fcs"], b["groups"])
    h = p["hist"]
    for kind in h["kinds"]:
        for policy in POLICIES:
            for fcsname in h["fcs"]:
                for X in _lists(h["pool"], h["xlen"]):
                    out.append(dict(part="history", kind=kind, policy=policy, fcs=fcsname, X=X, pool=list(h["pool"]),
                                    ylen=h["ylen"]))
    for kind in KINDS:
        for case in DEGENERATE:
            out.append(dict(part="degenerate", kind=kind, case=case))
    return out


# ---------------------------------------------------------------------------

def run_root(root, ctx, tier):
    part = root["part"]
    if part == "joint":
        _run_joint(root, ctx)
    elif part == "history":
        _run_history(root, ctx)
    elif part == "degenerate":
        _run_degenerate(root, ctx)
    elif part == "finalize":
        pass            # the vacuity verdict belongs to a complete run, not to one root
    else:
        raise KeyError(part)


def _run_joint(root, ctx):
    family, kind, policy, fcsname = root["family"], root["kind"], root["policy"], root["fcs"]
    varied = FAMILIES[family]["varied"]
    for n in root["lens"]:
        for rest in itertools.product(root["pool"], repeat=n - 1):
            ids = [root["first"]] + list(rest)
            ctx.count("states")
            if n >= 2:
                ctx.nontrivial_case(("joint", family, kind, policy, fcsname, tuple(ids)))
            s = family_settings(family, kind, policy, fcsname)
            res = run_process(build_list(ids, varied), s)
            ctx.count("transitions")
            good = judge(ctx, root, family, kind, policy, fcsname, ids, res)
            ctx.count("validated")
            if good and n >= 3 and len(set(pool_dt(p) for p in ids)) > 1 and len(ctx.samples) < 2:
                ctx.sample(dict(root=root, pool_indices=ids, time_steps=[pool_dt(p) for p in ids],
                                outcome=res["status"],
                                first_row=res["blocks"][0][0].tolist() if res["status"] == "ok" else res["type"]))
            # the very same object more than once (only meaningful if process() leaves its inputs alone)
            if n <= 3 and len(set(ids)) < n:
                recs = build_list(ids, varied, alias=True)
                s = family_settings(family, kind, policy, fcsname)
                res = run_process(recs, s)
                ctx.count("transitions")
                ctx.count("states")
                if inputs_unchanged(recs, ids, varied):
                    judge(ctx, root, family, kind, policy, fcsname, ids, res, variant=":same-object-repeated")
                    ctx.count("validated")
                    ctx.count("same_object_cases_judged")
                else:
                    ctx.count("same_object_cases_not_judged_inputs_modified_by_process")


# ---- E1: histories of depth 2 on one settings object ------------------------------

_FRESH = {}


def settings_state(s):
    return digest(dict(s.attr_dict))


def _fresh(ctx, root, kind, policy, fcsname, Y):
    key = (kind, policy, fcsname, tuple(Y))
    if key not in _FRESH:
        s = family_settings("n128", kind, policy, fcsname)
        res = run_process(build_list(Y, True), s)
        ctx.count("transitions")
        ctx.count("fresh_settings_reference_executions")    # cached per worker process: not a 'state'
        judge(ctx, root, "n128", kind, policy, fcsname, Y, res)
        _FRESH[key] = (res, settings_state(s))
    return _FRESH[key]


def _same_result(a, b):
    if a["status"] != b["status"]:
        return False
    if a["status"] == "raised":
        return a["type"] == b["type"]
    return (len(a["blocks"]) == len(b["blocks"]) and all(bitwise_equal(x, y) for x, y in zip(a["blocks"], b["blocks"]))
            and all(bitwise_equal(x, y) for x, y in zip(a["freqs"], b["freqs"])))


def _run_history(root, ctx):
    kind, policy, fcsname, X = root["kind"], root["policy"], root["fcs"], root["X"]
    for Y in _lists(root["pool"], root["ylen"]):
        fresh, fresh_state = _fresh(ctx, root, kind, policy, fcsname, Y)
        s = family_settings("n128", kind, policy, fcsname)
        rx = run_process(build_list(X, True), s)
        state1 = settings_state(s)
        ry = run_process(build_list(Y, True), s)
        state2 = settings_state(s)
        ctx.count("transitions", 2)
        ctx.count("states")
        ctx.count("histories")
        ctx.nontrivial_case(("history", kind, policy, fcsname, tuple(X), tuple(Y)))
        ctx.outcome(("settings-state", state1, state2))
        ctx.outcome(("history", policy, tuple(pool_dt(p) for p in X), rx["status"], ry["status"]))
        ctx.count("validated")
        if rx["status"] == "raised":
            ctx.count("histories_first_call_refused")
        if ry["status"] == "ok" and fresh["status"] == "ok" and ry["n"] != fresh["n"]:
            ctx.count("skipped_fft_length_differs")
            continue
        if not _same_result(ry, fresh):
            dts = [pool_dt(p) for p in Y]
            ctx.violation(f"C03:process:{kind}:{policy}:history:result-depends-on-previous-call-with-same-settings",
                          root, detail=dict(kind=kind, kind_parameters=KINDS[kind], policy=policy,
                                            centre_frequencies=FCS[fcsname], first_list=X, second_list=Y,
                                            time_steps_first=[pool_dt(p) for p in X], time_steps_second=dts,
                                            fft_settings="{'n': 128} on ONE settings object used for both calls",
                                            settings_state_after_first=state1, first_call=rx["status"]),
                          expected=_obs(fresh), observed=_obs(ry),
                          explanation="process(Y, s) after process(X, s) differs from process(Y, fresh settings) "
                                      "although the FFT length is the same")


# ---- degenerate recordings: refuse or finite ---------------------------------------

def _degenerate_setup(case):
    L, dt = L_NOPAD, 0.01
    df = 1.0 / (L * dt)
    n1, n2, n3 = (A.sig_array(f"noise{i}", L) for i in (101, 102, 103))
    lines = A.sig_array("two_sines", L) + 1e-9 * n1
    z = np.zeros(L)
    good = lambda d: (A.sig_array("noise104", L) + d, A.sig_array("noise105", L), A.sig_array("noise106", L))  # noqa: E731
    cfg = dict(smoothing=("konno_and_ohmachi", 10.0), fcs=[2.0, 4.0, 7.0], tukey=0.1)
    if case == "empty_smoothing_window":        # no FFT bin of the 64-point grid within the window around 2.3 Hz
        cfg.update(smoothing=("konno_and_ohmachi", 40.0), fcs=[2.3, 4.0])
        bad = (n1, n2, n3)
    elif case == "zero_vertical":
        bad = (n1, n2, z)
    elif case == "zero_everything":
        bad = (z, z, z)
    elif case == "negative_smoothed_horizontal":  # line spectrum, cubic 5-point filter has negative side lobes
        cfg.update(smoothing=("savitzky_and_golay", 5), fcs=[k * df for k in range(3, 12)], tukey=0.0)
        bad = (lines, 0.5 * lines, n3)
    elif case == "negative_smoothed_vertical":
        cfg.update(smoothing=("savitzky_and_golay", 5), fcs=[k * df for k in range(3, 12)], tukey=0.0)
        bad = (n1, n2, lines)
    else:
        raise KeyError(case)
    lists = {"bad": [("bad", 0.01)], "good,bad": [("good", 0.01), ("bad", 0.01)],
             "bad,good": [("bad", 0.01), ("good", 0.01)],
             "good(dt=0.02),bad,good": [("good", 0.02), ("bad", 0.01), ("good", 0.01)]}
    return cfg, bad, good, lists


RECIPES = {
    "empty_smoothing_window": "ns=noise101, ew=noise102, vt=noise103 (healthy; the window around 2.3 Hz is empty)",
    "zero_vertical": "ns=noise101, ew=noise102, vt=zeros",
    "zero_everything": "ns=ew=vt=zeros",
    "negative_smoothed_horizontal": "ns=lines, ew=0.5*lines, vt=noise103",
    "negative_smoothed_vertical": "ns=noise101, ew=noise102, vt=lines",
}


def _run_degenerate(root, ctx):
    kind, case = root["kind"], root["case"]
    cfg, bad, good, lists = _degenerate_setup(case)
    for name, spec in lists.items():
        recs = [_rec(*(bad if w == "bad" else good(0.25 * j)), dt) for j, (w, dt) in enumerate(spec)]
        s = make_settings(kind, "frequency_domain_resampling", cfg["fcs"], {"n": None}, cfg["smoothing"], cfg["tukey"])
        res = run_process(recs, s)
        ctx.count("transitions")
        ctx.count("states")
        ctx.count("validated")
        ctx.nontrivial_case(("degenerate", kind, case, name))
        detail = dict(kind=kind, kind_parameters=KINDS[kind], case=case, list=name, config=cfg,
                      policy="frequency_domain_resampling", fft_settings="{'n': None}", samples=L_NOPAD,
                      recordings=[dict(which=w, dt=dt, components=RECIPES[case] if w == "bad" else
                                       f"ns=noise104+{0.25 * j}, ew=noise105, vt=noise106") for j, (w, dt) in
                                  enumerate(spec)],
                      how="signals are hvmc.alphabets.sig_array(name, 64); lines = two_sines + 1e-9*noise101; "
                          "settings = hvmc.checks.c03.make_settings(kind, policy, config.fcs, {'n': None}, "
                          "config.smoothing, config.tukey)")
        if res["status"] == "raised":
            ctx.count("degenerate_refused")
            ctx.outcome(("degenerate", case, "refused", res["type"]))
            continue
        ctx.outcome(("degenerate", case, "returned"))
        ctx.count("degenerate_returned")
        bad_rows = [b for b in res["blocks"] if not (np.all(np.isfinite(b)) and np.all(b >= 0))]
        if bad_rows:
            b = bad_rows[0]
            what = ("nan" if np.isnan(b).any() else "infinite" if np.isinf(b).any() else "negative")
            ctx.violation(f"C03:process:degenerate:{case}:{what}-amplitude-returned", root, detail=detail,
                          expected="an error, or finite non-negative amplitudes", observed=_obs(res),
                          explanation=f"process() returned a curve with {what} amplitudes instead of refusing")
            continue
        want_f = np.array(cfg["fcs"], dtype=float)
        if any(not bitwise_equal(f, want_f) for f in res["freqs"]) or any(b.shape[0] != len(spec)
                                                                          for b in res["blocks"]):
            ctx.violation(f"C03:process:degenerate:{case}:shape", root, detail=detail,
                          expected=dict(rows=len(spec), frequency=cfg["fcs"]), observed=_obs(res),
                          explanation="row count / frequency vector of the returned result is wrong")


# ---------------------------------------------------------------------------

def warm(tier="thorough"):
    global _SERVER
    from hvmc.engine import pristine
    _SERVER = pristine.PristineServer(_alone_in_pristine_process, preload=pristine.preload_numba_kernels).start()
    for family in FAMILIES if tier != "quick" else ("nopad", "default", "n128"):
        for kind in KINDS:
            run_process(build_list([0, 9], FAMILIES[family]["varied"]),
                        family_settings(family, kind, POLICIES[0], "low"))
    s = make_settings("geometric_mean", POLICIES[0], [4.0, 8.0], {"n": None}, ("savitzky_and_golay", 5), 0.0)
    run_process(build_list([0], False), s)


NON_VACUITY = ["grouping_by_dt_permutes_rows", "dropped_recordings_cases", "majority_tie_cases", "nyquist_refused",
               "accepted_above_nyquist_of_dropped_only", "repeated_recording_retained", "degenerate_refused",
               "histories", "histories_first_call_refused", "nyquist_refused_although_last_centre_is_below",
               "rows_compared_for_unsorted_centres", "centre_order_compared",
               "rows_compared_same_dt_amplitude_ratio_above_1e16", "rows_compared_mixed_dt_amplitude_ratio_above_1e16"]


def finalize(ctx, tier):
    global _SERVER
    if _SERVER is not None:
        _SERVER.stop()
        _SERVER = None
    if ctx.counters.get("roots", 0) < len(roots(tier, 0)):
        return      # partial run (replay): no vacuity verdict
    for name in NON_VACUITY:
        if not ctx.counters.get(name, 0):
            ctx.violation("C03:harness:vacuous:" + name, dict(part="finalize"), observed=dict(ctx.counters),
                          explanation=f"no enumerated case exercised '{name}': the oracle would be vacuous")


def describe(tier):
    p = plan(tier)

    def sz(b):
        n = len(b["pool"])
        return sum(n ** k for g in b["groups"] for k in g)
    return dict(
        rule="joint part: every list (with repetition, every order) of length 1..4 over a pool of distinguishable "
             "broadband three-component recordings (pool sizes below; 4 members per time step in the thorough main "
             "block) x 3 dissimilar-time-step policies x processing kind x centre-frequency set, FFT length fixed "
             "(nopad*: 64-sample records with fft_settings={'n': None}; default: records of 33..64 samples with "
             "fft_settings=None -> 32768); lists with a repeated recording additionally with the very same object. "
             "block 'nyqorder': the same lists with descending and unsorted centre vectors (largest centre never "
             "last; above a Nyquist frequency it stays within the smoothing window, so that only the guard can refuse "
             "it): a request whose LARGEST centre is above the Nyquist frequency of a processed recording must raise, "
             "accepted requests must come back in the order of the request, rows bit-identical to the alone-curve for "
             "the same request, and the alone-curve must be the permuted alone-curve of the ascending request "
             "(rtol 1e-9). block 'scale': pool recordings multiplied by 1e9 and 1e-9 (and 1 in thorough) mixed in "
             "one list, same and different time steps; rows bit-identical to the alone-curve of the same scaled "
             "recording. "
             "history part: every pair (X, Y) of lists processed with ONE settings object carrying "
             "fft_settings={'n': 128}. degenerate part: 5 undefined-ratio recordings x 4 lists x 4 kinds. "
             "distinct non-trivial = distinct (part, family, kind, policy, centre set, list of pool indices) with "
             "at least 2 recordings, resp. distinct (X, Y) histories and degenerate (kind, case, list)",
        bounds=dict(time_steps=DTS, max_list_length=4, policies=POLICIES, kinds=KINDS,
                    centre_sets=FCS, permuted_centre_sets=PERMUTATION_OF, amplitude_scales=SCALES,
                    pool_index="p = 12 * (index of amplitude scale) + 4 * (index of time step) + member",
                    blocks={k: dict(family=b.get("family", "n128"), kinds=b["kinds"], pool=b["pool"], fcs=b["fcs"],
                                    lists_per_kind_policy_fcs=sz(b) if "groups" in b else None,
                                    history_X_max_len=b.get("xlen"), history_Y_max_len=b.get("ylen"))
                            for k, b in p.items()},
                    history_depth=2),
        exhaustive=True,
        assumptions=[
            "'fixed FFT length' is realised by equal-length records with {'n': None}, by the default 32768-point "
            "path, or by an explicit n; the length is read back from settings.fft_settings after every call and a "
            "joint/alone pair with different lengths would be skipped and counted (never happens in these families)",
            "every call gets fresh recording objects and a fresh settings object (except the second call of a "
            "history); a list holding the very same object twice is judged only when process() left its inputs "
            "unchanged (in-place tapering of inputs is property C09)",
            "on a tie of the majority policy any single maximal time-step class is accepted",
            "row equality with process([record]) is bitwise (same code path); one smoothing operator per family "
            "(Konno-Ohmachi b=10 on the 64-point grids, b=40 on the 32768-point grid; thorough adds Parzen and "
            "linear-rectangular families)",
            "centre-frequency sets are at least 5 % away from every Nyquist frequency (no knife-edge case); the "
            "'*_near' / '*_desc' / '*_mix' sets exceed a Nyquist frequency by a factor 1.2 (less than the factor "
            "2.0 of the Konno-Ohmachi b=10 window), so hvsrpy would report a finite value there if its guard let "
            "the request pass; any ValueError counts as the demanded refusal",
            "a curve value belongs to its centre frequency: permuting the requested centres permutes the curve "
            "(compared with rtol 1e-9 between two alone-runs, not bitwise)",
            "H/V is unit invariant, so recordings whose amplitudes differ by 1e18 may share a list; the row of a "
            "scaled recording is compared with the alone-run of the SAME scaled arrays (scaling by 1e9 / 1e-9 is "
            "not exact in binary, so no comparison across scales is made)",
            "degenerate recordings: any exception counts as refusal; only 'refuse or finite non-negative' is judged",
        ])


_describe_base = describe


def describe(tier):     # noqa: F811 - the base description plus what later rounds added to the space
    d = _describe_base(tier)
    d["rule"] = d["rule"] + " " + 'The pool holds a fourth time step, 1/100.4 s (blocks nearrate / nearrate_dflt: lists over members at 0.01 s and 1/100.4 s).' + " Round 6: a fifth time step 5 ppm below 0.01 s (block closerate): time steps are distinguished as floats, never by tolerance."
    return d
