"""C09 - processing has no side effects on its inputs and is repeatable.

E1: BFS over histories of

    P(kind, w)   hvsrpy.process(recordings, settings[kind, w])  - ONE settings object per
                 (processing kind, Tukey width), created on first use and then held across
                 the history; the FFT request (None / {"n": None} / {"n": 128}) is a root
                 parameter of every settings object
    Ms(field)    edit the settings object of the most recent (or first) P in place
    Mr(what)     edit a recording in place (sample, metadata, nested metadata, orientation)

on real SeismicRecording3C / settings / result objects.  Every P *transition* is judged:

 (a) every recording is bit-identical to its deep snapshot taken right before the call
     (samples, time step, orientation, metadata content, the list itself);
 (b) the result equals the result of the same call on pristine recordings (root recordings
     + the Mr edits of the history) with a pristine settings object (+ the Ms edits of the
     history) asked for the same resolved FFT length - the fresh-state differential;
 (c) the same call repeated immediately with the same settings object (on a deep clone of
     the whole state, so that the probe does not disturb the explored state) and any later
     P with the same settings object and no edit in between return an identical result;
 (d) after EVERY operation every earlier result still has the frequency, amplitude, masks,
     peaks, azimuths and metadata content it had when it was returned.

A difference in (b)/(c) is attributed to its cause so that one defect gets one key: if the
recordings the two calls saw differ (an earlier/the first call modified them) the difference
belongs to the inputs-modified finding of (a) and is only counted; else if the FFT length
changed between two calls although the request was {"n": None} it is the re-resolution
finding; else it is a generic repeatability / hidden-state finding.
"""
import contextlib
import copy
import hashlib
import io
import json
import warnings

import numpy as np

import hvsrpy
from hvsrpy import TimeSeries, SeismicRecording3C

from hvmc import alphabets as A
from hvmc.engine import explorer
from hvmc.engine.core import digest, jsonable

PROPERTY = "C09"

L = 64
DT = 0.01
DT_NEAR = float(np.float32(0.01))
NEAR_EQUAL_DT = False       # switched on per root (root["near_dt"])
DEG = 15.0

REC_SPECS = [
    dict(ns="noise1", ew="noise2", vt="noise3",
         meta={"file name(s)": ["st01_w0.n.mseed", "st01_w0.e.mseed", "st01_w0.z.mseed"],
               "station": "ST01", "detrend": "linear", "split": 0.63,
               "coordinates": "ndarray:[12.5, -3.25, 101.0]"}),       # replaced by a numpy array in make_recordings
    dict(ns="two_sines+noise4", ew="noise5", vt="ramp+noise6",
         meta={"file name(s)": ["st01_w1.n.mseed", "st01_w1.e.mseed", "st01_w1.z.mseed"],
               "station": "ST01", "detrend": "linear", "split": 0.63}),
    dict(ns="noise7", ew="offgrid_sine+noise8", vt="noise9",
         meta={"file name(s)": ["st01_w2.n.mseed", "st01_w2.e.mseed", "st01_w2.z.mseed"],
               "station": "ST01", "detrend": "linear", "split": 0.63}),
]

FCS = [6.0, 12.0, 20.0, 28.0, 36.0, 44.0]
RDP_AZIMUTHS = [0, 45, 90, 135]
AZ_AZIMUTHS = [0, 60, 120]

FD = ["geometric_mean", "squared_average", "maximum_horizontal_value", "arithmetic_mean",
      "total_horizontal_energy"]
KINDS_QUICK = ["fd:geometric_mean", "fd:squared_average", "fd:maximum_horizontal_value",
               "single", "rotdpp", "azimuthal", "diffuse", "psd",
               "fd:arithmetic_mean@keeping_smallest_time_step", "single@keeping_majority_time_step"]
KINDS_ALL = ["fd:" + m for m in FD] + ["single", "rotdpp", "azimuthal", "diffuse", "psd",
                                       "fd:geometric_mean@keeping_smallest_time_step",
                                       "fd:squared_average@keeping_majority_time_step",
                                       "rotdpp@keeping_smallest_time_step", "diffuse@keeping_smallest_time_step",
                                       "single@keeping_majority_time_step"]
WIDTHS = [0.0, 0.1, 0.5]
FFT_REQUESTS = {"default": lambda: None, "nopad": lambda: {"n": None}, "n128": lambda: {"n": 128}}

MR_QUICK = ["sample", "meta", "meta-nested", "meta-array"]
MR_ALL = ["sample", "meta", "meta-nested", "meta-array", "sample-last", "orient"]
MS_FIELDS = ["width", "fcs", "azimuths", "fft_n"]

DATA_PARTS = ("type", "frequency", "amplitude", "masks", "peaks", "azimuths")


def _decoy():
    Ld, dtd = 48, 0.02
    recs = [SeismicRecording3C(TimeSeries(A.sig_array("noise2", Ld) + 0.3, dtd),
                               TimeSeries(A.sig_array("noise3", Ld) - 0.2, dtd),
                               TimeSeries(A.sig_array("noise1", Ld) + 0.1, dtd)) for _ in range(2)]
    sm = dict(operator="linear_rectangular", bandwidth=3.0, center_frequencies_in_hz=[4.0, 9.0])
    for cls, kw in ((hvsrpy.HvsrTraditionalProcessingSettings, dict(method_to_combine_horizontals="squared_average")),
                    (hvsrpy.HvsrDiffuseFieldProcessingSettings, {}),
                    (hvsrpy.HvsrTraditionalSingleAzimuthProcessingSettings, dict(azimuth_in_degrees=77.0))):
        try:
            hvsrpy.process(recs, cls(window_type_and_width=["tukey", 0.77], smoothing=dict(sm),
                                     fft_settings={"n": 96}, **kw))
        except Exception:       # noqa: BLE001 - a decoy must never disturb the judgement
            pass


def path_of(kind):
    kind = kind.partition("@")[0]
    if kind.startswith("fd:"):
        return "frequency-domain"
    return {"single": "single-azimuth", "rotdpp": "rotdpp", "azimuthal": "azimuthal",
            "diffuse": "diffuse-field", "psd": "psd", "psd_raw": "psd"}[kind]


# ---------------------------------------------------------------------------
# building the real objects (always fresh)

def _sig(name):
    if "+" in name:
        a, b = name.split("+")
        return A.sig_array(a, L) + 0.1 * A.sig_array(b, L)
    return A.sig_array(name, L)


def make_recordings(nrec):
    recs = []
    for i, spec in enumerate(REC_SPECS[:nrec]):
        meta = copy.deepcopy(spec["meta"])
        if "coordinates" in meta:       # a mutable value that is neither list, dict nor tuple
            meta["coordinates"] = np.array([12.5, -3.25, 101.0])
        # the second recording's time step is the float32 rounding of 0.01 (what a SAC header gives):
        # it differs from DT by ~2e-10 s, i.e. "equal" for every tolerance but not equal
        dt = DT_NEAR if (i == 1 and NEAR_EQUAL_DT) else DT
        recs.append(SeismicRecording3C(TimeSeries(_sig(spec["ns"]), dt), TimeSeries(_sig(spec["ew"]), dt),
                                       TimeSeries(_sig(spec["vt"]), dt), degrees_from_north=DEG,
                                       meta=meta))
    return recs


def make_settings(kind, width, fft):
    # "<kind>@<policy>" selects a non-default handle_dissimilar_time_steps_by; the centre frequencies
    # are a float64 ndarray (the library's own default type) except for width 0.1, where they are a list
    kind, _, policy = kind.partition("@")
    fcs = list(FCS) if float(width) == 0.1 else np.array(FCS, dtype=float)
    kw = dict(window_type_and_width=["tukey", float(width)],
              smoothing=dict(operator="konno_and_ohmachi", bandwidth=40.0,
                             center_frequencies_in_hz=fcs),
              fft_settings=fft)
    if policy:
        kw["handle_dissimilar_time_steps_by"] = policy
    if kind.startswith("fd:"):
        return hvsrpy.HvsrTraditionalProcessingSettings(method_to_combine_horizontals=kind[3:], **kw)
    if kind == "single":
        return hvsrpy.HvsrTraditionalSingleAzimuthProcessingSettings(azimuth_in_degrees=30.0, **kw)
    if kind == "rotdpp":
        return hvsrpy.HvsrTraditionalRotDppProcessingSettings(azimuths_in_degrees=list(RDP_AZIMUTHS), **kw)
    if kind == "azimuthal":
        return hvsrpy.HvsrAzimuthalProcessingSettings(azimuths_in_degrees=list(AZ_AZIMUTHS), **kw)
    if kind == "diffuse":
        return hvsrpy.HvsrDiffuseFieldProcessingSettings(**kw)
    if kind == "psd":
        return hvsrpy.PsdProcessingSettings(**kw)
    if kind == "psd_raw":
        s = hvsrpy.PsdProcessingSettings(**kw)
        s.smoothing = None
        return s
    raise KeyError(kind)


def ms_fields_available(s):
    out = ["width"]
    sm = getattr(s, "smoothing", None)
    if isinstance(sm, dict) and isinstance(sm.get("center_frequencies_in_hz"), (list, np.ndarray)):
        out.append("fcs")
    if isinstance(getattr(s, "azimuths_in_degrees", None), (list, np.ndarray)):
        out.append("azimuths")
    if isinstance(getattr(s, "fft_settings", None), dict):
        out.append("fft_n")
    return out


def apply_ms(s, field):
    """Edit a settings object IN PLACE (never rebinding the attribute)."""
    if field == "width":
        s.window_type_and_width[1] = 0.9
    elif field == "fcs":
        if isinstance(s.smoothing["center_frequencies_in_hz"], np.ndarray):
            s.smoothing["center_frequencies_in_hz"] *= 1.01         # the whole array, in place
        else:
            s.smoothing["center_frequencies_in_hz"][0] *= 1.01
    elif field == "azimuths":
        s.azimuths_in_degrees[0] = 5
    elif field == "fft_n":
        s.fft_settings["n"] = 65536
    else:
        raise KeyError(field)


def apply_mr(recs, what):
    """Edit a recording IN PLACE."""
    if what == "sample":
        recs[0].ns.amplitude[7] = 2.5
    elif what == "sample-last":
        recs[-1].ew.amplitude[L - 1] = -1.5
    elif what == "meta":
        recs[0].meta["station"] = "ST99"
        recs[0].meta["note"] = "edited after processing"
    elif what == "meta-nested":
        recs[0].meta["file name(s)"][0] = "renamed.n.mseed"
    elif what == "meta-array":
        recs[0].meta["coordinates"][0] = -999.0        # in-place edit of an array held in the meta
    elif what == "orient":
        recs[0].orient_sensor_to(75.0)
    else:
        raise KeyError(what)


class Raised:
    def __init__(self, exc):
        self.name = type(exc).__name__
        self.text = str(exc)[:300]


def run_process(recs, s):
    try:
        with warnings.catch_warnings(), contextlib.redirect_stdout(io.StringIO()), np.errstate(all="ignore"):
            warnings.simplefilter("ignore")
            return hvsrpy.process(recs, s)
    except Exception as e:      # noqa: BLE001 - judged by the caller
        return Raised(e)


# ---------------------------------------------------------------------------
# deep snapshots

def _np_default(x):
    if isinstance(x, np.ndarray):
        return x.tolist()
    if isinstance(x, np.generic):
        return x.item()
    if isinstance(x, (set, frozenset)):
        return sorted(x)
    return repr(x)


def _meta_json(meta):
    """Canonical JSON text of a metadata dict (tuples and lists are the same content)."""
    try:
        return json.dumps(meta, sort_keys=True, default=_np_default)
    except (TypeError, ValueError):
        return json.dumps(jsonable(meta), sort_keys=True)


def arr_digest(*arrays):
    """Digest of dtype, shape and bytes of every array (local, faster variant of core.arr_digest)."""
    h = hashlib.blake2b(digest_size=10)
    for a in arrays:
        a = np.asarray(a)
        h.update(a.dtype.str.encode())
        h.update(repr(a.shape).encode())
        h.update(a.tobytes())
    return h.hexdigest()


def snap_recordings(recs):
    """Deep content snapshot of every recording: part -> per-recording tuple."""
    out = dict(samples=[], dt=[], orientation=[], meta=[])
    for r in recs:
        out["samples"].append(arr_digest(r.ns.amplitude, r.ew.amplitude, r.vt.amplitude))
        out["dt"].append(repr((float(r.ns.dt_in_seconds), float(r.ew.dt_in_seconds), float(r.vt.dt_in_seconds))))
        out["orientation"].append(repr(float(r.degrees_from_north)))
        out["meta"].append(_meta_json(r.meta))
    return {k: tuple(v) for k, v in out.items()}


def snap_diff(a, b):
    """-> list of (part, recording index) that differ."""
    out = []
    for part in ("samples", "dt", "orientation", "meta"):
        if len(a[part]) != len(b[part]):
            out.append(("list", None))
            continue
        for i, (x, y) in enumerate(zip(a[part], b[part])):
            if x != y:
                out.append((part, i))
    return out


def data_sig(snap):
    return (snap["samples"], snap["dt"])


def _trad_parts(t):
    return dict(frequency=arr_digest(t.frequency), amplitude=arr_digest(t.amplitude),
                masks=arr_digest(t.valid_window_boolean_mask, t.valid_peak_boolean_mask),
                peaks=arr_digest(t._main_peak_frq, t._main_peak_amp), meta=_meta_json(t.meta))


def view(res):
    """Content of a result: part -> digest (metadata as canonical JSON text)."""
    if isinstance(res, Raised):
        return dict(type="raised:" + res.name)
    if isinstance(res, hvsrpy.HvsrAzimuthal):
        ps = [_trad_parts(t) for t in res.hvsrs]
        return dict(type="HvsrAzimuthal", azimuths=repr([float(a) for a in res.azimuths]),
                    frequency=digest([p["frequency"] for p in ps]), amplitude=digest([p["amplitude"] for p in ps]),
                    masks=digest([p["masks"] for p in ps]), peaks=digest([p["peaks"] for p in ps]),
                    meta=json.dumps([json.loads(_meta_json(res.meta))] + [json.loads(p["meta"]) for p in ps],
                                    sort_keys=True))
    if isinstance(res, hvsrpy.HvsrTraditional):
        return dict(type="HvsrTraditional", **_trad_parts(res))
    if isinstance(res, hvsrpy.HvsrDiffuseField):
        return dict(type="HvsrDiffuseField", frequency=arr_digest(res.frequency), amplitude=arr_digest(res.amplitude),
                    peaks=arr_digest(np.array([res.peak_frequency, res.peak_amplitude], dtype=float)),
                    meta=_meta_json(res.meta))
    if isinstance(res, dict):
        names = sorted(res)
        return dict(type="dict-of-Psd:" + ",".join(names),
                    frequency=digest([arr_digest(res[k].frequency) for k in names]),
                    amplitude=digest([arr_digest(res[k].amplitude) for k in names]),
                    meta=json.dumps([json.loads(_meta_json(res[k].meta)) for k in names], sort_keys=True))
    return dict(type="unexpected:" + type(res).__name__)


def view_diff(a, b):
    return sorted(k for k in set(a) | set(b) if a.get(k) != b.get(k))


def preview(res):
    """A few numbers of a result for violation reports."""
    if isinstance(res, Raised):
        return dict(raised=res.name, text=res.text)
    if isinstance(res, hvsrpy.HvsrAzimuthal):
        return dict(azimuths=list(res.azimuths), first_curve=np.asarray(res.hvsrs[0].amplitude)[0][:6].tolist(),
                    meta=jsonable(res.meta))
    if isinstance(res, hvsrpy.HvsrTraditional):
        return dict(frequency=np.asarray(res.frequency)[:6].tolist(),
                    first_curve=np.asarray(res.amplitude)[0][:6].tolist(), meta=jsonable(res.meta))
    if isinstance(res, hvsrpy.HvsrDiffuseField):
        return dict(frequency=np.asarray(res.frequency)[:6].tolist(),
                    curve=np.asarray(res.amplitude)[:6].tolist(), meta=jsonable(res.meta))
    if isinstance(res, dict):
        return {k: np.asarray(v.amplitude)[:6].tolist() for k, v in res.items()}
    return repr(res)[:200]


def meta_fields_changed(a_json, b_json):
    try:
        a, b = json.loads(a_json), json.loads(b_json)
    except ValueError:
        return None
    if isinstance(a, list) and isinstance(b, list) and len(a) == len(b):
        out = []
        for x, y in zip(a, b):
            out += [k for k in sorted(set(x) | set(y)) if x.get(k, "<absent>") != y.get(k, "<absent>")]
        return sorted(set(out))
    if isinstance(a, dict) and isinstance(b, dict):
        return [k for k in sorted(set(a) | set(b)) if a.get(k, "<absent>") != b.get(k, "<absent>")]
    return None


def meta_delta(a_json, b_json):
    """-> (changed fields, their values before, their values after) of two metadata JSON texts."""
    fields = meta_fields_changed(a_json, b_json)
    if fields is None:
        return None, a_json, b_json
    a, b = json.loads(a_json), json.loads(b_json)
    if isinstance(a, dict):
        a, b = [a], [b]
    exp = [{k: x.get(k, "<absent>") for k in fields if x.get(k, "<absent>") != y.get(k, "<absent>")}
           for x, y in zip(a, b)]
    obs = [{k: y.get(k, "<absent>") for k in fields if x.get(k, "<absent>") != y.get(k, "<absent>")}
           for x, y in zip(a, b)]
    return fields, exp, obs


def explained_by_inputs(parts, snap_a, snap_b):
    """Is a result difference in ``parts`` explained by the two calls having seen
    different recordings?  Data parts need different samples / time steps;
    the metadata part is explained by any difference of the recordings."""
    data_differs = data_sig(snap_a) != data_sig(snap_b)
    any_differs = bool(snap_diff(snap_a, snap_b))
    for p in parts:
        if p == "meta":
            if not any_differs:
                return False
        elif not data_differs:
            return False
    return True


# ---------------------------------------------------------------------------

class NullCtx:
    def count(self, *a, **k):
        pass

    def violation(self, *a, **k):
        pass

    def outcome(self, *a, **k):
        pass

    def sample(self, *a, **k):
        pass

    samples = ()


NULL = NullCtx()


class Holder:
    """The explored state: caller-owned recordings, the held settings objects,
    every result returned so far, and the harness's bookkeeping."""

    def __init__(self, recs):
        self.recs = recs
        self.settings = {}          # "kind|w" -> settings object (created on first use, then held)
        self.results = []           # result objects in the order returned
        self.snaps = []             # their content when returned (updated when a change was reported)
        self.log = []               # one entry per P
        self.hist = ()
        self.model_mr = []          # intended edits of the recordings
        self.model_ms = {}          # key -> intended edits of that settings object
        self.cur_views = []         # content of every result after the last operation

    def __deepcopy__(self, memo):
        # ONE deepcopy of (recordings, settings, results) keeps every aliasing relation between
        # them exactly as it is in the original; the bookkeeping holds immutable entries that
        # are only ever replaced, so shallow copies of the containers are exact.
        new = Holder.__new__(Holder)
        new.recs, new.settings, new.results = copy.deepcopy((self.recs, self.settings, self.results), memo)
        new.snaps = list(self.snaps)
        new.log = list(self.log)
        new.hist = self.hist
        new.model_mr = list(self.model_mr)
        new.model_ms = {k: list(v) for k, v in self.model_ms.items()}
        new.cur_views = list(self.cur_views)
        return new


_REF_CACHE = {}


class System:
    def __init__(self, root, ctx):
        self.root = root
        self.ctx = ctx
        self.nrec = root["nrec"]
        self.fft = root["fft"]
        self.kinds = list(root["kinds"])
        self.widths = list(root["widths"])
        self.p_ops = [dict(op="P", kind=k, w=w) for k in self.kinds for w in self.widths]
        self.mr_ops = [dict(op="Mr", what=m) for m in root["mr"]]
        self.ms_targets = list(root.get("ms_targets", ["last"]))
        first = root["first"]
        # the first operation group of the root: "Mr" | "Mr:<what>" | "<kind>" | "<kind>|<width>"
        if first == "Mr":
            self.first_ops = list(self.mr_ops)
        elif first.startswith("Mr:"):
            self.first_ops = [o for o in self.mr_ops if o["what"] == first[3:]]
        elif "|" in first:
            self.first_ops = [o for o in self.p_ops if _key(o) == first]
        else:
            self.first_ops = [o for o in self.p_ops if o["kind"] == first]
        self.depth = root["depth"]
        self.probing = False
        self.judged = set()
        self.ref_cache = _REF_CACHE         # memo of a pure function of its key; shared by the roots of a worker
        self.intended_cache = {}

    # ---- E1 interface -------------------------------------------------------
    def initial(self, root):
        return Holder(make_recordings(self.nrec))

    def clone(self, h):
        return copy.deepcopy(h)     # see Holder.__deepcopy__

    def menu(self, h):
        if not h.hist:
            return self.first_ops
        ops = list(self.p_ops)
        ps = [o for o in h.hist if o["op"] == "P"]
        if ps:
            tk = {"last": _key(ps[-1]), "first": _key(ps[0])}
            for target in self.ms_targets:
                if target == "first" and tk["first"] == tk["last"]:
                    continue
                for f in ms_fields_available(h.settings[tk[target]]):
                    ops.append(dict(op="Ms", target=target, field=f))
        return ops + self.mr_ops

    def canon(self, h):
        return digest(dict(recs=snap_recordings(h.recs),
                           settings={k: jsonable(s.attr_dict) for k, s in sorted(h.settings.items())},
                           results=h.cur_views))      # re-read from the objects at the end of apply()

    def observe(self, h):
        return None     # canon() is the complete observable state (no abstraction to validate)

    def invariant(self, h, hist, ctx, root):
        return          # transitions are judged in apply()

    def apply(self, h, op):
        hk = json.dumps(list(h.hist) + [op], sort_keys=True)
        muted = hk in self.judged       # replay of a history that was judged already (determinism check)
        self.judged.add(hk)
        ctx = NULL if muted else self.ctx
        if op["op"] == "P":
            out = self._P(h, op, ctx, muted)
        elif op["op"] == "Ms":
            ps = [o for o in h.hist if o["op"] == "P"]
            key = _key(ps[-1] if op["target"] == "last" else ps[0])
            apply_ms(h.settings[key], op["field"])
            h.model_ms.setdefault(key, []).append(op["field"])
            out = None
        else:
            apply_mr(h.recs, op["what"])
            h.model_mr.append(op["what"])
            out = None
        h.hist = h.hist + (op,)
        self._results_unchanged(h, op, ctx)
        if not muted and op["op"] != "P" and len(h.hist) >= self.depth and self.depth <= 2:
            self._leaf_probe(h, op, ctx)
        return out

    def _leaf_probe(self, h, op, ctx):
        """An edit at the depth bound: process once more (on a clone) with the edited / the last
        used settings object, so that the effect of the edit on the next call is judged too."""
        ps = [o for o in h.hist if o["op"] == "P"]
        if not ps:
            return
        pop = ps[0] if (op["op"] == "Ms" and op["target"] == "first") else ps[-1]
        h2 = copy.deepcopy(h)
        self.probing = True
        try:
            self.apply(h2, dict(op="P", kind=pop["kind"], w=pop["w"]))
        finally:
            self.probing = False
        ctx.count("transitions")
        ctx.count("leaf_probes")

    # ---- the fresh-state reference -----------------------------------------------
    def _intended(self, mr):
        """Snapshot of what the caller's recordings should be: root recordings + Mr edits."""
        k = tuple(mr)
        if k not in self.intended_cache:
            recs = make_recordings(self.nrec)
            for m in mr:
                apply_mr(recs, m)
            self.intended_cache[k] = snap_recordings(recs)
        return self.intended_cache[k]

    def _reference(self, op, ms, mr, n_used, ctx):
        """The same call on pristine objects asked for the FFT length the judged call used -
        computed in a process without history (engine/pristine.py) when the server is up."""
        k = (self.nrec, op["kind"], op["w"], tuple(ms), tuple(mr), n_used, self.fft if n_used is None else None)
        if k in self.ref_cache:
            ctx.count("fresh_reference_reused")
            return self.ref_cache[k]
        if k in _REF_CACHE:
            ctx.count("fresh_reference_reused")
            self.ref_cache[k] = _REF_CACHE[k]
            return self.ref_cache[k]
        if _SERVER is not None:
            ans = _SERVER.request(dict(nrec=self.nrec, kind=op["kind"], w=op["w"], ms=list(ms), mr=list(mr),
                                       n_used=n_used, fft=self.fft, near_dt=NEAR_EQUAL_DT))
            ctx.count("transitions")
            ctx.count("fresh_reference_computed")
            ctx.count("fresh_reference_computed_in_pristine_process")
            if len(_REF_CACHE) > 20000:
                _REF_CACHE.clear()
            _REF_CACHE[k] = self.ref_cache[k] = ans
            return ans
        recs = make_recordings(self.nrec)
        for m in mr:
            apply_mr(recs, m)
        s = make_settings(op["kind"], op["w"], {"n": None})
        for f in ms:
            apply_ms(s, f)
        if n_used is None:
            s.fft_settings = FFT_REQUESTS[self.fft]()
        elif n_used == L:
            s.fft_settings = {"n": None}
        else:
            s.fft_settings = {"n": int(n_used)}
        # Decoy calls: process unrelated recordings of ANOTHER length, time step, taper width and kind
        # first.  On code without hidden process-global state this changes nothing; a module- or
        # class-level cache keyed too coarsely (most-recent taper, filter design, ...) is refreshed
        # here, so the reference no longer shares the judged call's stale entry.
        _decoy()
        ctx.count("decoy_calls")
        res = run_process(recs, s)
        ctx.count("transitions")
        ctx.count("fresh_reference_computed")
        n_ref = s.fft_settings.get("n") if isinstance(s.fft_settings, dict) else None
        self.ref_cache[k] = (view(res), preview(res), n_ref)
        return self.ref_cache[k]

    # ---- judging one process() call -------------------------------------------------
    def _report_inputs(self, ctx, path, before, after, ids_before, ids_after, detail):
        changed = snap_diff(before, after)
        if ids_before != ids_after:
            changed.append(("list", None))
        for part in sorted({p for p, _ in changed}):
            idx = [i for p, i in changed if p == part]
            exp = obs = None
            if part in ("dt", "orientation"):
                exp = [before[part][i] for i in idx]
                obs = [after[part][i] for i in idx]
            elif part == "meta":
                exp, obs = [], []
                for i in idx:
                    _, e, o = meta_delta(before[part][i], after[part][i])
                    exp.append(e)
                    obs.append(o)
            ctx.violation(f"C09:process:{path}:inputs-modified:{part}", self.root,
                          detail=dict(detail, part=part, recordings_changed=idx),
                          expected=exp if exp is not None else "recordings identical to their snapshot before the call",
                          observed=obs if obs is not None else f"{part} of recording(s) {idx} changed",
                          explanation=f"process() changed the {part} of the recordings it was given")
        return changed

    def _P(self, h, op, ctx, muted):
        root = self.root
        key = _key(op)
        path = path_of(op["kind"])
        if key not in h.settings:
            h.settings[key] = make_settings(op["kind"], op["w"], FFT_REQUESTS[self.fft]())
        s = h.settings[key]
        pre_fft = copy.deepcopy(s.fft_settings)
        before = snap_recordings(h.recs)
        ids_before = [id(r) for r in h.recs]
        res = run_process(h.recs, s)        # (the explorer counts this transition)
        after = snap_recordings(h.recs)
        ids_after = [id(r) for r in h.recs]
        n_after = s.fft_settings.get("n") if isinstance(s.fft_settings, dict) else None
        v = view(res)
        ms = list(h.model_ms.get(key, []))
        mr = list(h.model_mr)
        hist = list(h.hist) + [op]
        detail = dict(hist=hist, settings_object=key, fft_settings_before_call=pre_fft,
                      fft_settings_after_call=jsonable(s.fft_settings),
                      recordings=f"{self.nrec} x SeismicRecording3C, {L} samples, dt={DT}, "
                                 f"degrees_from_north={DEG}, signals/meta = REC_SPECS[:{self.nrec}] of hvmc/checks/c09.py",
                      settings=f"make_settings({op['kind']!r}, {op['w']}, fft request {self.fft!r}); "
                               f"in-place edits so far: {ms}")
        entry = dict(pos=len(h.hist), key=key, pre_fft=pre_fft, n_after=n_after, before=before, view=v,
                     epoch=(len(mr), len(ms)))
        if muted:
            h.results.append(res)
            h.snaps.append(v)
            h.log.append(entry)
            return v.get("type")
        ctx.count("P_judged")
        ctx.count("P_judged:" + path)
        ctx.outcome((op["kind"], op["w"], self.fft, n_after, v.get("amplitude"), v.get("type")))
        if len(ctx.samples) < 2 and len(hist) == 2:
            ctx.sample(dict(root=root, hist=hist, fft_after=jsonable(s.fft_settings), result=preview(res)))

        # (a) the recordings are exactly as they were
        self._report_inputs(ctx, path, before, after, ids_before, ids_after, detail)

        # (b) fresh-state differential
        ref_view, ref_prev, n_ref = self._reference(op, ms, mr, n_after, ctx)
        if n_after is not None and n_ref != n_after:
            ctx.violation("C09:fresh-differential:fft-length-not-reproducible", root,
                          detail=dict(detail, resolved_by_pristine_settings=n_ref), expected=n_after, observed=n_ref,
                          explanation="a pristine settings object cannot be made to resolve the FFT length "
                                      "the held settings object used")
        else:
            ctx.count("validated")
            d = view_diff(v, ref_view)
            if d:
                intended = self._intended(mr)
                if explained_by_inputs(d, before, intended):
                    ctx.count("fresh_difference_attributed_to_modified_inputs")
                else:
                    cls = "raises" if isinstance(res, Raised) else \
                        ("meta" if d == ["meta"] else "data")
                    fields = meta_fields_changed(v.get("meta", "null"), ref_view.get("meta", "null")) \
                        if "meta" in d else None
                    ctx.violation(f"C09:process:{path}:differs-from-fresh-state:{cls}", root,
                                  detail=dict(detail, differing_parts=d, meta_fields=fields),
                                  expected=ref_prev, observed=preview(res),
                                  explanation="the result differs from the same call on pristine copies of the "
                                              "recordings with a pristine settings object of the same FFT length "
                                              "although the recordings passed in were as the caller left them "
                                              "(state carried between calls)")
            else:
                ctx.count("fresh_equal")

        # (c') an earlier call with this settings object and no edit in between
        for e in reversed(h.log):
            if e["key"] == key and e["epoch"] == entry["epoch"]:
                ctx.count("history_repeat_checked")
                self._judge_repeat(ctx, path, e["view"], v, e["before"], before, e["pre_fft"], e["n_after"],
                                   n_after, dict(detail, earlier_call_at=e["pos"]), None, preview(res))
                break

        h.results.append(res)
        h.snaps.append(v)
        h.log.append(entry)
        if self.probing:
            return v.get("type")

        # (c) immediate repeat, on a clone of the whole state
        h2 = copy.deepcopy(h)
        s2 = h2.settings[key]
        b2 = snap_recordings(h2.recs)
        ids2 = [id(r) for r in h2.recs]
        res2 = run_process(h2.recs, s2)
        ctx.count("transitions")
        ctx.count("immediate_repeat_checked")
        a2 = snap_recordings(h2.recs)
        n2 = s2.fft_settings.get("n") if isinstance(s2.fft_settings, dict) else None
        d2 = dict(detail, hist=hist + [dict(op, note="immediate repeat")],
                  fft_settings_after_second_call=jsonable(s2.fft_settings))
        self._report_inputs(ctx, path, b2, a2, ids2, [id(r) for r in h2.recs], d2)
        self._judge_repeat(ctx, path, v, view(res2), before, b2, pre_fft, n_after, n2, d2, preview(res), preview(res2))
        h2.hist = tuple(d2["hist"])
        self._results_unchanged(h2, op, ctx, upto=len(h2.results))
        return v.get("type")

    def _judge_repeat(self, ctx, path, v1, v2, in1, in2, pre_fft1, n1, n2, detail, prev1, prev2):
        d = view_diff(v1, v2)
        if not d:
            ctx.count("repeat_identical")
            return
        if explained_by_inputs(d, in1, in2):
            ctx.count("repeat_difference_attributed_to_modified_inputs")
            return
        detail = dict(detail, differing_parts=d, fft_n_first_call=n1, fft_n_second_call=n2)
        if pre_fft1 == {"n": None} and n1 != n2:
            ctx.violation("C09:repeat:same-settings-object:fft_n_None-re-resolved", self.root, detail=detail,
                          expected=prev1, observed=prev2,
                          explanation=f"fft_settings={{'n': None}}: the first call wrote n={n1} into the settings "
                                      f"object, the second identical call re-resolved it to n={n2} and returned a "
                                      f"different result although the recordings were the same")
            return
        ctx.violation(f"C09:repeat:same-settings-object:{path}:result-differs", self.root, detail=detail,
                      expected=prev1, observed=prev2,
                      explanation="the same processing on the same recordings with the same settings object "
                                  "returned a different result")

    # ---- (d) earlier results are immutable ---------------------------------------------
    def _results_unchanged(self, h, op, ctx, upto=None):
        cls = {"P": "process-call", "Ms": "settings-edit", "Mr": "recording-edit"}[op["op"]]
        n = len(h.results) - (1 if op["op"] == "P" else 0) if upto is None else upto
        h.cur_views = [view(r) for r in h.results]
        for i in range(n):
            now = h.cur_views[i]
            ctx.count("earlier_results_rechecked")
            d = view_diff(h.snaps[i], now)
            for part in d:
                fields, exp, obs = (None, "content as returned", f"{part} changed")
                if part == "meta":
                    fields, exp, obs = meta_delta(h.snaps[i].get(part, "null"), now.get(part, "null"))
                ctx.violation(f"C09:result:changed-by-later-{cls}:{part}", self.root,
                              detail=dict(hist=list(h.hist), result_returned_by=h.log[i]["pos"],
                                          settings_object=h.log[i]["key"], changed_by=op, part=part,
                                          meta_fields=fields),
                              expected=exp, observed=obs,
                              explanation=f"the {part} of a result returned earlier changed when "
                                          f"{'the settings object was edited' if cls == 'settings-edit' else 'a recording was edited' if cls == 'recording-edit' else 'process() was called again'} "
                                          f"afterwards (the result shares mutable state with its inputs)")
            if d:
                h.snaps[i] = now        # report each change once


def _key(op):
    return f"{op['kind']}|{op['w']}"


# ---------------------------------------------------------------------------

def _selftest(ctx, root):
    """The oracles can fail: a deliberate in-place taper / metadata edit must be seen."""
    recs = make_recordings(root["nrec"])
    s0 = snap_recordings(recs)
    recs[-1].window("tukey", 0.1)
    parts = {p for p, _ in snap_diff(s0, snap_recordings(recs))}
    ctx.count("oracle_selftests")
    ok = parts == {"samples", "meta"}
    recs = make_recordings(root["nrec"])
    res = run_process(recs, make_settings("fd:geometric_mean", 0.0, {"n": None}))
    if not isinstance(res, Raised):
        v0 = view(res)
        res.meta["window_type_and_width"] = ["tukey", 0.9]
        res.valid_window_boolean_mask[0] = False
        ok = ok and view_diff(v0, view(res)) == ["masks", "meta"]
    if not ok:
        ctx.violation("C09:harness:selftest", root, observed=sorted(parts),
                      explanation="the snapshot comparison did not see a deliberate in-place edit")


_INTERLEAVED_DONE = set()


def _interleaved(ctx, root):
    """call; unrelated calls on other data (one of them with a window longer than the default FFT length); the
    same call again - in a process without any other history.  (fft request {'n': None} is left out: its
    re-resolution on the second call is the known finding of this property.)"""
    if _SERVER is None or root["fft"] == "nopad":
        return
    kinds = root["kinds"] if root["first"] in ("Mr",) or root["first"].startswith("Mr:") else [root["first"].split("|")[0]]
    for kind in kinds:
        key = (root["nrec"], kind, root["fft"])
        if key in _INTERLEAVED_DONE:
            continue
        _INTERLEAVED_DONE.add(key)
        w = root["widths"][-1]
        ans = _SERVER.request(dict(scenario="interleaved", nrec=root["nrec"], kind=kind, w=w, fft=root["fft"]))
        ctx.count("transitions", 5)
        ctx.count("states")
        ctx.count("interleaved_scenarios")
        path = path_of(kind)
        (v1, p1, n1), (v2, p2, n2), (v3, p3, n3) = ans["first"], ans["again"], ans["fresh_settings_afterwards"]
        detail = dict(scenario="process(recs, s); unrelated process() calls on other recordings (48 samples at 0.02 s "
                               f"and one window of {LONG_N} samples at 0.005 s, default fft_settings; equal "
                               "recordings with a taper 0.004 wider) and three refused calls on recs (azimuths "
                               "beyond 180, centre frequencies above the Nyquist frequency); process(recs, s) "
                               "again; process(recs, pristine settings of the same request)",
                      kind=kind, width=w, fft_request=root["fft"], nrec=root["nrec"],
                      fft_n=[n1, n2, n3])
        for tag, (va, pa), what in (("again", (v2, p2), "the same settings object"),
                                    ("fresh-settings", (v3, p3), "a pristine settings object of the same request")):
            d = view_diff(v1, va)
            ctx.count("validated")
            if d:
                ctx.violation(f"C09:interleaved:{path}:{tag}:result-differs-after-unrelated-calls", root,
                              detail=dict(detail, differing_parts=d), expected=p1, observed=pa,
                              explanation=f"the same processing of equal recordings with {what} gives another "
                                          f"result after unrelated calls on other data were made in between")


def _root(nrec, fft, first, depth, kinds, widths, mr, ms_targets):
    return dict(nrec=nrec, fft=fft, first=first, depth=depth, kinds=list(kinds), widths=list(widths),
                mr=list(mr), ms_targets=list(ms_targets))


def roots(tier, seed):
    out = []

    def add(nrec, fft, depth, kinds, widths, mr, ms_targets):
        # one root per first operation (depth 3) / per kind of the first operation (depth 2);
        # together the roots cover every history of the menu exactly once
        if depth >= 3:
            firsts = [f"{k}|{w}" for k in kinds for w in widths] + ["Mr:" + m for m in mr]
        else:
            firsts = list(kinds) + ["Mr"]
        for first in firsts:
            out.append(_root(nrec, fft, first, depth, kinds, widths, mr, ms_targets))

    if tier == "quick":
        for nrec in (1, 2, 3):
            for fft in FFT_REQUESTS:
                add(nrec, fft, 2, KINDS_QUICK, WIDTHS, MR_QUICK, ["last"])
        for fft in FFT_REQUESTS:
            add(2, fft, 2, ["psd_raw"], WIDTHS, MR_QUICK, ["last"])
        n0 = len(out)
        add(2, "n128", 1, ["fd:geometric_mean", "single", "rotdpp", "azimuthal", "diffuse@keeping_smallest_time_step"],
            [0.1], [], ["last"])
        for r in out[n0:]:
            r["near_dt"] = True
        return out
    # thorough: depth 3 on the unpadded request (every kind, every width), depth 3 with the
    # padded requests on two recordings, depth 2 for everything else
    for nrec in (1, 2, 3):
        add(nrec, "nopad", 3, KINDS_ALL, WIDTHS, MR_ALL, ["last", "first"])
    for fft in ("default", "n128"):
        add(2, fft, 3, KINDS_QUICK, WIDTHS, MR_QUICK, ["last", "first"])
        for nrec in (1, 3):
            add(nrec, fft, 2, KINDS_ALL, WIDTHS, MR_ALL, ["last", "first"])
    for nrec in (1, 2, 3):
        for fft in FFT_REQUESTS:
            add(nrec, fft, 3, ["psd_raw"], WIDTHS, MR_QUICK, ["last"])
    n0 = len(out)
    for nrec in (2, 3):
        add(nrec, "n128", 2, ["fd:geometric_mean", "fd:squared_average@keeping_majority_time_step", "single", "rotdpp",
                              "azimuthal", "diffuse@keeping_smallest_time_step"], [0.1, 0.5], MR_QUICK, ["last"])
    for r in out[n0:]:
        r["near_dt"] = True
    return out


_SERVER = None
_REF_CACHE = {}


LONG_N = 40000      # more samples than the default FFT length 2**15: the padded length becomes 2**16


def _long_decoy():
    """An unrelated call: ONE long window, another time step and taper, default FFT settings, fresh objects."""
    n = np.arange(LONG_N)
    x = ((n * 7919) % 1013) / 1013.0 - 0.5
    recs = [SeismicRecording3C(TimeSeries(x + 0.3, 0.005), TimeSeries(x[::-1] * 1.5, 0.005),
                               TimeSeries(np.roll(x, 17) - 0.1, 0.005))]
    sm = dict(operator="linear_rectangular", bandwidth=3.0, center_frequencies_in_hz=[4.0, 9.0])
    for cls, kw in ((hvsrpy.HvsrTraditionalProcessingSettings, dict(method_to_combine_horizontals="squared_average")),
                    (hvsrpy.HvsrTraditionalSingleAzimuthProcessingSettings, dict(azimuth_in_degrees=77.0))):
        hvsrpy.process(recs, cls(window_type_and_width=["tukey", 0.33], smoothing=dict(sm), **kw))


def _refused_settings():
    sm = dict(operator="konno_and_ohmachi", bandwidth=40.0, center_frequencies_in_hz=list(FCS))
    hi = dict(sm, center_frequencies_in_hz=[5.0, 0.9 / DT])
    return [hvsrpy.HvsrAzimuthalProcessingSettings(window_type_and_width=["tukey", 0.9], smoothing=dict(sm),
                                                   azimuths_in_degrees=[0, 45, 90, 135, 180, 225]),
            hvsrpy.HvsrTraditionalProcessingSettings(window_type_and_width=["tukey", 0.8], smoothing=hi),
            hvsrpy.HvsrTraditionalSingleAzimuthProcessingSettings(window_type_and_width=["tukey", 0.7],
                                                                  smoothing=hi, azimuth_in_degrees=10.0)]


def _pristine_interleaved(req):
    """Runs in a fresh child: the call, unrelated calls (short and long decoys), the same call again with the
    SAME settings object on equal recordings; returns both views."""
    s = make_settings(req["kind"], req["w"], FFT_REQUESTS[req["fft"]]())
    recs = make_recordings(req["nrec"])         # the caller keeps its recordings (process() leaves them alone)
    r1 = run_process(recs, s)
    n1 = s.fft_settings.get("n") if isinstance(s.fft_settings, dict) else None
    _decoy()
    _long_decoy()
    # calls on the caller's recordings that are legitimately refused (azimuths outside [0, 180); centre
    # frequencies above the Nyquist frequency), each with another taper
    for bad in _refused_settings():
        out = run_process(recs, bad)
        if not isinstance(out, Raised):
            raise RuntimeError("a call meant to be refused was accepted: " + repr(bad.attr_dict)[:200])
    # last before the repetition: the same kind of call on equal data with a taper 0.4 % wider (other objects)
    run_process(make_recordings(req["nrec"]), make_settings(req["kind"], float(req["w"]) + 0.004,
                                                            FFT_REQUESTS[req["fft"]]()))
    r2 = run_process(recs, s)
    n2 = s.fft_settings.get("n") if isinstance(s.fft_settings, dict) else None
    # and a pristine settings object of the same request AFTER the unrelated calls
    s3 = make_settings(req["kind"], req["w"], FFT_REQUESTS[req["fft"]]())
    r3 = run_process(recs, s3)
    n3 = s3.fft_settings.get("n") if isinstance(s3.fft_settings, dict) else None
    return dict(first=(view(r1), preview(r1), n1), again=(view(r2), preview(r2), n2),
                fresh_settings_afterwards=(view(r3), preview(r3), n3))


def _pristine_reference(req):
    """Runs in a fresh child of the pristine server: one call, no history."""
    global NEAR_EQUAL_DT
    if req.get("scenario") == "interleaved":
        return _pristine_interleaved(req)
    NEAR_EQUAL_DT = bool(req.get("near_dt"))
    recs = make_recordings(req["nrec"])
    for m in req["mr"]:
        apply_mr(recs, m)
    s = make_settings(req["kind"], req["w"], {"n": None})
    for f in req["ms"]:
        apply_ms(s, f)
    n_used = req["n_used"]
    if n_used is None:
        s.fft_settings = FFT_REQUESTS[req["fft"]]()
    elif n_used == L:
        s.fft_settings = {"n": None}
    else:
        s.fft_settings = {"n": int(n_used)}
    res = run_process(recs, s)
    n_ref = s.fft_settings.get("n") if isinstance(s.fft_settings, dict) else None
    return (view(res), preview(res), n_ref)


def warm():
    global _SERVER
    from hvmc.engine import pristine
    # the server is forked BEFORE this process runs any hvsrpy processing
    _SERVER = pristine.PristineServer(_pristine_reference, preload=pristine.preload_numba_kernels).start()
    for k in ("fd:geometric_mean", "psd"):
        run_process(make_recordings(1), make_settings(k, 0.1, {"n": None}))


def run_root(root, ctx, tier):
    global NEAR_EQUAL_DT
    NEAR_EQUAL_DT = bool(root.get("near_dt"))
    _REF_CACHE.clear() if NEAR_EQUAL_DT else None
    try:
        _run_root(root, ctx, tier)
    finally:
        if NEAR_EQUAL_DT:
            _REF_CACHE.clear()
        NEAR_EQUAL_DT = False


def _run_root(root, ctx, tier):
    _selftest(ctx, root)
    _interleaved(ctx, root)
    sysm = System(root, ctx)
    explorer.bfs(sysm, root, root["depth"], ctx, key_prefix="C09",
                 check_determinism=(tier == "thorough" and root["depth"] <= 2))
    ctx.nontrivial_case((root["nrec"], root["fft"], root["first"], root["kinds"], root["depth"]))


def finalize(ctx, tier):
    global _SERVER
    if _SERVER is not None:
        _SERVER.stop()
        _SERVER = None
    c = ctx.counters
    need = ["P_judged", "validated", "immediate_repeat_checked", "history_repeat_checked",
            "earlier_results_rechecked", "fresh_reference_computed"]
    need += ["P_judged:" + p for p in ("frequency-domain", "single-azimuth", "rotdpp", "azimuthal",
                                         "diffuse-field", "psd")]
    missing = [k for k in need if not c.get(k)]
    if missing or len(ctx.outcomes) < 20:
        ctx.violation("C09:harness:vacuous", dict(tier=tier), observed=dict(missing=missing,
                                                                           outcomes=len(ctx.outcomes)),
                      explanation="an oracle of the check was never exercised")


def describe(tier):
    return dict(
        rule="root = (1-3 recordings of 64 samples with different signals per component, deployed orientation 15 deg, "
             "list-valued metadata; FFT request None / {'n': None} / {'n': 128}; first operation group); BFS over "
             "all histories up to the root's depth of {process(kind, Tukey width) with one held settings object per "
             "(kind, width), kinds = one per frequency-domain formula + single azimuth + RotDpp + azimuthal + "
             "diffuse field + PSD (smoothed; unsmoothed in separate roots), widths {0, 0.1, 0.5}; in-place edits of "
             "the last (thorough: also the first) used settings object: width, first centre frequency, first "
             "azimuth, fft n; in-place edits of a recording: sample, metadata entry, nested metadata list "
             "(thorough: also last recording's sample, orient_sensor_to)}; every process() transition is judged "
             "(inputs unchanged, fresh-state differential, immediate repeat on a clone, repeat along the history) "
             "and after every operation all earlier results are re-read; an edit at the depth bound of a depth-2 "
             "root is followed by one more process() on a clone (leaf probe); states are the complete observable "
             "state (recordings + settings + all results); non-trivial/distinct = root",
        bounds=dict(depth="2 quick; thorough 3 for the unpadded request (all kinds) and for 2 recordings with the "
                          "padded requests (8 kinds), 2 otherwise",
                    recordings="1-3 x 64 samples, dt 0.01", tukey_widths=WIDTHS,
                    fft_requests=list(FFT_REQUESTS),
                    kinds=(KINDS_QUICK if tier == "quick" else KINDS_ALL) + ["psd_raw (own roots)"],
                    determinism_replays="thorough, roots of depth 2"),
        exhaustive=True,
        assumptions=["results are compared bit for bit (the same code path runs twice)",
                     "the fresh-state reference is asked for the FFT length the judged call resolved ({'n': None} "
                     "when it equals the window length, {'n': n} otherwise) and is memoised per (number of "
                     "recordings, kind, width, settings edits, recording edits, n) inside a worker process",
                     "a result difference between two calls that saw different recordings is attributed to the "
                     "inputs-modified finding reported at the call that changed them, not reported again",
                     "all recordings of a root have the same length and time step; alias method names and "
                     "dissimilar time steps are not exercised (C01 / C03)"])


_describe_base = describe


def describe(tier):     # noqa: F811 - the base description plus what later rounds added to the space
    d = _describe_base(tier)
    d["rule"] = d["rule"] + " " + "Once per (number of recordings, kind, FFT request != nopad) an interleaved scenario is executed in a fresh child of the pristine server: call; short decoy; a 40000-sample window with default FFT settings; three refused calls on the caller's recordings; equal data with a taper 0.004 wider; the call again with the same settings object; and with a pristine settings object - all three results must be identical."
    return d
